#!/bin/bash
# Builds /verif/.venv (python 3.12 = /venv's interpreter, z3-solver + cvc5 + jsonschema from the offline wheelhouse,
# and a .pth making the repository's own dependencies (networkx, pandas, ...) importable).  Offline only.
set -e
cd "$(dirname "$0")"
if [ ! -x .venv/bin/python ] || ! .venv/bin/python -c "import z3, jsonschema, networkx" 2>/dev/null; then
  rm -rf .venv
  /venv/bin/python -m venv .venv
  .venv/bin/python -m pip install -q --no-index --find-links /opt/veriftools/wheels z3-solver cvc5 jsonschema >/dev/null
  SP=$(.venv/bin/python -c "import site; print(site.getsitepackages()[0])")
  echo "import site; site.addsitedir('/venv/lib/python3.12/site-packages')" > "$SP/zz_repo_deps.pth"
fi
.venv/bin/python -c "import z3, jsonschema, networkx; print('setup ok: z3', z3.get_version_string())"
mkdir -p evidence replays
