import sys, random, itertools as itt
sys.path.insert(0, "/tmp/scratch")
from oracle import *
from y0.algorithm.identify import identify_outcomes
rng = random.Random(1)
names = [Variable(n) for n in "ABCDE"]
def graphs(n):
    vs = names[:n]
    pairs = list(itt.combinations(range(n), 2))
    for dmask in itt.product([0,1], repeat=len(pairs)):
        for bmask in itt.product([0,1], repeat=len(pairs)):
            d = [(vs[i], vs[j]) for (i,j),m in zip(pairs,dmask) if m]
            b = [(vs[i], vs[j]) for (i,j),m in zip(pairs,bmask) if m]
            yield NxMixedGraph.from_edges(nodes=vs, directed=d, undirected=b)
bad = 0; crashes = 0; total = 0; ident=0
seen_bad = []
for n in (3,4):
    for g in graphs(n):
        vs = list(g.nodes())
        for xs in itt.chain.from_iterable(itt.combinations(vs, k) for k in range(1, n)):
            rest = [v for v in vs if v not in xs]
            for ys in itt.chain.from_iterable(itt.combinations(rest, k) for k in range(1, len(rest)+1)):
                total += 1
                try:
                    est = identify_outcomes(g, set(xs), set(ys))
                except Exception as e:
                    crashes += 1
                    if crashes <= 3: print("CRASH", type(e).__name__, e, list(g.directed.edges()), list(g.undirected.edges()), xs, ys)
                    continue
                if est is None: continue
                ident += 1
                if n == 4 and rng.random() > 0.15: continue
                scm = random_scm(g, rng)
                jt = joint(scm)
                free = sorted({v.get_base() for v in est.get_variables()} - set().union(*[s.ranges for s in [est] if isinstance(s, Sum)]), key=str)
                ok = True
                for xv in itt.product(range(2), repeat=len(xs)):
                    jd = joint(scm, dict(zip(xs, xv)))
                    for yv in itt.product(range(2), repeat=len(ys)):
                        truth = prob(jd, dict(zip(ys, yv)))
                        others = [v for v in vs if v not in xs and v not in ys]
                        for ov in itt.product(range(2), repeat=len(others)):
                            env = {**dict(zip(xs,xv)), **dict(zip(ys,yv)), **dict(zip(others, ov))}
                            try:
                                val = evaluate(est, jt, env)
                            except ZeroDivisionError:
                                continue
                            if val != truth:
                                ok = False
                if not ok:
                    bad += 1
                    if len(seen_bad) < 6:
                        seen_bad.append((list(g.directed.edges()), list(g.undirected.edges()), xs, ys, str(est)))
print("total", total, "identified", ident, "crashes", crashes, "numerically wrong", bad)
for s in seen_bad: print(s)
