import warnings; warnings.filterwarnings("ignore")
from y0.dsl import *
from y0.mutate import canonicalize, canonical_expr_equal
from y0.parser import parse_y0
e1 = P(A|B)*P(A|C); e2 = P(A|C)*P(A|B)
o=[A,B,C]
print(canonicalize(e1,o), "|", canonicalize(e2,o), canonicalize(e1,o)==canonicalize(e2,o))
# idempotence cases
cases = [P(A)/(P(B)/P(A)), Sum[B](P(A,B))*P(C), (P(A)*P(B))/(P(B)*P(A)), Sum[A](P(A))*P(B), P(A,B)/Sum[A](P(A,B)), One()/ (One()/P(A))]
for e in cases:
    c1 = canonicalize(e, [A,B,C]); c2 = canonicalize(c1,[A,B,C])
    print(repr(e), "->", c1, "->", c2, c1==c2)
# print/parse
for e in [P(A)/ (P(B)*P(C)), P(A)*(P(B)/P(C)), One(), Zero()*P(A), Sum[A](P(A,B)/P(B)), P(A)/P(B)/P(C), (P(A)/P(B))*P(C), P(A)*P(B)/P(C), Sum[B](P(A|B))/P(C), Q[A](B,C), PP[Pi1](A|B), P[X](Y|Z), P(Y@X | Z), P(+A | -B), P(A@(+X,-Z))]:
    s = str(e)
    try:
        p = parse_y0(s)
        print(s, "=>", str(p), p==e)
    except Exception as ex:
        print(s, "PARSE ERROR", type(ex).__name__, ex)
