import warnings; warnings.filterwarnings("ignore")
import itertools as itt, networkx as nx
from y0.dsl import Variable
from y0.graph import NxMixedGraph
from y0.algorithm.conditional_independencies import are_d_separated
names = [Variable(n) for n in "ABCD"]
tot = bad = 0
for n in (2, 3, 4):
    vs = names[:n]; pairs = list(itt.combinations(vs, 2))
    for dm in itt.product([0, 1], repeat=len(pairs)):
        D = [p for p, m in zip(pairs, dm) if m]
        for um in itt.product([0, 1], repeat=len(pairs)):
            U = [p for p, m in zip(pairs, um) if m]
            g = NxMixedGraph.from_edges(nodes=vs, directed=D, undirected=U)
            dg = nx.DiGraph(); dg.add_nodes_from(vs); dg.add_edges_from(D)
            for i, (u, v) in enumerate(U): dg.add_edge(("L", i), u); dg.add_edge(("L", i), v)
            for a, b in itt.combinations(vs, 2):
                rest = [v for v in vs if v not in (a, b)]
                for k in range(len(rest) + 1):
                    for C in itt.combinations(rest, k):
                        tot += 1
                        if bool(are_d_separated(g, a, b, conditions=C)) != nx.is_d_separator(dg, {a}, {b}, set(C)):
                            bad += 1
                            if bad < 4: print("MISMATCH", D, U, a, b, C)
print("checked", tot, "mismatches", bad)
