"""R2: unbounded proof that repaired moralisation adjacency == augmented-graph spec adjacency (given bc = rtc of U|A is an equivalence on A)."""
import z3, time
Node = z3.DeclareSort("Node"); B = z3.BoolSort()
D = z3.Function("D", Node, Node, B); U = z3.Function("U", Node, Node, B); A = z3.Function("A", Node, B)
bc = z3.Function("bc", Node, Node, B)   # rtc of U restricted to A
u, v, c, d, r, x, y, z = z3.Consts("u v c d r x y z", Node)
ax = [
    z3.ForAll([x], z3.Implies(A(x), bc(x, x))),
    z3.ForAll([x, y], z3.Implies(bc(x, y), bc(y, x))),
    z3.ForAll([x, y, z], z3.Implies(z3.And(bc(x, y), bc(y, z)), bc(x, z))),
    z3.ForAll([x, y], z3.Implies(bc(x, y), z3.And(A(x), A(y)))),
    z3.ForAll([x, y], z3.Implies(z3.And(U(x, y), A(x), A(y)), bc(x, y))),
    # ancestral: parents of A-members are in A
    z3.ForAll([x, y], z3.Implies(z3.And(D(x, y), A(y)), A(x))),
]
touch = lambda a, b: z3.Or(a == b, D(a, b))
spec = lambda a, b: z3.And(A(a), A(b), a != b, z3.Exists([c, d], z3.And(A(c), A(d), touch(a, c), bc(c, d), touch(b, d))))
inKPa = lambda a, rep: z3.Or(bc(rep, a), z3.Exists([c], z3.And(bc(rep, c), D(a, c))))
fixed = lambda a, b: z3.And(A(a), A(b), a != b, z3.Exists([r], z3.And(A(r), inKPa(a, r), inKPa(b, r))))
# current code: D, D^-1, U, co-parents
cur = lambda a, b: z3.And(A(a), A(b), a != b, z3.Or(D(a, b), D(b, a), U(a, b), z3.Exists([c], z3.And(A(c), D(a, c), D(b, c)))))
for name, impl in [("fixed==spec", fixed), ("current==spec", cur), ("current=>spec", None)]:
    s = z3.Solver(); s.set("timeout", 20000); s.add(*ax)
    if impl is None:
        s.add(z3.Not(z3.Implies(cur(u, v), spec(u, v))))
    else:
        s.add(impl(u, v) != spec(u, v))
    t = time.time(); res = s.check(); print(name, res, f"{time.time()-t:.2f}s")
