"""Scratch prototype 2: AST -> VC for the real operator overloads of dsl.py, against den-contracts (NRA + fold axioms)."""
import ast, pathlib, time, z3, sys
SRC = pathlib.Path(sys.argv[1] if len(sys.argv) > 1 else "/repo/src/y0/dsl.py").read_text()
MOD = ast.parse(SRC)
CLASSES = {}
for n in MOD.body:
    if isinstance(n, ast.ClassDef):
        CLASSES[n.name] = {m.name: m for m in n.body if isinstance(m, ast.FunctionDef)}
        CLASSES[n.name]["__bases__"] = [b.id for b in n.bases if isinstance(b, ast.Name)]
def mro(c):
    out = [c]
    for b in CLASSES.get(c, {}).get("__bases__", []):
        if b in CLASSES: out += mro(b)
    return out
CONCRETE = ["Probability", "PopulationProbability", "Product", "Sum", "Fraction", "One", "Zero", "QFactor"]
def issub(c, k): return k in mro(c)

Expr = z3.DeclareSort("Expr"); ESeq = z3.DeclareSort("ESeq"); R = z3.RealSort(); B = z3.BoolSort()
Cls, cls_consts = z3.EnumSort("Cls", CONCRETE); CL = dict(zip(CONCRETE, cls_consts))
cls = z3.Function("cls", Expr, Cls); den = z3.Function("den", Expr, R); ok = z3.Function("ok", Expr, B)
numerator = z3.Function("numerator", Expr, Expr); denominator = z3.Function("denominator", Expr, Expr)
expressions = z3.Function("expressions", Expr, ESeq)
PROD = z3.Function("PROD", ESeq, R); OKS = z3.Function("OKS", ESeq, B)
cat = z3.Function("cat", ESeq, ESeq, ESeq); unit = z3.Function("unit", Expr, ESeq)
e, f = z3.Consts("e f", Expr); a, b = z3.Consts("a b", ESeq)
def ground(expr_terms, seq_terms):
    out = []
    for t in expr_terms:
        out += [z3.Implies(cls(t) == CL["One"], z3.And(den(t) == 1, ok(t))),
                z3.Implies(cls(t) == CL["Zero"], z3.And(den(t) == 0, ok(t))),
                z3.Implies(cls(t) == CL["Fraction"], z3.And(den(t) == den(numerator(t)) / den(denominator(t)),
                           ok(t) == z3.And(ok(numerator(t)), ok(denominator(t)), den(denominator(t)) != 0))),
                z3.Implies(cls(t) == CL["Product"], z3.And(den(t) == PROD(expressions(t)), ok(t) == OKS(expressions(t))))]
    for kind, t, args in seq_terms:
        if kind == "unit": out.append(z3.And(PROD(t) == den(args[0]), OKS(t) == ok(args[0])))
        if kind == "cat": out.append(z3.And(PROD(t) == PROD(args[0]) * PROD(args[1]), OKS(t) == z3.And(OKS(args[0]), OKS(args[1]))))
    return out
_n = [0]
def fresh(p, s):
    _n[0] += 1; return z3.Const(f"{p}!{_n[0]}", s)

class VExpr:
    def __init__(s, t, klass=None): s.t, s.klass = t, klass      # klass: statically known concrete class or None
class VSeq:
    def __init__(s, t): s.t = t
class VBool:
    def __init__(s, t): s.t = t

class Run:
    def __init__(s, owner, meth):
        s.owner, s.meth = owner, meth; s.hyps = []; s.obls = []; s.rets = []; s.eterms = []; s.sterms = []
    def isinst(s, v, names):
        ks = [k for k in CONCRETE if any(issub(k, n) for n in names)]
        return z3.Or(*[cls(v.t) == CL[k] for k in ks]) if ks else z3.BoolVal(False)
    def mul(s, x, y, pc):      # contract of `*` on expressions (any receiver class): den/ok homomorphism
        r = fresh("mul", Expr); s.eterms.append(r)
        s.hyps.append(z3.Implies(z3.And(*pc), z3.And(den(r) == den(x.t) * den(y.t), ok(r) == z3.And(ok(x.t), ok(y.t)))))
        return VExpr(r)
    def ev(s, n, env, pc):
        if isinstance(n, ast.Name): return env[n.id]
        if isinstance(n, ast.Attribute):
            v = s.ev(n.value, env, pc)
            if n.attr == "numerator": return VExpr(numerator(v.t))
            if n.attr == "denominator": return VExpr(denominator(v.t))
            if n.attr == "expressions": return VSeq(expressions(v.t))
            raise NotImplementedError(n.attr)
        if isinstance(n, ast.BinOp) and isinstance(n.op, ast.Mult):
            return s.mul(s.ev(n.left, env, pc), s.ev(n.right, env, pc), pc)
        if isinstance(n, ast.Tuple):
            parts = []
            for el in n.elts:
                if isinstance(el, ast.Starred): parts.append(s.ev(el.value, env, pc).t)
                else:
                    x = s.ev(el, env, pc).t; u = unit(x); s.sterms.append(("unit", u, [x])); parts.append(u)
            t = parts[0]
            for p in parts[1:]:
                c = cat(t, p); s.sterms.append(("cat", c, [t, p])); t = c
            return VSeq(t)
        if isinstance(n, ast.Call):
            fn = n.func
            if isinstance(fn, ast.Name) and fn.id == "isinstance":
                v = s.ev(n.args[0], env, pc)
                names = [x.id for x in n.args[1].elts] if isinstance(n.args[1], ast.Tuple) else ([n.args[1].id] if isinstance(n.args[1], ast.Name) else [n.args[1].left.id, n.args[1].right.id])
                return VBool(s.isinst(v, names))
            if isinstance(fn, ast.Name) and fn.id == "Fraction":       # constructor: precondition denominator is not Zero
                nu, de = [s.ev(x, env, pc) for x in n.args]
                s.obls.append(("pre@Fraction.not_Zero_denominator", list(pc), cls(de.t) != CL["Zero"]))
                r = fresh("frac", Expr); s.eterms.append(r)
                s.hyps.append(z3.And(cls(r) == CL["Fraction"], numerator(r) == nu.t, denominator(r) == de.t))
                return VExpr(r)
            if isinstance(fn, ast.Attribute) and isinstance(fn.value, ast.Name) and fn.value.id == "Product" and fn.attr == "safe":
                seq = s.ev(n.args[0], env, pc)          # contract of Product.safe: den = PROD, ok = OKS
                r = fresh("prod", Expr); s.eterms.append(r)
                s.hyps.append(z3.And(den(r) == PROD(seq.t), ok(r) == OKS(seq.t)))
                return VExpr(r)
        raise NotImplementedError(ast.dump(n)[:160])
    def body(s, stmts, env, pc):
        for i, st in enumerate(stmts):
            if isinstance(st, ast.Expr) and isinstance(st.value, ast.Constant): continue
            if isinstance(st, ast.Return):
                s.rets.append((list(pc), s.ev(st.value, env, pc))); return
            if isinstance(st, ast.If):
                c = s.ev(st.test, env, pc).t
                s.body(st.body + stmts[i+1:], dict(env), pc + [c])
                s.body(st.orelse + stmts[i+1:], dict(env), pc + [z3.Not(c)])
                return
            raise NotImplementedError(ast.dump(st)[:160])

def check(owner, meth, op):
    fn = CLASSES[owner][meth]; params = [x.arg for x in fn.args.args]
    me, other = z3.Consts("self other", Expr)
    recv_classes = [k for k in CONCRETE if issub(k, owner) and (owner == k or meth not in CLASSES[k])]
    r = Run(owner, meth)
    env = {params[0]: VExpr(me), params[1]: VExpr(other)}
    base = [z3.Or(*[cls(me) == CL[k] for k in recv_classes])]
    r.body(fn.body, env, [])
    print(f"{owner}.{meth}: receiver classes {recv_classes}; {len(r.rets)} paths")
    for k, (pc, rv) in enumerate(r.rets):
        want_den = den(me) * den(other) if op == "*" else den(me) / den(other)
        pre_ok = z3.And(ok(me), ok(other)) if op == "*" else z3.And(ok(me), ok(other), den(other) != 0)
        goal = z3.Implies(pre_ok, z3.And(ok(rv.t), den(rv.t) == want_den))
        sv = z3.Solver(); sv.set("timeout", 10000); sv.add(*ground([me, other, numerator(me), denominator(me), numerator(other), denominator(other)] + r.eterms, r.sterms), *base, *r.hyps, *pc, z3.Not(goal))
        t = time.time(); res = sv.check(); dt = (time.time() - t) * 1000
        print(f"   path {k}: post.den {('discharged' if res == z3.unsat else 'REFUTED' if res == z3.sat else 'undecided'):10s} {dt:7.1f} ms")
    for name, pc, goal in r.obls:
        pre_ok = z3.And(ok(me), ok(other)) if op == "*" else z3.And(ok(me), ok(other), den(other) != 0)
        sv = z3.Solver(); sv.set("timeout", 10000); sv.add(*ground([me, other, numerator(me), denominator(me), numerator(other), denominator(other)] + r.eterms, r.sterms), *base, *r.hyps, *pc, pre_ok, z3.Not(goal))
        res = sv.check(); print(f"   {name}: {('discharged' if res == z3.unsat else 'REFUTED' if res == z3.sat else 'undecided')}")

check("Expression", "__truediv__", "/")
check("Probability", "__mul__", "*")
check("Product", "__mul__", "*")
check("Fraction", "__mul__", "*")
check("Fraction", "__truediv__", "/")
check("Sum", "__mul__", "*")
check("QFactor", "__mul__", "*")
