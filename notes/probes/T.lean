import Mathlib

open Relation

theorem rtc_ext {α : Type} (r s : α → α → Prop) (h : ∀ a b, r a b ↔ s a b) :
    ∀ a b, ReflTransGen r a b ↔ ReflTransGen s a b := by
  have : r = s := by funext a b; exact propext (h a b)
  subst this; intro a b; rfl

theorem rtc_of_sub {α : Type} (r s : α → α → Prop) (h : ∀ a b, r a b → ReflTransGen s a b) :
    ∀ a b, ReflTransGen r a b → ReflTransGen s a b := by
  intro a b hab
  induction hab with
  | refl => exact ReflTransGen.refl
  | tail _ hbc ih => exact ih.trans (h _ _ hbc)

theorem list_prod_perm (l₁ l₂ : List ℚ) (h : l₁.Perm l₂) : l₁.prod = l₂.prod := h.prod_eq
