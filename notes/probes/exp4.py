import warnings; warnings.filterwarnings("ignore")
from y0.dsl import *
from y0.graph import NxMixedGraph
from y0.algorithm.counterfactual_transport.ancestor_utils import _merge_frozen_sets_linked_by_bidirectional_edges, get_ancestral_components
A_,B_,C_,D_,E_=map(Variable,"ABCDE")
# (a) two sets {A},{B}; bidirected A<->C, B<->D with C,D in no set
g = NxMixedGraph.from_edges(nodes=[A_,B_,C_,D_], undirected=[(A_,C_),(B_,D_)])
print("merge:", _merge_frozen_sets_linked_by_bidirectional_edges({frozenset({A_}),frozenset({B_})}, g))
print("components:", get_ancestral_components(conditioned_variables=set(), root_variables={A_,B_}, graph=g))
# (b) idc_star conditional over intervention var
from y0.algorithm.identify import idc_star, id_star
g2 = NxMixedGraph.from_edges(directed=[(X,Z),(Z,Y)])
try:
    r = idc_star(g2, {Y @ -X: -Y}, {Z @ -X: -Z})
    print("idc_star:", r)
except Exception as e:
    print("idc_star exc", type(e).__name__, e)
g3 = NxMixedGraph.from_edges(directed=[(X,Y),(Z,Y)], undirected=[(X,Z)])
try:
    r = idc_star(g3, {Y @ -X: -Y}, {Z: -Z})
    print("idc_star2:", r)
except Exception as e:
    print("idc_star2 exc", type(e).__name__, e)
# (c) trso vocabulary
from y0.algorithm.transport import identify_target_outcomes, is_transport_node
from y0.examples import tikka_trso_figure_8_graph
import itertools as itt
def walk(e):
    from y0.dsl import Probability, Sum, Product, Fraction
    if isinstance(e, Probability): yield e
    elif isinstance(e, Sum):
        yield from walk(e.expression)
    elif isinstance(e, Product):
        for s in e.expressions: yield from walk(s)
    elif isinstance(e, Fraction):
        yield from walk(e.numerator); yield from walk(e.denominator)
def sums(e):
    from y0.dsl import Probability, Sum, Product, Fraction
    if isinstance(e, Sum):
        yield e; yield from sums(e.expression)
    elif isinstance(e, Product):
        for s in e.expressions: yield from sums(s)
    elif isinstance(e, Fraction):
        yield from sums(e.numerator); yield from sums(e.denominator)
names=[Variable(n) for n in "ABCD"]
leaks=0; tot=0; crashes=0; shown=0
pairs=list(itt.combinations(range(4),2))
import random
rng=random.Random(0)
for trial in range(3000):
    d=[(names[i],names[j]) for i,j in pairs if rng.random()<0.4]
    b=[(names[i],names[j]) for i,j in pairs if rng.random()<0.3]
    g=NxMixedGraph.from_edges(nodes=names,directed=d,undirected=b)
    xs=set(rng.sample(names, rng.randint(1,2))); rest=[n for n in names if n not in xs]
    ys=set(rng.sample(rest, rng.randint(1,len(rest))))
    so={Pi1:set(rng.sample(names, rng.randint(1,2)))}; 
    si={Pi1:set(rng.sample([n for n in names if n not in so[Pi1]], rng.randint(1,2)))}
    tot+=1
    try:
        r=identify_target_outcomes(g,target_outcomes=ys,target_interventions=xs,surrogate_outcomes=so,surrogate_interventions=si)
    except Exception as e:
        crashes+=1
        if crashes<=4: print("TRSO crash", type(e).__name__, str(e)[:80], d,b,xs,ys,so,si)
        continue
    if r is None: continue
    bad=[p for p in walk(r) if any(is_transport_node(v.get_base()) for v in p.get_variables())] + [s for s in sums(r) if any(is_transport_node(v) for v in s.ranges)]
    if bad:
        leaks+=1
        if shown<3: shown+=1; print("LEAK", r, d,b,xs,ys,so,si)
print("trso total",tot,"crashes",crashes,"leaks",leaks)
