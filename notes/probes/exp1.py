import warnings; warnings.filterwarnings("ignore")
from y0.dsl import *
from y0.graph import NxMixedGraph
from y0.algorithm.identify import identify_outcomes
from y0.algorithm.conditional_independencies import are_d_separated, get_conditional_independencies
N=Variable("N")
# C14: remove_in_edges drops nodes
g = NxMixedGraph.from_edges(nodes=[X,Y,Z], directed=[(X,Y)], undirected=[])
print("remove_in_edges nodes:", sorted(g.remove_in_edges({X}).nodes()), "expected X,Y,Z")
# C02: crash
Y1,Y2=Variable("Y1"),Variable("Y2")
g2 = NxMixedGraph.from_edges(nodes=[X,Y1,Y2], directed=[(X,Y1)], undirected=[])
try:
    print("ID:", identify_outcomes(g2, {X}, {Y1,Y2}))
except Exception as e:
    print("ID crash:", type(e).__name__, e)
# C04: collider through bidirected
g3 = NxMixedGraph.from_edges(directed=[(X,N)], undirected=[(N,Z)])
print("dsep X,Z | N (should be False):", bool(are_d_separated(g3, X, Z, conditions={N})))
g4 = NxMixedGraph.from_edges(undirected=[(X,N),(N,Z)])
print("dsep X,Z | N (should be False):", bool(are_d_separated(g4, X, Z, conditions={N})))
# C16 roundtrip with isolated
g5 = NxMixedGraph.from_edges(nodes=[X,Y,Z], directed=[(X,Y)], undirected=[])
rt = NxMixedGraph.from_latent_variable_dag(g5.to_latent_variable_dag())
print("roundtrip eq:", rt==g5, sorted(rt.nodes()))
# C19 minimize
from y0.algorithm.counterfactual_transport.ancestor_utils import minimize_counterfactual
g6 = NxMixedGraph.from_edges(directed=[(Y,X)])
try:
    print(minimize_counterfactual(Y @ -X, g6))
except Exception as e:
    print("minimize crash:", type(e).__name__, e)
# Sum.simplify
print("Sum[A,B](P(A)) canon:", __import__('y0.mutate',fromlist=['canonicalize']).canonicalize(Sum.safe(P(A),[A,B])))
# powerset off by one
g7 = NxMixedGraph.from_edges(directed=[(X,Z),(Z,Y)])
print("CIs max_conditions=1:", get_conditional_independencies(g7, max_conditions=1))
print("CIs max_conditions=2:", get_conditional_independencies(g7, max_conditions=2))
