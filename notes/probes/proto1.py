import z3, time
Node = z3.DeclareSort("Node")
B = z3.BoolSort()
def Set(name): return z3.Function(name, Node, B)
def Rel(name): return z3.Function(name, Node, Node, B)
u, v, w = z3.Consts("u v w", Node)
# self graph
N, D, U = Set("N"), Rel("D"), Rel("U")
S = Set("S")  # vertices arg
wf = z3.And(
    z3.ForAll([u, v], z3.Implies(D(u, v), z3.And(N(u), N(v)))),
    z3.ForAll([u, v], z3.Implies(U(u, v), z3.And(N(u), N(v)))),
    z3.ForAll([u, v], U(u, v) == U(v, u)),
)
# symbolic execution of remove_in_edges: from_edges(nodes=vertices, directed=_exclude_target, undirected=_exclude_adjacent)
Dl = lambda a, b: z3.And(D(a, b), z3.Not(S(b)))
Ul = lambda a, b: z3.And(U(a, b), z3.Not(S(a)), z3.Not(S(b)))   # U here stands for the edge list (sym closure later)
# from_edges post: nodes' = nodes_arg ∪ endpoints
N2 = lambda a: z3.Or(S(a), z3.Exists([w], z3.Or(Dl(a, w), Dl(w, a), Ul(a, w), Ul(w, a))))
D2 = Dl
U2 = lambda a, b: z3.Or(Ul(a, b), Ul(b, a))
# spec post
post_nodes = z3.ForAll([u], N2(u) == N(u))
post_di = z3.ForAll([u, v], D2(u, v) == z3.And(D(u, v), z3.Not(S(v))))
post_bi = z3.ForAll([u, v], U2(u, v) == z3.And(U(u, v), z3.Not(S(u)), z3.Not(S(v))))
pre = z3.ForAll([u], z3.Implies(S(u), N(u)))
for name, post in [("nodes", post_nodes), ("di", post_di), ("bi", post_bi)]:
    s = z3.Solver(); s.set("timeout", 10000)
    s.add(wf, pre, z3.Not(post))
    t = time.time(); r = s.check(); dt = time.time() - t
    print(name, r, f"{dt*1000:.1f}ms")
    if r == z3.sat:
        m = s.model()
        print(m)
