import warnings; warnings.filterwarnings("ignore")
import itertools as itt, networkx as nx
from y0.dsl import Variable
from y0.graph import NxMixedGraph, set_latent
from y0.algorithm.simplify_latent import simplify_latent_dag
names = [Variable(n) for n in "ABCDE"]
def projection(dag, latents):
    obs = [n for n in dag.nodes if n not in latents]
    di = set(); bi = set()
    # directed: path through latents only
    for a in obs:
        stack = list(dag.successors(a)); seen = set()
        while stack:
            x = stack.pop()
            if x in seen: continue
            seen.add(x)
            if x in latents: stack.extend(dag.successors(x))
            else: di.add((a, x))
    # observed reachable from a latent through latents only
    def reach(l):
        out = set(); stack = list(dag.successors(l)); seen = set()
        while stack:
            x = stack.pop()
            if x in seen: continue
            seen.add(x)
            if x in latents: stack.extend(dag.successors(x))
            else: out.add(x)
        return out
    for l in latents:
        r = reach(l)
        for a, b in itt.combinations(sorted(r, key=str), 2): bi.add(frozenset((a, b)))
    return set(obs), di, bi
st = dict(total=0, crash=0, notidem=0, lostnode=0, wrongproj=0); shown = {k: 0 for k in st}
for n in (2, 3, 4, 5):
    vs = names[:n]; pairs = list(itt.combinations(range(n), 2))
    for dm in itt.product([0, 1], repeat=len(pairs)):
        edges = [(vs[i], vs[j]) for (i, j), m in zip(pairs, dm) if m]
        if n == 5 and sum(dm) > 6: continue
        for lm in itt.product([0, 1], repeat=n):
            lat = {v for v, m in zip(vs, lm) if m}
            if not lat: continue
            d = nx.DiGraph(); d.add_nodes_from(vs); d.add_edges_from(edges); set_latent(d, lat)
            st["total"] += 1
            obs, di, bi = projection(d, lat)
            try:
                r = simplify_latent_dag(d.copy()).graph
                r2 = simplify_latent_dag(r.copy()).graph
            except Exception as e:
                st["crash"] += 1
                if shown["crash"] < 4: shown["crash"] += 1; print("CRASH", type(e).__name__, str(e)[:80], edges, lat)
                continue
            if set(r.nodes) != set(r2.nodes) or set(r.edges) != set(r2.edges):
                st["notidem"] += 1
                if shown["notidem"] < 3: shown["notidem"] += 1; print("NOTIDEM", edges, lat, list(r.edges), list(r2.edges))
            robs = {x for x in r.nodes if not r.nodes[x]["hidden"]}
            if robs != obs:
                st["lostnode"] += 1
                if shown["lostnode"] < 3: shown["lostnode"] += 1; print("LOSTNODE", edges, lat, robs)
            m = NxMixedGraph.from_latent_variable_dag(r)
            if set(m.directed.edges()) != di or {frozenset(e) for e in m.undirected.edges()} != bi:
                st["wrongproj"] += 1
                if shown["wrongproj"] < 5: shown["wrongproj"] += 1; print("WRONGPROJ", edges, lat, "got", list(m.directed.edges()), list(m.undirected.edges()), "want", di, bi)
print(st)
