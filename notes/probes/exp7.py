import warnings; warnings.filterwarnings("ignore")
from y0.dsl import *
from y0.graph import NxMixedGraph
from y0.algorithm.identify import id_star
g = NxMixedGraph.from_edges(directed=[(W, Y)])
for ev in [{Y: -Y, W: +W}, {Y: -Y, W: -W}, {Y @ -X: -Y, W: +W}]:
    try: print(ev, "->", id_star(g if X in g.nodes() or True else g, ev))
    except Exception as e: print(ev, "exc", type(e).__name__, e)
g2 = NxMixedGraph.from_edges(directed=[(X, W), (W, Y)])
for ev in [{Y @ -X: -Y, W: +W}, {Y @ +X: +Y}, {Y @ +X: +Y, W @ -X: +W}]:
    try: print(ev, "->", id_star(g2, ev))
    except Exception as e: print(ev, "exc", type(e).__name__, e)
