import warnings; warnings.filterwarnings("ignore")
import itertools as itt, random
from fractions import Fraction as Fr
from y0.dsl import *
from y0.dsl import Fraction as YF
from y0.mutate import canonicalize
rng = random.Random(2)
VS = [A, B, C]
# random positive joint over A,B,C (binary)
w = {vals: Fr(rng.randint(1, 9)) for vals in itt.product(range(2), repeat=3)}
tot = sum(w.values()); JOINT = {k: v / tot for k, v in w.items()}
def pr(assign):
    return sum(p for vals, p in JOINT.items() if all(vals[VS.index(k)] == v for k, v in assign.items()))
def ev(e, env):
    if isinstance(e, Probability):
        ch = {c.get_base(): env[c.get_base()] for c in e.children}; pa = {c.get_base(): env[c.get_base()] for c in e.parents}
        return pr({**ch, **pa}) / (pr(pa) if pa else 1)
    if isinstance(e, Sum):
        rs = sorted(e.ranges, key=str)
        return sum(ev(e.expression, {**env, **dict(zip(rs, vals))}) for vals in itt.product(range(2), repeat=len(rs)))
    if isinstance(e, Product):
        r = Fr(1)
        for x in e.expressions: r *= ev(x, env)
        return r
    if isinstance(e, YF): return ev(e.numerator, env) / ev(e.denominator, env)
    if isinstance(e, One): return Fr(1)
    if isinstance(e, Zero): return Fr(0)
    raise TypeError
def fv(e):
    if isinstance(e, Probability): return {v.get_base() for v in (*e.children, *e.parents)}
    if isinstance(e, Sum): return fv(e.expression) - set(e.ranges)
    if isinstance(e, Product): return set().union(*[fv(x) for x in e.expressions])
    if isinstance(e, YF): return fv(e.numerator) | fv(e.denominator)
    return set()
def wellscoped(e):
    if isinstance(e, Sum): return set(e.ranges) <= fv(e.expression) and wellscoped(e.expression)
    if isinstance(e, Product): return all(wellscoped(x) for x in e.expressions)
    if isinstance(e, YF): return wellscoped(e.numerator) and wellscoped(e.denominator)
    return True
atoms = []
for k in (1, 2, 3):
    for ch in itt.combinations(VS, k):
        rest = [v for v in VS if v not in ch]
        for j in range(len(rest) + 1):
            for pa in itt.combinations(rest, j):
                atoms.append(P(*ch) if not pa else P(Distribution(children=tuple(ch), parents=tuple(pa))))
atoms += [One(), Zero()]
def gen(depth):
    if depth == 0: return rng.choice(atoms)
    k = rng.random()
    if k < 0.3: return rng.choice(atoms)
    if k < 0.55:
        xs = [gen(depth - 1) for _ in range(rng.randint(2, 3))]
        try: return Product(tuple(xs))
        except Exception: return xs[0]
    if k < 0.8:
        e = gen(depth - 1); f = sorted(fv(e), key=str)
        if not f: return e
        return Sum(e, frozenset(rng.sample(f, rng.randint(1, len(f)))))
    n, d = gen(depth - 1), gen(depth - 1)
    if isinstance(d, Zero): return n
    return YF(n, d)
