import warnings; warnings.filterwarnings("ignore")
from y0.dsl import *
from y0.graph import NxMixedGraph
from y0.algorithm.identify import idc_star, id_star
g = NxMixedGraph.from_edges(directed=[(X,Y),(Z,Y)], undirected=[(Z,Y)])
for out, cond in [({Y @ -X: -Y}, {Z: -Z}), ({Y @ -X: -Y}, {Z @ -X: -Z})]:
    try:
        r = idc_star(g, out, cond); print(out, cond, "->", r)
    except Exception as e:
        print("exc", type(e).__name__, e)
g2 = NxMixedGraph.from_edges(directed=[(X,W),(W,Y),(Z,Y)], undirected=[(Z,Y)])
try:
    r = idc_star(g2, {Y @ -X: -Y}, {Z: -Z}); print("g2 ->", r)
except Exception as e:
    print("exc", type(e).__name__, e)
print(id_star(g2, {Y @ -X: -Y, Z: -Z}))
e = Sum[W](P[X](Y, W, Z))
print("conditional:", e.conditional([Z]))
