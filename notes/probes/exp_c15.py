import warnings; warnings.filterwarnings("ignore")
import itertools as itt, random
from y0.dsl import Variable
from y0.graph import NxMixedGraph
from y0.algorithm.conditional_independencies import get_conditional_independencies, are_d_separated, minimal, _len_lex
names = [Variable(n) for n in "ABCD"]
rng = random.Random(1)
st = dict(graphs=0, missing=0, spurious=0, notmin=0, noncanon=0, dup=0, crash=0); shown = {k: 0 for k in st}
for n in (2, 3, 4):
    vs = names[:n]; pairs = list(itt.combinations(vs, 2))
    for dm in itt.product([0, 1], repeat=len(pairs)):
        D = [p for p, m in zip(pairs, dm) if m]
        for um in itt.product([0, 1], repeat=len(pairs)):
            if n == 4 and rng.random() > 0.15: continue
            U = [p for p, m in zip(pairs, um) if m]
            g = NxMixedGraph.from_edges(nodes=vs, directed=D, undirected=U)
            for k in (None, 0, 1, 2):
                st["graphs"] += 1
                try: res = get_conditional_independencies(g, max_conditions=k)
                except Exception as e:
                    st["crash"] += 1
                    if shown["crash"] < 3: shown["crash"] += 1; print("CRASH", type(e).__name__, e, D, U, k)
                    continue
                limit = n if k is None else k          # property reading: sizes <= k
                got = {}
                for j in res:
                    key = frozenset((j.left, j.right))
                    if key in got: st["dup"] += 1
                    got[key] = j
                    if not j.is_canonical: st["noncanon"] += 1
                for a, b in pairs:
                    rest = [v for v in vs if v not in (a, b)]
                    best = None
                    for r in range(0, min(limit, len(rest)) + 1):
                        if any(bool(are_d_separated(g, a, b, conditions=C)) for C in itt.combinations(rest, r)):
                            best = r; break
                    key = frozenset((a, b))
                    if best is None and key in got:
                        st["spurious"] += 1
                    if best is not None and key not in got:
                        st["missing"] += 1
                        if shown["missing"] < 3: shown["missing"] += 1; print("MISSING", D, U, a, b, "k=", k, "best size", best)
                    if best is not None and key in got and len(got[key].conditions) != best:
                        st["notmin"] += 1
print(st)
