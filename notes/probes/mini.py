"""Scratch prototype: AST -> VC for a few real graph.py functions. Not framework code; informs DESIGN.md."""
import ast, inspect, sys, time, textwrap, pathlib
import z3

SRC = pathlib.Path("/repo/src/y0/graph.py").read_text()
MOD = ast.parse(SRC)
FUNCS = {}
for n in MOD.body:
    if isinstance(n, ast.FunctionDef): FUNCS[n.name] = n
    if isinstance(n, ast.ClassDef) and n.name == "NxMixedGraph":
        for m in n.body:
            if isinstance(m, ast.FunctionDef): FUNCS["NxMixedGraph." + m.name] = m

Node = z3.DeclareSort("Node"); B = z3.BoolSort()
_fresh = [0]
def fresh(prefix, sort=Node):
    _fresh[0] += 1; return z3.Const(f"{prefix}!{_fresh[0]}", sort)

class VSet:
    def __init__(s, pred): s.pred = pred
    def has(s, x): return s.pred(x)
class VRel:           # collection of pairs (list or edge view); order/multiplicity abstracted
    def __init__(s, pred): s.pred = pred
    def has(s, a, b): return s.pred(a, b)
class VNx:            # networkx graph: directed flag, node set, edge relation
    def __init__(s, directed, N, E): s.directed, s.N, s.E = directed, N, E
class VGraph:
    def __init__(s, N, D, U): s.N, s.D, s.U = N, D, U   # U symmetric
class VNode:
    def __init__(s, t): s.t = t
class VBool:
    def __init__(s, t): s.t = t
class VTuple:
    def __init__(s, items): s.items = items
class VNone: pass
class VIsInterventionFlag: pass

is_intervention = z3.Function("is_intervention", Node, B)

class Obl:
    def __init__(s, name, hyps, goal): s.name, s.hyps, s.goal = name, hyps, goal

class Path:
    def __init__(s, env, pc): s.env, s.pc = env, pc

class Exec:
    def __init__(s, fname, contracts):
        s.fname = fname; s.obls = []; s.contracts = contracts; s.returns = []; s.raises = []
    # ---------- expressions
    def ev(s, e, P):
        if isinstance(e, ast.Name):
            return P.env[e.id]
        if isinstance(e, ast.Constant) and e.value is None: return VNone()
        if isinstance(e, ast.Attribute):
            base = s.ev(e.value, P)
            if isinstance(base, VGraph):
                if e.attr == "directed": return VNx(True, base.N, VRel(base.D))
                if e.attr == "undirected": return VNx(False, base.N, VRel(base.U))
            raise NotImplementedError(ast.dump(e))
        if isinstance(e, ast.Tuple): return VTuple([s.ev(x, P) for x in e.elts])
        if isinstance(e, ast.BoolOp):
            vals = [s.tobool(s.ev(x, P)) for x in e.values]
            return VBool(z3.And(*vals) if isinstance(e.op, ast.And) else z3.Or(*vals))
        if isinstance(e, ast.UnaryOp) and isinstance(e.op, ast.Not): return VBool(z3.Not(s.tobool(s.ev(e.operand, P))))
        if isinstance(e, ast.Compare) and len(e.ops) == 1:
            l, r = s.ev(e.left, P), s.ev(e.comparators[0], P)
            if isinstance(e.ops[0], ast.In):    return VBool(s.member(l, r))
            if isinstance(e.ops[0], ast.NotIn): return VBool(z3.Not(s.member(l, r)))
            raise NotImplementedError
        if isinstance(e, ast.BinOp) and isinstance(e.op, ast.Sub):
            l, r = s.toset(s.ev(e.left, P)), s.toset(s.ev(e.right, P))
            return VSet(lambda x, l=l, r=r: z3.And(l.has(x), z3.Not(r.has(x))))
        if isinstance(e, ast.ListComp) or isinstance(e, ast.SetComp) or isinstance(e, ast.GeneratorExp):
            return s.comp(e, P)
        if isinstance(e, ast.Call): return s.call(e, P)
        if isinstance(e, ast.IfExp):
            c = s.tobool(s.ev(e.test, P))
            if z3.is_true(c): return s.ev(e.body, P)
            if z3.is_false(c): return s.ev(e.orelse, P)
            a, b = s.toset(s.ev(e.body, P)), s.toset(s.ev(e.orelse, P))
            return VSet(lambda x: z3.If(c, a.has(x), b.has(x)))
        if isinstance(e, ast.Set):
            items = [s.ev(x, P) for x in e.elts]
            return VSet(lambda x: z3.Or(*[x == i.t for i in items]))
        raise NotImplementedError(ast.dump(e)[:200])
    def tobool(s, v):
        if isinstance(v, VBool): return v.t
        if isinstance(v, VSet):
            x = fresh("w"); return z3.Exists([x], v.has(x))
        raise NotImplementedError(type(v))
    def toset(s, v):
        if isinstance(v, VSet): return v
        if isinstance(v, VNode): return VSet(lambda x: x == v.t)
        raise NotImplementedError(type(v))
    def member(s, l, r):
        if isinstance(l, VNode) and isinstance(r, VSet): return r.has(l.t)
        if isinstance(l, VNode) and isinstance(r, VGraph): return r.N.has(l.t)
        raise NotImplementedError((type(l), type(r)))
    def comp(s, e, P):
        assert len(e.generators) == 1
        g = e.generators[0]
        src = s.ev(g.iter, P)
        if isinstance(src, VRel) and isinstance(g.target, ast.Tuple):
            un, vn = [t.id for t in g.target.elts]
            def conds(a, b):
                P2 = Path({**P.env, un: VNode(a), vn: VNode(b)}, P.pc)
                return z3.And(src.has(a, b), *[s.tobool(s.ev(c, P2)) for c in g.ifs])
            elt = e.elt
            if isinstance(elt, ast.Tuple) and [x.id for x in elt.elts] == [un, vn]:
                return VRel(conds)
            raise NotImplementedError("pair comprehension with non-identity element")
        if isinstance(src, VSet) and isinstance(g.target, ast.Name):
            vn = g.target.id
            def cond(a):
                P2 = Path({**P.env, vn: VNode(a)}, P.pc)
                return z3.And(src.has(a), *[s.tobool(s.ev(c, P2)) for c in g.ifs])
            if isinstance(e.elt, ast.Name) and e.elt.id == vn: return VSet(cond)
            # general image: {f(x) | ...}
            def img(y):
                a = fresh("x"); P2 = Path({**P.env, vn: VNode(a)}, P.pc)
                fx = s.ev(e.elt, P2)
                if isinstance(fx, VBool):  # any()/all() over booleans handled by caller
                    raise NotImplementedError
                return z3.Exists([a], z3.And(cond(a), y == fx.t))
            if isinstance(e, ast.GeneratorExp):  # maybe boolean generator for any/all
                a0 = fresh("x"); P2 = Path({**P.env, vn: VNode(a0)}, P.pc)
                probe = s.ev(e.elt, P2)
                if isinstance(probe, VBool):
                    return ("boolgen", lambda a: cond(a), lambda a: s.tobool(s.ev(e.elt, Path({**P.env, vn: VNode(a)}, P.pc))))
            return VSet(img)
        raise NotImplementedError((type(src), ast.dump(g.target)))
    def call(s, e, P):
        f = e.func
        # method calls
        if isinstance(f, ast.Attribute):
            recv = s.ev(f.value, P)
            if isinstance(recv, VNx) and f.attr == "edges" and not e.args: return recv.E   # orientation abstraction: see DESIGN
            if isinstance(recv, VNx) and f.attr == "predecessors":
                n = s.ev(e.args[0], P); return VSet(lambda x: recv.E.has(x, n.t))
            if isinstance(recv, VGraph) and f.attr == "nodes": return recv.N
            if isinstance(recv, VGraph) and f.attr in ("from_edges",):
                return s.call_contract("NxMixedGraph.from_edges", e, P, skip_self=True)
            if isinstance(recv, VGraph):
                return s.call_contract("NxMixedGraph." + f.attr, e, P, recv=recv)
            raise NotImplementedError(ast.dump(e)[:200])
        if isinstance(f, ast.Name):
            if f.id == "isinstance":
                v = s.ev(e.args[0], P); cls = e.args[1].id
                if cls == "Variable": return VBool(z3.BoolVal(isinstance(v, VNode)))
                if cls == "Intervention": return VBool(is_intervention(v.t))
            if f.id == "set":
                if not e.args: return VSet(lambda x: z3.BoolVal(False))
                return s.toset(s.ev(e.args[0], P))
            if f.id == "any":
                g = s.ev(e.args[0], P); assert g[0] == "boolgen"
                a = fresh("x"); return VBool(z3.Exists([a], z3.And(g[1](a), g[2](a))))
            if f.id in s.contracts: return s.call_contract(f.id, e, P)
            if f.id in FUNCS: return s.inline(f.id, e, P)
        raise NotImplementedError(ast.dump(e)[:200])
    def inline(s, name, e, P):
        fn = FUNCS[name]; params = [a.arg for a in fn.args.args]
        args = [s.ev(a, P) for a in e.args]
        sub = Exec(s.fname + ">" + name, s.contracts)
        sub.run_body(fn.body, Path(dict(zip(params, args)), list(P.pc)))
        s.obls += sub.obls
        for pc, exc in sub.raises: s.raises.append((pc, exc))
        assert len(sub.returns) >= 1
        if len(sub.returns) == 1: return sub.returns[0][1]
        # merge set-valued returns by ite
        def merged(x):
            t = z3.BoolVal(False)
            for pc, rv in sub.returns: t = z3.Or(t, z3.And(z3.And(*pc), s.toset(rv).has(x)))
            return t
        return VSet(merged)
    def call_contract(s, name, e, P, recv=None, skip_self=False):
        c = s.contracts[name]
        kwargs = {k.arg: s.ev(k.value, P) for k in e.keywords}
        args = [s.ev(a, P) for a in e.args]
        return c(s, P, recv, args, kwargs)
    # ---------- statements
    def run_body(s, body, P):
        for i, st in enumerate(body):
            if isinstance(st, ast.Expr) and isinstance(st.value, ast.Constant): continue   # docstring
            if isinstance(st, ast.Assign):
                v = s.ev(st.value, P); t = st.targets[0]
                P.env[t.id] = v
            elif isinstance(st, ast.AnnAssign):
                P.env[st.target.id] = s.ev(st.value, P)
            elif isinstance(st, ast.AugAssign) and isinstance(st.op, ast.BitOr):
                old = s.toset(P.env[st.target.id]); new = s.toset(s.ev(st.value, P))
                P.env[st.target.id] = VSet(lambda x, o=old, n=new: z3.Or(o.has(x), n.has(x)))
            elif isinstance(st, ast.Return):
                s.returns.append((list(P.pc), s.ev(st.value, P))); return
            elif isinstance(st, ast.Raise):
                s.raises.append((list(P.pc), st.exc.func.id if isinstance(st.exc, ast.Call) else "?")); return
            elif isinstance(st, ast.If):
                c = s.tobool(s.ev(st.test, P))
                P1 = Path(dict(P.env), P.pc + [c]); P2 = Path(dict(P.env), P.pc + [z3.Not(c)])
                s.run_body(st.body + body[i+1:], P1)
                s.run_body(st.orelse + body[i+1:], P2)
                return
            elif isinstance(st, ast.For):
                s.accumulate_loop(st, P)
            else:
                raise NotImplementedError(ast.dump(st)[:200])
    def accumulate_loop(s, st, P):
        """for x in C: acc |= g(x)  ==> acc = acc0 ∪ ⋃_{x∈C} g(x); emits inv.init/inv.step obligations against the template."""
        assert len(st.body) == 1 and isinstance(st.body[0], ast.AugAssign) and isinstance(st.body[0].op, ast.BitOr)
        accn = st.body[0].target.id; xn = st.target.id
        C = s.toset(s.ev(st.iter, P)); acc0 = s.toset(P.env[accn])
        def g(a):
            return s.toset(s.ev(st.body[0].value, Path({**P.env, xn: VNode(a)}, P.pc)))
        def inv(done):   # invariant as predicate on acc given ghost set done
            def acc(y):
                a = fresh("x"); return z3.Or(acc0.has(y), z3.Exists([a], z3.And(done(a), g(a).has(y))))
            return acc
        # inv.step: assume acc = inv(done), x in C\done; after body acc' = acc ∪ g(x) must equal inv(done ∪ {x})
        done = z3.Function(f"done!{_fresh[0]}", Node, B); xx = fresh("x"); y = fresh("y")
        pre_acc = inv(lambda a: done(a)); post_acc = lambda yy: z3.Or(pre_acc(yy), g(xx).has(yy))
        want = inv(lambda a: z3.Or(done(a), a == xx))
        s.obls.append(Obl("inv.step", P.pc + [C.has(xx), z3.Not(done(xx))], z3.ForAll([y], post_acc(y) == want(y))))
        y0 = fresh("y"); s.obls.append(Obl("inv.init", P.pc, z3.ForAll([y0], inv(lambda a: z3.BoolVal(False))(y0) == acc0.has(y0))))
        P.env[accn] = VSet(inv(lambda a: C.has(a)))

# ---------------- trusted / assumed callee contracts (modular use)
def c_from_edges(ex, P, recv, args, kw):
    nodes = kw.get("nodes"); d = kw["directed"]; u = kw["undirected"]
    nodes = ex.toset(nodes) if nodes is not None and not isinstance(nodes, VNone) else VSet(lambda x: z3.BoolVal(False))
    def N(x):
        w = fresh("w"); return z3.Or(nodes.has(x), z3.Exists([w], z3.Or(d.has(x, w), d.has(w, x), u.has(x, w), u.has(w, x))))
    return VGraph(VSet(N), lambda a, b: d.has(a, b), lambda a, b: z3.Or(u.has(a, b), u.has(b, a)))
def c_ensure_set(ex, P, recv, args, kw):   # used modularly: returns the set, raises TypeError on interventions (pre recorded)
    v = ex.toset(args[0]); x = fresh("x")
    ex.obls.append(Obl("pre@_ensure_set.no_interventions", P.pc, z3.ForAll([x], z3.Implies(v.has(x), z3.Not(is_intervention(x))))))
    return v
CONTRACTS = {"NxMixedGraph.from_edges": c_from_edges}

# ---------------- driver: specs from the property statement
def sym_graph():
    N = z3.Function("N", Node, B); D = z3.Function("D", Node, Node, B); U = z3.Function("U", Node, Node, B)
    u, v = z3.Consts("u v", Node)
    wf = [z3.ForAll([u, v], z3.Implies(D(u, v), z3.And(N(u), N(v)))), z3.ForAll([u, v], z3.Implies(U(u, v), z3.And(N(u), N(v)))), z3.ForAll([u, v], U(u, v) == U(v, u))]
    return VGraph(VSet(lambda x: N(x)), lambda a, b: D(a, b), lambda a, b: U(a, b)), wf
def prove(name, hyps, goal, timeout=10000):
    sv = z3.Solver(); sv.set("timeout", timeout); sv.add(*hyps); sv.add(z3.Not(goal))
    t = time.time(); r = sv.check(); dt = (time.time() - t) * 1000
    print(f"  {name:45s} {'discharged' if r == z3.unsat else ('REFUTED' if r == z3.sat else 'undecided'):10s} {dt:7.1f} ms")
    return r
def run(fname, spec):
    G, wf = sym_graph(); S = z3.Function("S", Node, B); Sv = VSet(lambda x: S(x))
    x = z3.Const("x0", Node); noiv = z3.ForAll([x], z3.Implies(S(x), z3.Not(is_intervention(x))))
    ex = Exec(fname, CONTRACTS)
    fn = FUNCS[fname]
    argname = [a.arg for a in fn.args.args][1]
    ex.run_body(fn.body, Path({"self": G, argname: Sv}, []))
    print(f"{fname}: {len(ex.returns)} return path(s), {len(ex.raises)} raise path(s), {len(ex.obls)} side obligations")
    for o in ex.obls: prove(o.name, wf + [noiv] + o.hyps, o.goal)
    for pc, exc in ex.raises:
        prove(f"raise.{exc} unreachable", wf + [noiv], z3.Not(z3.And(*pc)))
    for pc, rv in ex.returns:
        for cname, goal in spec(G, Sv, rv):
            prove("post." + cname, wf + [noiv] + pc, goal)
u, v = z3.Consts("u1 v1", Node)
def eqset(a, b): return z3.ForAll([u], a(u) == b(u))
def eqrel(a, b): return z3.ForAll([u, v], a(u, v) == b(u, v))
spec_remove_in = lambda G, S, R: [("nodes", eqset(R.N.has, G.N.has)), ("di", eqrel(R.D, lambda a, b: z3.And(G.D(a, b), z3.Not(S.has(b))))), ("bi", eqrel(R.U, lambda a, b: z3.And(G.U(a, b), z3.Not(S.has(a)), z3.Not(S.has(b)))))]
spec_remove_out = lambda G, S, R: [("nodes", eqset(R.N.has, G.N.has)), ("di", eqrel(R.D, lambda a, b: z3.And(G.D(a, b), z3.Not(S.has(a))))), ("bi", eqrel(R.U, G.U))]
spec_remove_nodes = lambda G, S, R: [("nodes", eqset(R.N.has, lambda a: z3.And(G.N.has(a), z3.Not(S.has(a))))), ("di", eqrel(R.D, lambda a, b: z3.And(G.D(a, b), z3.Not(S.has(a)), z3.Not(S.has(b))))), ("bi", eqrel(R.U, lambda a, b: z3.And(G.U(a, b), z3.Not(S.has(a)), z3.Not(S.has(b)))))]
spec_subgraph = lambda G, S, R: [("nodes", eqset(R.N.has, S.has)), ("di", eqrel(R.D, lambda a, b: z3.And(G.D(a, b), S.has(a), S.has(b)))), ("bi", eqrel(R.U, lambda a, b: z3.And(G.U(a, b), S.has(a), S.has(b))))]
spec_pillow = lambda G, S, R: [("pillow", eqset(R.has, lambda a: z3.And(z3.Not(S.has(a)), z3.Exists([v], z3.And(S.has(v), G.D(a, v))))))]
run("NxMixedGraph.remove_in_edges", spec_remove_in)
run("NxMixedGraph.remove_out_edges", spec_remove_out)
run("NxMixedGraph.remove_nodes_from", spec_remove_nodes)
run("NxMixedGraph.subgraph", spec_subgraph)
run("NxMixedGraph.get_markov_pillow", spec_pillow)
