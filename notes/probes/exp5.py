import itertools as itt, networkx as nx
names = list("ABCD")
def closure_classes(nodes, U):
    g = nx.Graph(); g.add_nodes_from(nodes); g.add_edges_from(U); return {n: frozenset(c) for c in nx.connected_components(g) for n in c}
def spec_sep(nodes, D, U, a, b, C):
    dg = nx.DiGraph(); dg.add_nodes_from(nodes); dg.add_edges_from(D)
    A = set()
    for s in {a, b} | C: A |= nx.ancestors(dg, s) | {s}
    UA = [(u, v) for u, v in U if u in A and v in A]
    cls = closure_classes(A, UA)
    DA = {(u, v) for u, v in D if u in A and v in A}
    touch = lambda u, c: u == c or (u, c) in DA
    H = nx.Graph(); H.add_nodes_from(A - C)
    for u, v in itt.combinations(sorted(A - C), 2):
        if any(touch(u, c) and cls[c] == cls[d] and touch(v, d) for c in A for d in A):
            H.add_edge(u, v)
    return not nx.has_path(H, a, b)
def true_sep(nodes, D, U, a, b, C):
    dg = nx.DiGraph(); dg.add_nodes_from(nodes); dg.add_edges_from(D)
    for i, (u, v) in enumerate(U):
        dg.add_edge(("L", i), u); dg.add_edge(("L", i), v)
    return nx.is_d_separator(dg, {a}, {b}, set(C))
tot = bad = 0
for n in (2, 3, 4):
    vs = names[:n]; pairs = list(itt.combinations(vs, 2))
    for dm in itt.product([0, 1], repeat=len(pairs)):
        D = [p for p, m in zip(pairs, dm) if m]
        for um in itt.product([0, 1], repeat=len(pairs)):
            U = [p for p, m in zip(pairs, um) if m]
            for a, b in itt.combinations(vs, 2):
                rest = [v for v in vs if v not in (a, b)]
                for k in range(len(rest) + 1):
                    for C in itt.combinations(rest, k):
                        tot += 1
                        if spec_sep(vs, D, U, a, b, set(C)) != true_sep(vs, D, U, a, b, set(C)):
                            bad += 1
                            if bad < 5: print("MISMATCH", D, U, a, b, C)
print("checked", tot, "mismatches", bad)
