import warnings; warnings.filterwarnings("ignore")
import itertools as itt
from y0.dsl import Variable
from y0.graph import NxMixedGraph
from y0.algorithm.separation.sigma_separation import are_sigma_separated
from y0.algorithm.conditional_independencies import are_d_separated
import networkx as nx
names = [Variable(n) for n in "ABCD"]
st = dict(total=0, asym=0, adj=0, crash=0, dis_acyclic=0, acyclic=0); shown = {k: 0 for k in st}
def true_sep(vs, D, U, a, b, C):
    dg = nx.DiGraph(); dg.add_nodes_from(vs); dg.add_edges_from(D)
    for i, (u, v) in enumerate(U): dg.add_edge(("L", i), u); dg.add_edge(("L", i), v)
    return nx.is_d_separator(dg, {a}, {b}, set(C))
for n in (2, 3, 4):
    vs = names[:n]; opairs = [(i, j) for i in range(n) for j in range(n) if i != j]; upairs = list(itt.combinations(range(n), 2))
    for dm in itt.product([0, 1], repeat=len(opairs)):
        if n == 4 and sum(dm) > 4: continue
        D = [(vs[i], vs[j]) for (i, j), m in zip(opairs, dm) if m]
        for um in itt.product([0, 1], repeat=len(upairs)):
            if n == 4 and sum(um) > 2: continue
            U = [(vs[i], vs[j]) for (i, j), m in zip(upairs, um) if m]
            g = NxMixedGraph.from_edges(nodes=vs, directed=D, undirected=U)
            acyc = nx.is_directed_acyclic_graph(g.directed)
            for a, b in itt.combinations(vs, 2):
                rest = [v for v in vs if v not in (a, b)]
                for k in range(len(rest) + 1):
                    for C in itt.combinations(rest, k):
                        st["total"] += 1
                        try:
                            s1 = are_sigma_separated(g, a, b, conditions=C); s2 = are_sigma_separated(g, b, a, conditions=C)
                        except Exception as e:
                            st["crash"] += 1
                            if shown["crash"] < 3: shown["crash"] += 1; print("CRASH", type(e).__name__, e, D, U, a, b, C)
                            continue
                        if s1 != s2:
                            st["asym"] += 1
                            if shown["asym"] < 3: shown["asym"] += 1; print("ASYM", D, U, a, b, C, s1, s2)
                        adjacent = (a, b) in D or (b, a) in D or (a, b) in U or (b, a) in U
                        if adjacent and s1:
                            st["adj"] += 1
                            if shown["adj"] < 3: shown["adj"] += 1; print("ADJ-SEPARATED", D, U, a, b, C)
                        if acyc:
                            st["acyclic"] += 1
                            if s1 != true_sep(vs, D, U, a, b, C):
                                st["dis_acyclic"] += 1
                                if shown["dis_acyclic"] < 4: shown["dis_acyclic"] += 1; print("DISAGREE", D, U, a, b, C, "sigma", s1)
print(st)
