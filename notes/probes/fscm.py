"""Scratch: functional SCM oracle for counterfactual events (binary observed vars; explicit exogenous noise shared across worlds)."""
import itertools as itt, random, warnings
from fractions import Fraction as Fr
warnings.filterwarnings("ignore")
from y0.dsl import *
from y0.graph import NxMixedGraph
import networkx as nx

def random_fscm(graph, rng, ku=3):
    nodes = list(nx.topological_sort(graph.directed))
    exo = {}                                   # name -> (card, probs)
    for v in nodes: exo[("u", v)] = ku
    for e in graph.undirected.edges(): exo[("l", frozenset(e))] = 2
    probs = {}
    for k, card in exo.items():
        w = [rng.randint(1, 5) for _ in range(card)]; tot = sum(w); probs[k] = [Fr(x, tot) for x in w]
    funcs = {}
    for v in nodes:
        pa = sorted(graph.directed.predecessors(v), key=str)
        ls = sorted([k for k in exo if k[0] == "l" and v in k[1]], key=str)
        ins = [range(2)] * len(pa) + [range(exo[("u", v)])] + [range(2)] * len(ls)
        table = {key: rng.randint(0, 1) for key in itt.product(*ins)}
        funcs[v] = (pa, ls, table)
    return nodes, exo, probs, funcs

def solve(scm, u, do):
    nodes, exo, probs, funcs = scm
    val = {}
    for v in nodes:
        if v in do: val[v] = do[v]; continue
        pa, ls, table = funcs[v]
        val[v] = table[tuple(val[p] for p in pa) + (u[("u", v)],) + tuple(u[l] for l in ls)]
    return val

def sval(iv): return 1 if iv.star else 0

def event_prob(scm, event):
    """event: dict Variable/CounterfactualVariable -> Intervention (value)."""
    nodes, exo, probs, funcs = scm
    keys = list(exo)
    total = Fr(0)
    for us in itt.product(*[range(exo[k]) for k in keys]):
        u = dict(zip(keys, us)); p = Fr(1)
        for k in keys: p *= probs[k][u[k]]
        ok = True; cache = {}
        for var, value in event.items():
            do = {}
            if isinstance(var, CounterfactualVariable):
                do = {i.get_base(): sval(i) for i in var.interventions}
            key = tuple(sorted((str(a), b) for a, b in do.items()))
            if key not in cache: cache[key] = solve(scm, u, do)
            if cache[key][var.get_base()] != sval(value): ok = False; break
        if ok: total += p
    return total
