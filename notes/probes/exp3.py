import warnings; warnings.filterwarnings("ignore")
from y0.dsl import *
from y0.graph import NxMixedGraph
from y0.algorithm.separation.sigma_separation import are_sigma_separated
from y0.algorithm.conditional_independencies import are_d_separated
M,D_,E_=Variable("M"),Variable("D"),Variable("E")
g = NxMixedGraph.from_edges(directed=[(X,M),(Y,M),(M,D_),(D_,E_)])
print("sigma X,Y|E:", are_sigma_separated(g,X,Y,conditions={E_}), " dsep:", bool(are_d_separated(g,X,Y,conditions={E_})))
print("sigma X,Y|D:", are_sigma_separated(g,X,Y,conditions={D_}), " dsep:", bool(are_d_separated(g,X,Y,conditions={D_})))
print("sym:", are_sigma_separated(g,Y,X,conditions={E_}))
# C16 simplify: nested latents
import networkx as nx
from y0.algorithm.simplify_latent import simplify_latent_dag, evans_simplify
from y0.graph import set_latent
d = nx.DiGraph(); A_,B_,C_,U1_,U2_=map(Variable,["A","B","C","U1","U2"])
d.add_edges_from([(A_,U1_),(U1_,U2_),(U2_,B_),(U2_,C_)])
set_latent(d,[U1_,U2_])
try:
    r = simplify_latent_dag(d.copy())
    print("simplified:", list(r.graph.edges()), dict(r.graph.nodes(data=True)))
    print("admg:", NxMixedGraph.from_latent_variable_dag(r.graph).directed.edges(), NxMixedGraph.from_latent_variable_dag(r.graph).undirected.edges())
except Exception as e:
    print("simplify crash", type(e).__name__, e)
