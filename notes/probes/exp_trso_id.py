import warnings; warnings.filterwarnings("ignore")
import itertools as itt, random
from y0.dsl import *
from y0.graph import NxMixedGraph
from y0.algorithm.identify import identify_outcomes
from y0.algorithm.transport import identify_target_outcomes
names = [Variable(n) for n in "ABCD"]
st = dict(total=0, both_crash=0, one_crash=0, disagree=0, agree_ident=0, agree_none=0); shown = {k: 0 for k in st}
rng = random.Random(5)
for n in (2, 3, 4):
    vs = names[:n]; pairs = list(itt.combinations(range(n), 2))
    for dm in itt.product([0, 1], repeat=len(pairs)):
        for bm in itt.product([0, 1], repeat=len(pairs)):
            if n == 4 and rng.random() > 0.1: continue
            g = NxMixedGraph.from_edges(nodes=vs, directed=[(vs[i], vs[j]) for (i, j), m in zip(pairs, dm) if m], undirected=[(vs[i], vs[j]) for (i, j), m in zip(pairs, bm) if m])
            for xs in itt.chain.from_iterable(itt.combinations(vs, k) for k in range(1, n)):
                rest = [v for v in vs if v not in xs]
                for ys in itt.chain.from_iterable(itt.combinations(rest, k) for k in range(1, len(rest) + 1)):
                    st["total"] += 1
                    a = b = "crash"
                    try: a = identify_outcomes(g, set(xs), set(ys))
                    except Exception as e: ea = e
                    try: b = identify_target_outcomes(g, target_outcomes=set(ys), target_interventions=set(xs), surrogate_outcomes={}, surrogate_interventions={})
                    except Exception as e: eb = e
                    if a == "crash" and b == "crash": st["both_crash"] += 1; continue
                    if a == "crash" or b == "crash":
                        st["one_crash"] += 1
                        if shown["one_crash"] < 4: shown["one_crash"] += 1; print("ONE-CRASH", "ID" if a == "crash" else "TRSO", list(g.directed.edges()), list(g.undirected.edges()), xs, ys)
                        continue
                    if (a is None) != (b is None):
                        st["disagree"] += 1
                        if shown["disagree"] < 4: shown["disagree"] += 1; print("DISAGREE", list(g.directed.edges()), list(g.undirected.edges()), xs, ys, a, b)
                    elif a is None: st["agree_none"] += 1
                    else: st["agree_ident"] += 1
print(st)
