import sys, random, itertools as itt
sys.path.insert(0, "/tmp/scratch")
from fscm import *
from y0.algorithm.identify.cg import make_counterfactual_graph
rng = random.Random(7)
names = [Variable(n) for n in "XYZ"]
def graphs(n):
    vs = names[:n]; pairs = list(itt.combinations(range(n), 2))
    for dm in itt.product([0, 1], repeat=len(pairs)):
        for bm in itt.product([0, 1], repeat=len(pairs)):
            yield NxMixedGraph.from_edges(nodes=vs, directed=[(vs[i], vs[j]) for (i, j), m in zip(pairs, dm) if m],
                                          undirected=[(vs[i], vs[j]) for (i, j), m in zip(pairs, bm) if m])
def cf_vars(vs):
    out = list(vs)
    for v in vs:
        others = [w for w in vs]   # allow reflexive subscripts too
        for k in (1, 2):
            for sub in itt.combinations(others, k):
                for stars in itt.product([False, True], repeat=k):
                    out.append(CounterfactualVariable(name=v.name, star=None, interventions=frozenset(Intervention(name=w.name, star=s) for w, s in zip(sub, stars))))
    return out
stats = dict(total=0, crash=0, struct=0, prob=0, incons_wrong=0)
shown = {k: 0 for k in stats}
for n in (2, 3):
    for g in graphs(n):
        vs = list(g.nodes()); cands = cf_vars(vs)
        evs = []
        for k in (1, 2, 3):
            for _ in range(6 if n == 3 else 12):
                ks = rng.sample(cands, k)
                evs.append({v: Intervention(name=v.name, star=rng.random() < 0.5) for v in ks})
        for ev in evs:
            stats["total"] += 1
            try:
                cg, new_ev = make_counterfactual_graph(g, dict(ev))
            except Exception as e:
                stats["crash"] += 1
                if shown["crash"] < 4: shown["crash"] += 1; print("CRASH", type(e).__name__, str(e)[:70], list(g.directed.edges()), list(g.undirected.edges()), ev)
                continue
            scm = random_fscm(g, rng)
            p0 = event_prob(scm, ev)
            if new_ev is None:
                if p0 != 0:
                    stats["incons_wrong"] += 1
                    if shown["incons_wrong"] < 4: shown["incons_wrong"] += 1; print("INCONSISTENT-BUT-POSSIBLE p=", p0, list(g.directed.edges()), list(g.undirected.edges()), ev)
                continue
            # structural
            import networkx as nx
            okS = nx.is_directed_acyclic_graph(cg.directed) and all(k in cg.nodes() for k in new_ev) and set(cg.nodes()) == cg.ancestors_inclusive(set(new_ev))
            if not okS:
                stats["struct"] += 1
                if shown["struct"] < 4: shown["struct"] += 1; print("STRUCT", list(g.directed.edges()), list(g.undirected.edges()), ev, new_ev, list(cg.nodes()))
            p1 = event_prob(scm, new_ev)
            if p0 != p1:
                stats["prob"] += 1
                if shown["prob"] < 6: shown["prob"] += 1; print("PROB", p0, p1, list(g.directed.edges()), list(g.undirected.edges()), ev, "->", new_ev)
print(stats)
