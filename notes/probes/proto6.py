"""R4: discharge a printer-template obligation with CPython's parser on class representatives."""
import ast, itertools
REPS = {  # class -> list of representative source texts over fresh names (prefix filled per hole)
    "ATOM":   ["{p}a", "{p}f({p}a)", "{p}f[{p}a]({p}b)", "({p}a * {p}b)"],
    "UNARY":  ["+{p}a", "-{p}a"],
    "MULDIV": ["{p}a * {p}b", "{p}a / {p}b", "{p}a @ {p}b", "+{p}a @ -{p}b"],
    "BITOR":  ["{p}a | {p}b", "{p}a @ {p}b | {p}c"],
}
CLOSED = {"ATOM": ["ATOM"], "UNARY": ["ATOM", "UNARY"], "MULDIV": ["ATOM", "UNARY", "MULDIV"], "BITOR": ["ATOM", "UNARY", "MULDIV", "BITOR"]}
def intact(tree, rep_src):
    want = ast.dump(ast.parse(rep_src, mode="eval").body)
    return any(ast.dump(n) == want for n in ast.walk(tree))
def check(template, holes):
    """template with {h} holes; holes: name -> promised class (upward closed: class MULDIV admits ATOM/UNARY/MULDIV texts)."""
    names = list(holes)
    ok = True; bad = None
    for combo in itertools.product(*[[(c, r) for c in CLOSED[holes[h]] for r in REPS[c]] for h in names]):
        fill = {h: r.format(p=h + "_") for h, (c, r) in zip(names, combo)}
        src = template.format(**fill)
        tree = ast.parse(src, mode="eval")
        for h in names:
            if not intact(tree, fill[h]):
                ok = False; bad = (src, h, fill[h]); break
        if not ok: break
    return ok, bad
print("Fraction.to_y0  num:MULDIV den:MULDIV ", check("(({n} / {d}))", {"n": "MULDIV", "d": "MULDIV"}))
print("Fraction.to_y0  num:MULDIV den:ATOM   ", check("(({n} / {d}))", {"n": "MULDIV", "d": "ATOM"}))
print("Product join    factors:ATOM          ", check("{x} * {y}", {"x": "ATOM", "y": "ATOM"}))
print("Product join    factors:MULDIV (nested product)", check("{x} * {y}", {"x": "ATOM", "y": "MULDIV"}))
print("Sum             body:MULDIV           ", check("Sum[R]({e})", {"e": "MULDIV"}))
print("Dist            child | parent        ", check("P({c} | {p})", {"c": "MULDIV", "p": "MULDIV"}))
