import sys, random, itertools as itt
sys.path.insert(0, "/tmp/scratch")
from oracle import *
from y0.algorithm.tian_id import identify_district_variables, compute_c_factor
rng = random.Random(3)
names = [Variable(n) for n in "ABCD"]
def graphs(n):
    vs = names[:n]; pairs = list(itt.combinations(range(n), 2))
    for dm in itt.product([0, 1], repeat=len(pairs)):
        for bm in itt.product([0, 1], repeat=len(pairs)):
            yield NxMixedGraph.from_edges(nodes=vs, directed=[(vs[i], vs[j]) for (i, j), m in zip(pairs, dm) if m],
                                          undirected=[(vs[i], vs[j]) for (i, j), m in zip(pairs, bm) if m])
st = dict(total=0, none=0, crash=0, wrong=0, checked=0); shown = dict(crash=0, wrong=0)
for n in (2, 3, 4):
    for g in graphs(n):
        vs = list(g.nodes()); topo = list(g.topological_sort())
        for T in g.districts():
            if len(T) < 2: continue
            try:
                qT = compute_c_factor(district=T, subgraph_variables=set(vs), subgraph_probability=P(vs), graph_topo=topo)
            except Exception as e:
                st["crash"] += 1; continue
            for k in range(1, len(T)):
                for C in itt.combinations(sorted(T, key=str), k):
                    if len(g.subgraph(C).districts()) != 1: continue
                    st["total"] += 1
                    if n == 4 and rng.random() > 0.2: continue
                    try:
                        r = identify_district_variables(input_variables=frozenset(C), input_district=frozenset(T), district_probability=qT, graph=g, topo=topo)
                    except Exception as e:
                        st["crash"] += 1
                        if shown["crash"] < 4: shown["crash"] += 1; print("CRASH", type(e).__name__, str(e)[:80], list(g.directed.edges()), list(g.undirected.edges()), T, C)
                        continue
                    if r is None: st["none"] += 1; continue
                    st["checked"] += 1
                    scm = random_scm(g, rng); jt = joint(scm)
                    others = [v for v in vs if v not in C]
                    ok = True
                    for ov in itt.product(range(2), repeat=len(others)):
                        jd = joint(scm, dict(zip(others, ov)))
                        for cv in itt.product(range(2), repeat=len(C)):
                            truth = prob(jd, dict(zip(C, cv)))
                            env = {**dict(zip(others, ov)), **dict(zip(C, cv))}
                            try: val = evaluate(r, jt, env)
                            except ZeroDivisionError: continue
                            if val != truth: ok = False
                    if not ok:
                        st["wrong"] += 1
                        if shown["wrong"] < 5: shown["wrong"] += 1; print("WRONG", list(g.directed.edges()), list(g.undirected.edges()), "T", set(T), "C", C, "->", r)
print(st)
