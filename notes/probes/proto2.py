"""Finite-scope exact counterexample search for are_d_separated contract: Node = enum of size K, closures by unrolling."""
import z3, time, itertools as itt
K = 3
Node, ns = z3.EnumSort("Node", [f"n{i}" for i in range(K)])
B = z3.BoolSort()
D = z3.Function("D", Node, Node, B); U = z3.Function("U", Node, Node, B)
C = z3.Function("C", Node, B)
a, b = z3.Consts("a b", Node)
def Or(xs): xs=list(xs); return z3.Or(*xs) if xs else z3.BoolVal(False)
def And(xs): xs=list(xs); return z3.And(*xs) if xs else z3.BoolVal(True)
def rtc(E, dom=None):
    """exact reflexive transitive closure over enum: returns python function (x,y)->term via Floyd-Warshall style unrolling"""
    R = {(x, y): (z3.BoolVal(True) if x is y else E(x, y)) for x in ns for y in ns}
    for k in ns:
        R = {(x, y): z3.Or(R[x, y], z3.And(R[x, k], R[k, y])) for x in ns for y in ns}
    return R
def lift(Rtab, x, y):
    """apply table relation to symbolic x, y"""
    return Or(z3.And(x == p, y == q, Rtab[p, q]) for p in ns for q in ns)
s = z3.Solver()
# well-formed ADMG: U symmetric irreflexive, D acyclic
s.add(And(U(x, y) == U(y, x) for x in ns for y in ns), And(z3.Not(U(x, x)) for x in ns))
Dplus = rtc(lambda x, y: D(x, y))
s.add(And(z3.Not(z3.And(D(x, y), Dplus[y, x])) for x in ns for y in ns))  # acyclic
s.add(a != b, z3.Not(C(a)), z3.Not(C(b)))
# code: keep = An({a,b} ∪ C); H = di ∪ bi ∪ moral(di) on keep; remove C; path a-b
named = lambda x: z3.Or(x == a, x == b, C(x))
keep = {x: Or(z3.And(named(y), Dplus[x, y]) for y in ns) for x in ns}
Hcode = lambda x, y: z3.And(keep[x], keep[y], z3.Not(C(x)), z3.Not(C(y)),
        z3.Or(D(x, y), D(y, x), U(x, y), Or(z3.And(keep[c], D(x, c), D(y, c)) for c in ns)))
# spec: augmented graph: touches(u,c) = D(u,c) or u==c ; biconn within keep
Uk = lambda x, y: z3.And(U(x, y), keep[x], keep[y])
Bi = rtc(Uk)
touch = lambda u, c: z3.Or(D(u, c), u is c) if True else None
def touch(u, c): return z3.BoolVal(True) if u is c else D(u, c)
Hspec = lambda x, y: z3.And(keep[x], keep[y], z3.Not(C(x)), z3.Not(C(y)), x is not y and z3.BoolVal(True) or z3.BoolVal(False),
        Or(z3.And(keep[c], keep[d], touch(x, c), Bi[c, d], touch(y, d)) for c in ns for d in ns))
Rcode = rtc(Hcode); Rspec = rtc(Hspec)
sep_code = z3.Not(lift(Rcode, a, b)); sep_spec = z3.Not(lift(Rspec, a, b))
s.add(sep_code != sep_spec)
t = time.time(); r = s.check(); print(r, f"{time.time()-t:.2f}s")
if r == z3.sat:
    m = s.model()
    print("a", m[a], "b", m[b], "C", [str(x) for x in ns if z3.is_true(m.eval(C(x)))])
    print("D", [(str(x), str(y)) for x in ns for y in ns if z3.is_true(m.eval(D(x, y)))])
    print("U", [(str(x), str(y)) for x in ns for y in ns if x is not y and z3.is_true(m.eval(U(x, y)))])
    print("code says separated:", m.eval(sep_code), " spec:", m.eval(sep_spec))
