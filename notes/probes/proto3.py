import z3, time
a,n,d,m,k = z3.Reals("a n d m k")
def chk(name, hyp, goal):
    s = z3.Solver(); s.set("timeout", 10000); s.add(hyp, z3.Not(goal)); t=time.time(); r=s.check(); print(name, r, f"{(time.time()-t)*1000:.1f}ms", s.model() if r==z3.sat else "")
# Expression.__truediv__(Fraction): (a*d)/n == a/(n/d)
chk("truediv-frac", z3.And(n!=0,d!=0), (a*d)/n == a/(n/d))
# Fraction.__truediv__(Fraction): (n*k)/(d*m) == (n/d)/(m/k)
chk("frac/frac", z3.And(d!=0,m!=0,k!=0), (n*k)/(d*m) == (n/d)/(m/k))
# Fraction.__mul__(Fraction)
chk("frac*frac", z3.And(d!=0,k!=0), (n*m)/(d*k) == (n/d)*(m/k))
# simplify One numerator with fraction denominator: 1/(n/d) == d/n
chk("flip", z3.And(d!=0,n!=0), 1/(n/d) == d/n)
# without hypothesis (should be sat / unknown)
chk("truediv-frac-nohyp", z3.BoolVal(True), (a*d)/n == a/(n/d))
# mutated: flipped compound fraction
chk("mutant", z3.And(n!=0,d!=0,a!=0), (a*n)/d == a/(n/d))
