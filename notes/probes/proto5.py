"""R3: ID line-6 refinement VC in the Dst algebra, with and without the invariant."""
import z3, time
Node = z3.DeclareSort("Node"); Dst = z3.DeclareSort("Dst")
NSet = z3.SetSort(Node)
marg = z3.Function("marg", Dst, NSet, Dst); div = z3.Function("div", Dst, Dst, Dst)
obs, Dcur = z3.Consts("obs Dcur", Dst)
V0, N, Bs, S1, S2 = z3.Consts("V0 N B S1 S2", NSet)
X = z3.Const("X", Dst); v = z3.Const("v", Node)
ax = [z3.ForAll([X, S1, S2], marg(marg(X, S1), S2) == marg(X, z3.SetUnion(S1, S2))),
      z3.ForAll([X], marg(X, z3.EmptySet(Node)) == X)]
sing = lambda a: z3.SetAdd(z3.EmptySet(Node), a)
vB = z3.SetUnion(sing(v), Bs)
condObs = div(marg(obs, z3.SetDifference(V0, vB)), marg(obs, z3.SetDifference(V0, Bs)))
condD = div(marg(Dcur, z3.SetDifference(N, vB)), marg(Dcur, z3.SetDifference(N, Bs)))
hyp = [z3.IsSubset(N, V0), z3.IsSubset(vB, N)]
inv = Dcur == marg(obs, z3.SetDifference(V0, N))
for name, extra in [("with-inv", [inv]), ("without-inv", [])]:
    s = z3.Solver(); s.set("timeout", 20000); s.add(*ax, *hyp, *extra, condObs != condD)
    t = time.time(); r = s.check(); print(name, r, f"{time.time()-t:.2f}s")
