"""Scratch: exact SCM oracle for ADMGs + evaluator of y0 expressions (observational only)."""
import itertools as itt, random, warnings
from fractions import Fraction as Fr
warnings.filterwarnings("ignore")
from y0.dsl import *
from y0.dsl import Fraction as YFraction
from y0.graph import NxMixedGraph
import networkx as nx

def random_scm(graph, rng, card=2):
    """Latent per bidirected edge (binary). Each observed var: random CPT over parents+latents."""
    nodes = list(nx.topological_sort(graph.directed))
    lat = {frozenset(e): i for i, e in enumerate(graph.undirected.edges())}
    lat_p = {k: Fr(rng.randint(1, 9), 10) for k in lat}
    cpts = {}
    for v in nodes:
        pa = sorted(graph.directed.predecessors(v), key=str)
        ls = sorted([k for k in lat if v in k], key=lambda k: lat[k])
        table = {}
        for pv in itt.product(range(card), repeat=len(pa)):
            for lv in itt.product(range(2), repeat=len(ls)):
                p1 = Fr(rng.randint(1, 9), 10)
                table[pv, lv] = [p1, 1 - p1]
        cpts[v] = (pa, ls, table)
    return nodes, lat, lat_p, cpts

def joint(scm, do=None):
    """Return dict assignment(tuple over nodes)->prob under do (dict node->val)."""
    nodes, lat, lat_p, cpts = scm
    do = do or {}
    out = {}
    lks = list(lat)
    for lv in itt.product(range(2), repeat=len(lks)):
        lp = Fr(1)
        lval = dict(zip(lks, lv))
        for k in lks:
            lp *= lat_p[k] if lval[k] == 1 else 1 - lat_p[k]
        for vals in itt.product(range(2), repeat=len(nodes)):
            a = dict(zip(nodes, vals))
            p = lp
            ok = True
            for v in nodes:
                if v in do:
                    if a[v] != do[v]:
                        ok = False; break
                    continue
                pa, ls, table = cpts[v]
                p *= table[tuple(a[q] for q in pa), tuple(lval[k] for k in ls)][a[v]]
            if ok and p:
                out[vals] = out.get(vals, 0) + p
    return nodes, out

def prob(jt, assign):
    nodes, table = jt
    idx = {n: i for i, n in enumerate(nodes)}
    return sum(p for vals, p in table.items() if all(vals[idx[k]] == v for k, v in assign.items()))

def evaluate(expr, jt, env):
    """Evaluate observational expression under env: base Variable -> value."""
    if isinstance(expr, Probability):
        ch = {c.get_base(): env[c.get_base()] for c in expr.children}
        pa = {c.get_base(): env[c.get_base()] for c in expr.parents}
        assert not any(isinstance(c, CounterfactualVariable) for c in (*expr.children, *expr.parents))
        num = prob(jt, {**ch, **pa})
        if not pa:
            return num
        den = prob(jt, pa)
        return num / den
    if isinstance(expr, Sum):
        rs = sorted(expr.ranges, key=str)
        tot = Fr(0)
        for vals in itt.product(range(2), repeat=len(rs)):
            tot += evaluate(expr.expression, jt, {**env, **dict(zip(rs, vals))})
        return tot
    if isinstance(expr, Product):
        r = Fr(1)
        for e in expr.expressions:
            r *= evaluate(e, jt, env)
        return r
    if isinstance(expr, YFraction):
        return evaluate(expr.numerator, jt, env) / evaluate(expr.denominator, jt, env)
    if isinstance(expr, One): return Fr(1)
    if isinstance(expr, Zero): return Fr(0)
    raise TypeError(type(expr))
