import warnings; warnings.filterwarnings("ignore")
import itertools as itt, random, sys
sys.path.insert(0, "/tmp/scratch")
from exp_canon_lib import *
from y0.mutate import chain_expand, fraction_expand, bayes_expand
from y0.mutate.contract import contract, recursive_contract
rng = random.Random(4)
st = {}; shown = {}
def rec(name, ok_, detail):
    st.setdefault(name, [0, 0]); st[name][0] += 1
    if not ok_:
        st[name][1] += 1; shown.setdefault(name, 0)
        if shown[name] < 3: shown[name] += 1; print("BAD", name, detail)
def same(e1, e2, extra_free=()):
    for vals in itt.product(range(2), repeat=3):
        env = dict(zip(VS, vals))
        try: v0 = ev(e1, env)
        except ZeroDivisionError: continue
        try: v1 = ev(e2, env)
        except ZeroDivisionError: return False
        if v0 != v1: return False
    return True
# atoms: probabilities
for p in [a for a in atoms if isinstance(a, Probability)]:
    for name, f in [("chain_expand", chain_expand), ("fraction_expand", fraction_expand), ("bayes_expand", bayes_expand)]:
        try: r = f(p)
        except Exception as ex: rec(name, False, (p, type(ex).__name__, ex)); continue
        rec(name, same(p, r), (p, r))
        if name == "chain_expand":
            leaves = [r] if isinstance(r, Probability) else list(r.expressions)
            rec("chain_expand.single_child", all(len(x.children) == 1 for x in leaves), (p, r))
for _ in range(6000):
    a_, b_ = gen(2), gen(2)
    if not (wellscoped(a_) and wellscoped(b_)): continue
    try: m = a_ * b_
    except Exception as ex: rec("mul", False, (a_, b_, type(ex).__name__)); continue
    ok_ = True
    for vals in itt.product(range(2), repeat=3):
        env = dict(zip(VS, vals))
        try: want = ev(a_, env) * ev(b_, env)
        except ZeroDivisionError: continue
        try: got = ev(m, env)
        except ZeroDivisionError: ok_ = False; break
        if want != got: ok_ = False; break
    rec("mul", ok_, (a_, b_, m))
    if not isinstance(b_, Zero):
        try: d = a_ / b_
        except ZeroDivisionError: d = None
        except Exception as ex: rec("div", False, (a_, b_, type(ex).__name__)); d = None
        if d is not None:
            ok_ = True
            for vals in itt.product(range(2), repeat=3):
                env = dict(zip(VS, vals))
                try: want = ev(a_, env) / ev(b_, env)
                except ZeroDivisionError: continue
                try: got = ev(d, env)
                except ZeroDivisionError: ok_ = False; break
                if want != got: ok_ = False; break
            rec("div", ok_, (a_, b_, d))
    if isinstance(a_, YF):
        try:
            sm = a_.simplify(); rec("Fraction.simplify", same(a_, sm), (a_, sm))
        except ZeroDivisionError: pass
    if isinstance(a_, Sum):
        sm = a_.simplify(); rec("Sum.simplify", same(a_, sm), (a_, sm))
    try:
        rc = recursive_contract(a_); rec("recursive_contract", same(a_, rc), (a_, rc))
    except Exception as ex:
        rec("recursive_contract", False, (a_, type(ex).__name__, ex))
    f = sorted(fv(a_), key=str)
    if f:
        R = rng.sample(f, rng.randint(1, len(f)))
        mg = a_.marginalize(R)
        okm = True
        for vals in itt.product(range(2), repeat=3):
            env = dict(zip(VS, vals))
            try: want = sum(ev(a_, {**env, **dict(zip(R, rv))}) for rv in itt.product(range(2), repeat=len(R)))
            except ZeroDivisionError: continue
            try: got = ev(mg, env)
            except ZeroDivisionError: okm = False; break
            if want != got: okm = False; break
        rec("marginalize", okm, (a_, R, mg))
        # conditional on R: e / sum_{fv \ R} e
        try:
            cd = a_.conditional(R)
            comp = [v for v in f if v not in R]
            okc = True
            for vals in itt.product(range(2), repeat=3):
                env = dict(zip(VS, vals))
                try:
                    den_ = sum(ev(a_, {**env, **dict(zip(comp, rv))}) for rv in itt.product(range(2), repeat=len(comp)))
                    want = ev(a_, env) / den_
                except ZeroDivisionError: continue
                try: got = ev(cd, env)
                except ZeroDivisionError: okc = False; break
                if want != got: okc = False; break
            rec("conditional", okc, (a_, R, cd))
        except ZeroDivisionError: pass
print({k: tuple(v) for k, v in st.items()})
