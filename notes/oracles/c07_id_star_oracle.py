"""C07 bounded part: id_star end to end against a functional-SCM oracle.  Reading of an ID* expression (fixed in DESIGN §5):
a base variable that is a key of the queried event takes the event's value, a subscript is the literal value of its mark
(- = 0, + = 1) unless bound by an enclosing Sum.  Zero may be returned only for events of probability zero."""
from __future__ import annotations

import itertools as itt
import json
import multiprocessing as mp
import random
import time

from props import cfcommon
from y0vc import concrete, fscm, oracles, pipeline

QUAL = "y0.algorithm.identify.id_star.id_star"


def in_class(ev):
    """the class of events on which the check is run (see known findings for what is excluded and why)"""
    dsl = concrete.y0mod("y0.dsl")
    for v, val in ev.items():
        if isinstance(v, dsl.CounterfactualVariable) and any(i.name == v.name for i in v.interventions):
            return False          # reflexive subscripts (merge_pw known finding)
    return True


def gen_cases(tier, rng):
    for vs, d, u in cfcommon.small_graphs(rng, tier, 300 if tier == "quick" else 6000):
        for _ in range(3 if len(vs) < 4 else 2):
            ev = cfcommon.random_event(rng, vs, kmax=3)
            if in_class(ev):
                yield {"nodes": vs, "directed": d, "undirected": u, "event": cfcommon.event_to_json(ev), "seed": rng.randrange(1 << 30)}


def run_case(c):
    dsl = concrete.y0mod("y0.dsl")
    ids = concrete.y0mod("y0.algorithm.identify.id_star")
    utils = concrete.y0mod("y0.algorithm.identify.utils")
    vs, d, u = c["nodes"], c["directed"], c["undirected"]
    g = oracles.build(vs, d, u)
    ev = cfcommon.event_from_json(c["event"])
    try:
        est = ids.id_star(g, dict(ev))
    except utils.Unidentifiable:
        return None
    except Exception as e:
        return f"raised {type(e).__name__}: {e}"
    models = [fscm.FSCM(vs, d, u, c["seed"] + i) for i in range(2)]
    truth = [m.event_prob(fscm.event_of(ev)) for m in models]
    if isinstance(est, dsl.Zero):
        if any(t != 0 for t in truth):
            return f"returned Zero, but the event has probability {max(truth)} in a compatible model"
        return None
    # every probability term must be single-world (C06)
    keyvals = {}
    for v, val in ev.items():
        keyvals.setdefault(v.name, set()).add(fscm.sval(val))
    free = sorted({n for n in vs})
    for m, want in zip(models, truth):
        ambiguous = [n for n, s in keyvals.items() if len(s) > 1]
        if ambiguous:
            return None        # the same base variable observed at two values in different worlds: the reading is not defined
        env0 = {n: next(iter(s)) for n, s in keyvals.items()}
        others = [n for n in free if n not in env0]
        vals = set()
        for ov in itt.product(range(2), repeat=len(others)):
            env = {**env0, **dict(zip(others, ov))}
            try:
                vals.add(fscm.ev_cf(est, env, set(), m))
            except fscm.Undefined as ex:
                if "mixing worlds" in str(ex):
                    return f"estimand {est} contains a term mixing worlds"
                continue
            except KeyError:
                return f"estimand {est} mentions a variable that is not a node of the graph"
        if vals and vals != {want}:
            return f"estimand {est} evaluates to {sorted(vals)[:3]}, the event has probability {want}"
    return None


def _eval(c):
    try:
        return c, run_case(c), None
    except Exception as e:
        return c, None, f"{type(e).__name__}: {e}"


def sweep(rep, pid, cases, qual):
    t0 = time.time()
    concrete.y0mod("y0.dsl")
    fails, errs = [], []
    with mp.get_context("fork").Pool(16) as pool:
        for c, why, err in pool.imap_unordered(_eval, cases, chunksize=16):
            if err:
                errs.append(err)
            elif why:
                fails.append((c, why))
    return fails, errs, round(time.time() - t0, 1)


def extra(rep, repo, registry, known_open):
    rng = random.Random(repr((rep.seed, "C07")))
    cases = list(gen_cases(rep.tier, rng))
    fails, errs, wall = sweep(rep, "C07", cases, QUAL)
    if errs:
        rep.errors.append(f"C07 bounded part: {len(errs)} evaluation errors, e.g. {errs[0]}")
    rep.extra_parts.append({"name": "id_star-vs-functional-scm", "kind": "bounded", "decides": True, "evaluations": len(cases),
                            "scope": "every ADMG on 2-3 nodes and sampled 3-4 node ADMGs, sampled conjunctions of up to 3 counterfactual events", "failures": len(fails), "wall_s": wall})
    if fails:
        c, why = min(fails, key=lambda f: (len(f[0]["nodes"]), len(f[0]["event"])))
        path = pipeline.write_replay("C07", "bounded.id_star", {"property": "C07", "obligation": QUAL + "/bounded", "case": c, "why": why})
        rep.violations.append((QUAL + "/bounded", path, ""))
    rep.samples.append({"bounded_case": cases[len(cases) // 2]})


def replay(payload, path):
    why = run_case(payload["case"])
    print(json.dumps({"case": payload["case"], "now": why}, indent=1))
    if why:
        print(f"VIOLATION property=C07 replay={path}")
        return 1
    return 0
