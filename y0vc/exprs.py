"""Expression theory (DESIGN §2.5): y0.dsl expression objects as terms of an uninterpreted sort `Expr` with a class tag,
field functions, a denotation den : Expr -> Real (for one arbitrary, fixed distribution family and value assignment), a
definedness predicate ok, and finite sequences of expressions (`ESeq`) with their product fold.

All algebraic and fold laws are *instantiated by the generator* at exactly the terms a path constructs (never quantified):
the resulting problems are quantifier-free UF + nonlinear real arithmetic.  Every instantiated law is a true statement
about real numbers / finite sequences / the class tags (list in `LAWS`), so a discharged obligation holds in the intended
model.  A `sat` answer is only a candidate (the instantiation is incomplete by design) and is confirmed on the real code
by searching a pool of concrete expressions with an exact rational evaluator (y0vc/exproracle.py).
"""
from __future__ import annotations

import z3

from .values import V, OutOfSubset

CONCRETE = ["Probability", "PopulationProbability", "Product", "Sum", "Fraction", "One", "Zero", "QFactor"]

LAWS = [
    "den(One)=1, den(Zero)=0, both defined",
    "den(Fraction(n,d)) = den n / den d; defined iff n, d defined and den d != 0",
    "den(Product(s)) = PROD(s); defined iff every factor is",
    "PROD(nil)=1; PROD(unit x)=den x; PROD(cat a b)=PROD a * PROD b (and OKS likewise)",
    "filtering out factors of class One keeps PROD and OKS",
    "a factor of class Zero makes PROD zero",
    "a sorted / permuted sequence has the same PROD, OKS, emptiness and length class",
    "a sequence of length one is unit(head)",
    "den(Sum(R,e)) = SUMV(R,e); SUMV over the empty range is den e; SUMV of a Zero body is 0",
    "objects of class One (Zero) are all equal",
    "a sum is defined only if its body is defined at every summation point, in particular at the current values",
    "a sum whose body is replaced by a pointwise equal expression is unchanged (the replacing callee's contract holds in every environment)",
    "a pointwise denotation-preserving map over a sequence preserves its product; flattening nested products preserves it",
    "class invariants of frozen dataclasses (established by __post_init__, assumed for objects received as arguments): a Fraction's "
    "denominator is not the Zero object; a Sum's ranges are a non-empty set of plain variables",
]


_SORTS = {}


class VExpr(V):
    def __init__(self, t):
        self.t = t


class VESeq(V):
    """tuple / list / generator of expressions"""
    def __init__(self, t):
        self.t = t


class VDist(V):
    """Distribution object of a probability term `t` (children / parents as sequences of nodes)"""
    def __init__(self, owner_t):
        self.t = owner_t


class ExprTheory:
    def __init__(self, L, repo):
        self.L, self.repo = L, repo
        self.Expr = z3.DeclareSort("Expr")
        self.ESeq = z3.DeclareSort("ESeq")
        R, B = z3.RealSort(), z3.BoolSort()
        if "cls" not in _SORTS:
            _SORTS["cls"] = z3.EnumSort("Cls", CONCRETE)
        self.Cls, consts = _SORTS["cls"]
        self.CL = dict(zip(CONCRETE, consts))
        E, S = self.Expr, self.ESeq
        self.cls = z3.Function("cls", E, self.Cls)
        self.den = z3.Function("den", E, R)
        self.ok = z3.Function("ok", E, B)
        self.numerator = z3.Function("numerator", E, E)
        self.denominator = z3.Function("denominator", E, E)
        self.body = z3.Function("sum_body", E, E)
        self.NodeSet = z3.ArraySort(L.Node, B)
        self.ranges = z3.Function("sum_ranges", E, self.NodeSet)
        self.expressions = z3.Function("expressions", E, S)
        self.PROD = z3.Function("PROD", S, R)
        self.OKS = z3.Function("OKS", S, B)
        self.nil = z3.Const("eseq_nil", S)
        self.unit = z3.Function("unit", E, S)
        self.cat = z3.Function("cat", S, S, S)
        self.head = z3.Function("head", S, E)
        self.is_nil = z3.Function("is_nil", S, B)
        self.is_len1 = z3.Function("is_len1", S, B)
        self.has_zero = z3.Function("has_zero", S, B)
        self.no_ones = z3.Function("filter_not_one", S, S)
        self.perm = z3.Function("sorted_seq", S, S)
        self.SUMV = z3.Function("SUMV", self.NodeSet, E, R)
        self.OKSUM = z3.Function("OKSUM", self.NodeSet, E, B)
        self.noq = z3.Function("no_qfactor", E, B)          # no QFactor anywhere inside
        self.noqs = z3.Function("no_qfactor_seq", S, B)
        self.flat = z3.Function("flatten_products", S, S)
        self.mapped = {}                                     # contract qualname -> ESeq -> ESeq
        self.eqv: list = []                                  # (x, r): r = f(x) for a denotation-preserving f (every environment)
        self.sums: dict = {}                                 # id -> (array term, body term)
        self.one = z3.Const("expr_one", E)
        self.zero = z3.Const("expr_zero", E)
        self.eterms: dict = {}
        self.sterms: dict = {}
        self.facts: list = []
        self.reg(self.one)
        self.reg(self.zero)
        self.facts += [self.cls(self.one) == self.CL["One"], self.cls(self.zero) == self.CL["Zero"]]

    # ---- registration of terms (drives the ground instantiation)
    def reg(self, t, depth=0):
        if t.sort() == self.Expr:
            if t.get_id() in self.eterms:
                return t
            self.eterms[t.get_id()] = t
            if depth > 0:
                self.reg(self.numerator(t), depth - 1)
                self.reg(self.denominator(t), depth - 1)
                self.reg(self.body(t), depth - 1)
                self.regs(self.expressions(t))
        return t

    def regs(self, s):
        if s.get_id() not in self.sterms:
            self.sterms[s.get_id()] = s
            d = s.decl().name() if z3.is_app(s) else ""
            for c in (s.children() if z3.is_app(s) else []):
                if c.sort() == self.ESeq:
                    self.regs(c)
                elif c.sort() == self.Expr:
                    self.reg(c)
        return s

    def subclasses(self, qual):
        out = []
        for k in CONCRETE:
            ci = self.repo.resolve(f"y0.dsl.{k}")
            if ci is not None and self.repo.is_subclass(ci, qual):
                out.append(k)
        return out

    def is_cls(self, t, names):
        L = self.L
        return L.Or(*[self.cls(t) == self.CL[k] for k in names])

    # ---- ground instances of the laws
    def ground(self):
        L = self.L
        CL, cls, den, ok = self.CL, self.cls, self.den, self.ok
        out = list(self.facts)
        ets = list(self.eterms.values())
        for t in ets:
            out += [
                z3.Implies(cls(t) == CL["One"], z3.And(den(t) == 1, ok(t), t == self.one)),
                z3.Implies(cls(t) == CL["Zero"], z3.And(den(t) == 0, ok(t), t == self.zero)),
                z3.Implies(cls(t) == CL["Fraction"], z3.And(
                    den(t) == den(self.numerator(t)) / den(self.denominator(t)),
                    ok(t) == z3.And(ok(self.numerator(t)), ok(self.denominator(t)), den(self.denominator(t)) != 0),
                    # class invariant established by Fraction.__post_init__ (frozen dataclass): the denominator is not a Zero object
                    cls(self.denominator(t)) != CL["Zero"])),
                z3.Implies(cls(t) == CL["Product"], z3.And(den(t) == self.PROD(self.expressions(t)),
                                                           ok(t) == self.OKS(self.expressions(t)))),
                z3.Implies(cls(t) == CL["Sum"], z3.And(den(t) == self.sumv(self.ranges(t), self.body(t))[0],
                                                       ok(t) == self.OKSUM(self.ranges(t), self.body(t)))),
            ]
        for t in ets:
            out += [
                z3.Implies(z3.And(self.noq(t), cls(t) == CL["Fraction"]), z3.And(self.noq(self.numerator(t)), self.noq(self.denominator(t)))),
                z3.Implies(z3.And(self.noq(t), cls(t) == CL["Sum"]), self.noq(self.body(t))),
                z3.Implies(z3.And(self.noq(t), cls(t) == CL["Product"]), self.noqs(self.expressions(t))),
                z3.Implies(self.noq(t), cls(t) != CL["QFactor"]),
            ]
        for s in list(self.sterms.values()):
            out += self.seq_laws(s)
        # a sum whose body is replaced by a pointwise equal one (the callee's contract holds in every environment) is unchanged
        for (arr, body) in list(self.sums.values()):
            # the summation points include the current values of the range variables
            out.append(z3.Implies(self.OKSUM(arr, body), ok(body)))
            # a sum over no variable has the single term `body`; a sum of zeros is zero (the Zero object is defined everywhere)
            empty = arr == z3.K(self.L.Node, z3.BoolVal(False))
            out.append(z3.Implies(empty, z3.And(self.SUMV(arr, body) == den(body), self.OKSUM(arr, body) == ok(body))))
            out.append(z3.Implies(cls(body) == CL["Zero"], z3.And(self.SUMV(arr, body) == 0, self.OKSUM(arr, body))))
            for (x, r) in self.eqv:
                if body.eq(r):
                    out.append(z3.Implies(self.OKSUM(arr, x), z3.And(self.OKSUM(arr, r), self.SUMV(arr, r) == self.SUMV(arr, x))))
        return out

    def sumv(self, arr, body):
        self.sums[(arr.get_id(), body.get_id())] = (arr, body)
        return self.SUMV(arr, body), self.OKSUM(arr, body)

    def map_fn(self, qual):
        if qual not in self.mapped:
            self.mapped[qual] = z3.Function("map_" + qual.split(".")[-1] + f"_{len(self.mapped)}", self.ESeq, self.ESeq)
        return self.mapped[qual]

    def seq_laws(self, s):
        PROD, OKS = self.PROD, self.OKS
        out = []
        d = s.decl().name() if z3.is_app(s) and s.num_args() > 0 else ""
        if d == "unit":
            x = s.arg(0)
            out += [PROD(s) == self.den(x), OKS(s) == self.ok(x), z3.Not(self.is_nil(s)), self.is_len1(s), self.head(s) == x,
                    self.has_zero(s) == (self.cls(x) == self.CL["Zero"])]
        elif d == "cat":
            a, b = s.arg(0), s.arg(1)
            out += [PROD(s) == PROD(a) * PROD(b), OKS(s) == z3.And(OKS(a), OKS(b)),
                    self.is_nil(s) == z3.And(self.is_nil(a), self.is_nil(b)),
                    self.has_zero(s) == z3.Or(self.has_zero(a), self.has_zero(b)),
                    z3.Implies(z3.And(z3.Not(self.is_nil(a)), z3.Not(self.is_nil(b))), z3.Not(self.is_len1(s)))]
        elif d == "filter_not_one":
            a = s.arg(0)
            out += [PROD(s) == PROD(a), OKS(s) == OKS(a), self.has_zero(s) == self.has_zero(a),
                    z3.Implies(self.is_nil(a), self.is_nil(s))]
        elif d == "flatten_products":
            a = s.arg(0)
            out += [PROD(s) == PROD(a), OKS(s) == OKS(a), self.noqs(s) == self.noqs(a)]
        elif d.startswith("map_"):
            a = s.arg(0)
            # pointwise denotation-preserving map (by the mapped function's contract): the product is preserved
            out += [z3.Implies(OKS(a), z3.And(OKS(s), PROD(s) == PROD(a)))]
        elif d == "sorted_seq":
            a = s.arg(0)
            out += [PROD(s) == PROD(a), OKS(s) == OKS(a), self.has_zero(s) == self.has_zero(a),
                    self.is_nil(s) == self.is_nil(a), self.is_len1(s) == self.is_len1(a)]
        out += [z3.Implies(self.is_nil(s), z3.And(PROD(s) == 1, OKS(s), z3.Not(self.has_zero(s)), z3.Not(self.is_len1(s)))),
                z3.Implies(self.is_len1(s), z3.And(PROD(s) == self.den(self.head(s)), OKS(s) == self.ok(self.head(s)),
                                                   z3.Not(self.is_nil(s)))),
                z3.Implies(z3.And(self.has_zero(s), OKS(s)), PROD(s) == 0)]
        if s.eq(self.nil):
            out.append(self.is_nil(s))
        self.reg(self.head(s), 0)
        return out

    # ---- set <-> array
    def set_to_array(self, vset, binders=()):
        """`binders`: iteration constants the set may depend on; the array is then a function of them (an array constant would
        silently pin the set to one iteration)."""
        if getattr(vset, "array", None) is not None:
            return vset.array
        x = z3.Const("sx", self.L.Node)
        if self.L.k is not None:
            arr = z3.K(self.L.Node, z3.BoolVal(False))
            for u in self.L.universe:
                arr = z3.Store(arr, u, vset.has(u))
            return arr
        # a fresh array constant defined pointwise (no lambda: the SMT-LIB text must stay first-order for cvc5)
        nm = self.L.fresh_name("rangeset")
        from .logic import symbols_of
        used = symbols_of(vset.has(x))
        bs = [b for b in binders if b.decl().name() in used]
        if not bs:
            cached = getattr(vset, "_array_const", None)
            if cached is not None:
                return cached
        if bs:
            F = z3.Function(nm, *[b.sort() for b in bs], self.NodeSet)
            arr = F(*bs)
            self.L.add_axioms({nm}, [self.L.forall_c(bs + [x], z3.Select(arr, x) == vset.has(x))])
            return arr
        arr = z3.Const(nm, self.NodeSet)
        self.L.add_axioms({nm}, [self.L.forall_c([x], z3.Select(arr, x) == vset.has(x))])
        try:
            vset._array_const = arr
        except Exception:
            pass
        return arr

    # ---- constructors
    def fresh(self, name):
        t = z3.Const(self.L.fresh_name(name), self.Expr)
        return self.reg(t)

    def seq_of(self, parts):
        """parts: list of ('e', term) | ('s', seq term)"""
        if not parts:
            return self.regs(self.nil)
        terms = [self.regs(self.unit(self.reg(t))) if k == "e" else self.regs(t) for k, t in parts]
        acc = terms[0]
        for p in terms[1:]:
            acc = self.regs(self.cat(acc, p))
        return acc


def theory(ex) -> ExprTheory:
    L = ex.L
    if getattr(L, "E", None) is None:
        L.E = ExprTheory(L, ex.repo)
    return L.E


# ================================================================================================ hooks used by the executor
INTERFACE_NOTE = ("`a * b` and `a / b` on expressions are dynamically dispatched; at a call site the interface contract is "
                  "used: ok(a) & ok(b) [& den(b) != 0]  =>  ok(r) & den(r) = den(a) * den(b) [resp. /].  Every "
                  "implementation (__mul__ / __truediv__ of each class) is verified against that same contract.")


def expr_attr(ex, base: VExpr, attr):
    from .values import VSet, VFunc
    T = theory(ex)
    t = base.t
    if attr == "numerator":
        return VExpr(T.reg(T.numerator(t)))
    if attr == "denominator":
        return VExpr(T.reg(T.denominator(t)))
    if attr == "expression":
        return VExpr(T.reg(T.body(t)))
    if attr == "expressions":
        return VESeq(T.regs(T.expressions(t)))
    if attr == "ranges":
        r = T.ranges(t)
        # class invariant established by Sum.__post_init__ (frozen dataclass; proved where a Sum is constructed, assumed for Sum
        # objects that come in as arguments): the ranges are a non-empty frozenset of plain variables
        L = ex.L
        ex.assume(z3.Implies(T.cls(t) == T.CL["Sum"], L.And(
            L.forall(1, lambda x: L.Implies(z3.Select(r, x), L.And(L.Not(L.is_cf(x)), L.Not(L.is_intervention(x))))),
            L.exists(1, lambda x: z3.Select(r, x)))))
        v = VSet(lambda x: z3.Select(r, x), owned=False, kind="frozenset")
        v.frozen = True
        v.array = r
        return v
    if attr == "distribution":
        return VDist(t)
    # a method: resolve over the concrete classes the receiver may have on this path
    impls = {}
    for k in CONCRETE:
        ci = ex.repo.resolve(f"y0.dsl.{k}")
        m = ex.repo.find_method(ci, attr) if ci is not None else None
        if m is not None:
            impls.setdefault(m.qualname, (m, []))[1].append(k)
    if not impls:
        raise OutOfSubset(f"attribute {attr} of an expression")
    items = list(impls.values())
    for i, (m, ks) in enumerate(items):
        last = i == len(items) - 1
        cond = T.is_cls(t, ks)
        if last and len(items) > 1:
            ex.assume(cond) if ex.feasible(cond) else None
            if not ex.feasible(cond):
                raise OutOfSubset(f"no class of the receiver implements {attr}")
            return _bind(ex, m, base)
        if ex.branch(cond):
            return _bind(ex, m, base)
    m, ks = items[-1]
    ex.require(T.is_cls(t, ks), "AttributeError", attr)
    return _bind(ex, m, base)


def _bind(ex, m, base):
    from .values import VFunc
    if m.is_property:
        return ex.call_y0(m, [], {}, self_val=base)
    return VFunc("y0", m, self_val=base)


def expr_binop(ex, l, op, r):
    import ast
    T = theory(ex)
    L = ex.L
    if not (isinstance(l, VExpr) and isinstance(r, VExpr)):
        raise OutOfSubset("arithmetic between an expression and a non-expression")
    den, ok = T.den, T.ok
    ex.assumption_notes.add(INTERFACE_NOTE)
    if isinstance(op, ast.Mult):
        res = T.fresh("mul")
        ex.assume(z3.Implies(z3.And(ok(l.t), ok(r.t)), z3.And(ok(res), den(res) == den(l.t) * den(r.t))))
        # zero annihilates syntactically: X * Zero() is the Zero object for every class X (first branch of every __mul__)
        return VExpr(res)
    if isinstance(op, ast.Div):
        # a division can only fail by ZeroDivisionError, and only when the divisor denotes zero
        bad = z3.Or(T.cls(r.t) == T.CL["Zero"], z3.And(T.cls(r.t) == T.CL["Fraction"], T.cls(T.numerator(r.t)) == T.CL["Zero"]))
        T.reg(T.numerator(r.t))
        ex.require(L.Not(bad), "ZeroDivisionError", "truediv")
        res = T.fresh("div")
        ex.assume(z3.Implies(z3.And(ok(l.t), ok(r.t), den(r.t) != 0), z3.And(ok(res), den(res) == den(l.t) / den(r.t))))
        return VExpr(res)
    raise OutOfSubset(f"operator {type(op).__name__} on expressions")


def expr_isinstance(ex, v: VExpr, tn):
    T = theory(ex)
    if not tn.startswith("y0.dsl."):
        return ex.L.F()
    ks = T.subclasses(tn)
    return T.is_cls(v.t, ks) if ks else (ex.L.T() if tn in ("y0.dsl.Expression", "y0.dsl.Element") else ex.L.F())


def expr_construct(ex, cls, args, kwargs):
    """Constructor of an Expression subclass: a fresh term with the given class and fields; __post_init__ is run on it."""
    T = theory(ex)
    L = ex.L
    name = cls.name
    if name not in CONCRETE:
        raise OutOfSubset(f"constructor of {name}")
    if name == "One":
        return VExpr(T.one)
    if name == "Zero":
        return VExpr(T.zero)
    fields = [n for n, _ in ex.repo.all_fields(cls)]
    vals = dict(zip(fields, args))
    vals.update(kwargs)
    r = T.fresh(name.lower())
    ex.assume(T.cls(r) == T.CL[name])
    if name == "Fraction":
        n, d = vals["numerator"], vals["denominator"]
        ex.assume(z3.And(T.numerator(r) == n.t, T.denominator(r) == d.t))
    elif name == "Product":
        s = to_eseq(ex, vals["expressions"])
        ex.assume(T.expressions(r) == s.t)
    elif name == "Sum":
        from .values import VSet
        rs = ex.as_set(vals["ranges"])
        ex.assume(z3.And(T.body(r) == vals["expression"].t, T.ranges(r) == T.set_to_array(rs, binders=ex.binders)))
    else:
        raise OutOfSubset(f"constructor of {name}")
    post = ex.repo.find_method(cls, "__post_init__")
    if post is not None:
        ex.call_y0(post, [], {}, self_val=VExpr(r))
    return VExpr(r)


def to_eseq(ex, v):
    from .values import VTuple
    T = theory(ex)
    if isinstance(v, VESeq):
        return v
    if isinstance(v, VTuple) and all(isinstance(i, VExpr) for i in v.items):
        return VESeq(T.seq_of([("e", i.t) for i in v.items]))
    raise OutOfSubset(f"{type(v).__name__} used as a sequence of expressions")


def expr_equal(ex, l, r):
    if isinstance(l, VExpr) and isinstance(r, VExpr):
        return l.t == r.t
    return ex.L.F()


def eseq_comprehension(ex, e, seq: VESeq):
    """Generator expressions / comprehensions over a sequence of expressions, by shape:
         (x for x in s if x != One())          -> the sequence without its One factors
         (x == Zero() for x in s)              -> a marker consumed by any()
         (f(x) for x in s)  with f den-preserving by contract  -> a sequence with the same product"""
    import ast
    T = theory(ex)
    g = e.generators[0]
    if not isinstance(g.target, ast.Name):
        raise OutOfSubset("comprehension over expressions with a structured target")
    x = g.target.id

    def is_ctor(n, name):
        return isinstance(n, ast.Call) and isinstance(n.func, ast.Name) and n.func.id == name and not n.args

    if isinstance(e.elt, ast.Name) and e.elt.id == x:
        if not g.ifs:
            return seq
        if len(g.ifs) == 1 and isinstance(g.ifs[0], ast.Compare) and len(g.ifs[0].ops) == 1 and isinstance(g.ifs[0].ops[0], ast.NotEq) \
                and isinstance(g.ifs[0].left, ast.Name) and g.ifs[0].left.id == x and is_ctor(g.ifs[0].comparators[0], "One"):
            return VESeq(T.regs(T.no_ones(seq.t)))
    if not g.ifs and isinstance(e.elt, ast.Compare) and len(e.elt.ops) == 1 and isinstance(e.elt.ops[0], ast.Eq) \
            and isinstance(e.elt.left, ast.Name) and e.elt.left.id == x and is_ctor(e.elt.comparators[0], "Zero"):
        return VAnyZero(seq)
    if not g.ifs and isinstance(e.elt, ast.Call) and len(e.elt.args) == 1 and not e.elt.keywords \
            and isinstance(e.elt.args[0], ast.Name) and e.elt.args[0].id == x:
        f = ex.ev(e.elt.func)
        from .values import VFunc
        if isinstance(f, VFunc) and f.kind == "y0":
            con = ex.registry.get(f.target.qualname)
            if con is not None and getattr(con, "den_preserving", False):
                ex.used_contracts.add(f.target.qualname)
                # the call may raise for some element: the contract's element-wise condition lifted to the sequence
                lifted = con.seq_no_raise(ex, f.self_val, seq)
                for exc, cond in lifted.items():
                    ex.require(cond, exc, f"map:{f.target.qualname.split('.')[-1]}")
                return VESeq(T.regs(T.map_fn(f.target.qualname)(seq.t)))
    raise OutOfSubset("comprehension over a sequence of expressions (shape not modelled)")


class VAnyZero(V):
    def __init__(self, seq):
        self.seq = seq
