"""Discharge obligation instances: z3 (in-process, forked pool) first, cvc5 on the SMT-LIB text for what z3 leaves open."""
from __future__ import annotations

import multiprocessing as mp
import os
import subprocess
import time

import z3
from .logic import symbols_of

CVC5 = "/usr/bin/cvc5"
_WORK: list = []


def _decode(L, model, probes):
    """Read the inputs back from a finite model as plain data (indices into the universe)."""
    U = L.universe
    k = len(U)
    ev = lambda t: z3.is_true(model.eval(t, model_completion=True))
    out = {"k": k}
    # variable order: a permutation of the universe consistent with var_lt in the model
    lt = L.vlt
    order = sorted(range(k), key=lambda i: sum(1 for j in range(k) if ev(lt(U[j], U[i]))))
    out["order"] = order
    out["interventions"] = [i for i in range(k) if ev(L.is_intervention(U[i]))]
    for p in probes or []:
        if p.kind == "graph":
            N, D, Ur = p.syms
            out[p.param] = {"kind": "graph", "nodes": [i for i in range(k) if ev(N(U[i]))],
                            "directed": [(i, j) for i in range(k) for j in range(k) if ev(D(U[i], U[j]))],
                            "undirected": [(i, j) for i in range(k) for j in range(i, k) if ev(Ur(U[i], U[j]))]}
        elif p.kind in ("digraph", "ugraph"):
            N, E = p.syms[:2]
            out[p.param] = {"kind": p.kind, "nodes": [i for i in range(k) if ev(N(U[i]))],
                            "edges": [(i, j) for i in range(k) for j in range(k) if ev(E(U[i], U[j]))]}
            if len(p.syms) > 2:
                out[p.param]["attrs"] = {tag: ([i for i in range(k) if ev(H(U[i]))], [i for i in range(k) if ev(Vv(U[i]))])
                                         for tag, (H, Vv) in p.syms[2].items()}
        elif p.kind == "nodeset":
            (S,) = p.syms
            out[p.param] = {"kind": "nodeset", "members": [i for i in range(k) if ev(S(U[i]))]}
        elif p.kind == "node":
            (c,) = p.syms
            v = model.eval(c, model_completion=True)
            out[p.param] = {"kind": "node", "index": next(i for i in range(k) if v.eq(U[i]))}
        elif p.kind == "nodemap":
            Dm, Sg = p.syms
            out[p.param] = {"kind": "nodemap", "map": {i: [j for j in range(k) if ev(Sg(U[i], U[j]))] for i in range(k) if ev(Dm(U[i]))}}
        elif p.kind == "seq":
            M, lt = p.syms
            mem = [i for i in range(k) if ev(M(U[i]))]
            mem.sort(key=lambda i: sum(1 for j in mem if ev(lt(U[j], U[i]))))
            out[p.param] = {"kind": "seq", "items": mem}
        elif p.kind == "pairs":
            (R,) = p.syms
            out[p.param] = {"kind": "pairs", "pairs": [(i, j) for i in range(k) for j in range(k) if ev(R(U[i], U[j]))]}
        elif p.kind == "bool":
            (c,) = p.syms
            out[p.param] = {"kind": "bool", "value": ev(c)}
        elif p.kind == "optint":
            isnone, val = p.syms
            out[p.param] = {"kind": "optint", "value": None if ev(isnone) else model.eval(val, model_completion=True).as_long()}
    return out


def _z3_check(L, hyps, goal, budget_ms, extra=()):
    s = z3.Solver()
    s.set("timeout", int(budget_ms))
    fs = list(hyps) + list(extra) + [L.Not(goal)]
    for a in L.relevant_axioms(fs):
        s.add(a)
    for f in fs:
        s.add(f)
    t0 = time.time()
    try:
        r = s.check()
    except z3.Z3Exception as e:   # pragma: no cover
        return "unknown", (time.time() - t0) * 1000, s, f"z3 exception {e}"
    ms = (time.time() - t0) * 1000
    st = "unsat" if r == z3.unsat else ("sat" if r == z3.sat else "unknown")
    return st, ms, s, (s.reason_unknown() if st == "unknown" else "")


def _cvc5_check(solver, budget_ms, mode="--full-saturate-quant"):
    txt = solver.to_smt2()
    t1 = time.time()
    ans = ""
    try:
        p = subprocess.run([CVC5, "--lang=smt2", f"--tlimit={int(budget_ms)}", mode],
                           input=txt, capture_output=True, text=True, timeout=budget_ms / 1000 + 5)
        ans = p.stdout.strip().splitlines()[0] if p.stdout.strip() else ""
    except Exception:   # pragma: no cover
        ans = ""
    return ans, (time.time() - t1) * 1000


def _mentions_expr_theory(L, formulas):
    """Do the hypotheses / goal themselves talk about expressions (den, ok, ...)?  The seeds retried below only matter for NRA."""
    names = getattr(L.E, "_fn_names", None)
    if names is None:
        names = {v.name() for v in vars(L.E).values() if isinstance(v, z3.FuncDeclRef)}
        L.E._fn_names = names
    return any(symbols_of(f) & names for f in formulas)


def prove(L, hyps, goal, budget_ms, use_cvc5=True, extra=(), find_models=False):
    """unsat of hyps & not goal.  z3 first (short budget), then cvc5 on the same SMT-LIB text, then z3 with the full budget.
    Returns (status in {'unsat','sat','unknown'}, backend, ms, z3 solver, reason)."""
    first = min(budget_ms, 3000) if (use_cvc5 and L.k is None) else budget_ms
    st, ms, s, why = _z3_check(L, hyps, goal, first, extra)
    if st != "unknown":
        return st, "z3", ms, s, why
    total = ms
    if getattr(L, "E", None) is not None and _mentions_expr_theory(L, list(hyps) + [goal]):
        # nonlinear real arithmetic is sensitive to the solver's internal ordering: retry with other seeds before giving up
        for seed in (7, 23, 101):
            s2 = z3.Solver()
            s2.set("timeout", int(min(budget_ms, 4000)))
            s2.set("random_seed", seed)
            z3.set_param("smt.random_seed", seed)
            z3.set_param("nlsat.seed", seed)
            for f in s.assertions():
                s2.add(f)
            t0 = time.time()
            r = s2.check()
            total += (time.time() - t0) * 1000
            if r == z3.unsat:
                return "unsat", f"z3(seed {seed})", total, s2, ""
            if r == z3.sat:
                return "sat", f"z3(seed {seed})", total, s2, ""
    if use_cvc5 and L.k is None:
        ans, ms2 = _cvc5_check(s, 15000 if budget_ms >= 10000 else min(budget_ms, 6000))   # generous: a busy machine must not flip a verdict
        total += ms2
        if ans == "unsat":
            return "unsat", "cvc5", total, s, ""
        if find_models:
            # a finite counter-model (candidate: the closure axioms have non-standard models) -- used by the caller only for
            # obligations that are discharged on the unchanged tree
            ans, ms2 = _cvc5_check(s, min(budget_ms, 5000), "--finite-model-find")
            total += ms2
            if ans == "sat":
                return "sat", "cvc5-fmf", total, s, ""
        if first < budget_ms:
            st, ms3, s, why = _z3_check(L, hyps, goal, budget_ms, extra)
            total += ms3
            if st != "unknown":
                return st, "z3", total, s, why
    return "unknown", "z3", total, s, why


def _solve(idx_budget):
    idx, budget_ms, want_smt2, use_cvc5 = idx_budget
    inst = _WORK[idx]
    L = inst.L
    extra = []
    backend_note = ""
    if _has_two_closures(L, inst.goal, inst.hyps):
        # cut rule for goals that compare two closures: first prove  R_i <= rtc_j  (a first-order fact about one step),
        # conclude rtc_i <= rtc_j by the simulation lemma y0_rtc_lift, and use that as a hypothesis
        extra = _closure_cuts(L, inst, budget_ms, use_cvc5)
        if extra:
            backend_note = "+cut"
    st, backend, ms, s, why = prove(L, inst.hyps, inst.goal, budget_ms, use_cvc5, extra, find_models=True)
    smt2 = s.to_smt2() if want_smt2 else None
    if st == "unsat":
        return idx, "discharged", ms, None, "", smt2, backend + backend_note
    if st == "sat":
        model = None
        if L.k is not None:
            try:
                model = _decode(L, s.model(), inst.probes)
            except Exception as e:   # pragma: no cover
                model = {"decode_error": repr(e)}
        return idx, "refuted", ms, model, "", smt2, backend
    return idx, "undecided", ms, None, why or "unknown", smt2, backend


def _goal_closures(L, goal, hyps=()):
    """closures occurring in the goal, followed by those occurring only in the hypotheses"""
    from .logic import symbols_of
    syms = symbols_of(goal)
    first = [(n, R, C) for n, R, C in L.closures if n in syms]
    if not first:
        return []
    hs = set()
    for h in hyps:
        hs |= symbols_of(h)
    rest = [(n, R, C) for n, R, C in L.closures if n in hs and n not in syms]
    return first + rest[:3]


def _has_two_closures(L, goal, hyps=()):
    return L.k is None and len(_goal_closures(L, goal, hyps)) >= 2


CUT_DEADLINE_S = {"quick": 12.0, "thorough": 900.0}
TIER = os.environ.get("Y0VC_TIER", "quick")


def _closure_cuts(L, inst, budget_ms, use_cvc5=True):
    """For every ordered pair of closures in the goal try to establish rtc_i <= rtc_j from a one-step fact:
         forall a b. R_i(a,b) -> R_j(a,b) | a = b          (first-order; proved by case analysis on R_i(a0,b0))
       or forall a b. R_i(a,b) -> rtc_j(a,b),
       either of which gives rtc_i <= rtc_j by y0_rtc_lift.  Returns the established inclusions."""
    from .logic import split_cases
    out = []
    cl = _goal_closures(L, inst.goal, inst.hyps)
    ngoal = len(_goal_closures(L, inst.goal))
    deadline = time.time() + CUT_DEADLINE_S.get(TIER, 25.0)
    for ii, (ni, Ri, Ci) in enumerate(cl):
        for jj, (nj, Rj, Cj) in enumerate(cl):
            if ni == nj or (ii >= ngoal and jj >= ngoal):
                continue
            if time.time() > deadline:
                return out
            ok = False
            a0, b0 = L.node("a0"), L.node("b0")
            step = L.Or(Rj(a0, b0), a0 == b0)
            st, _, _, _, _ = prove(L, list(inst.hyps) + [Ri(a0, b0)], step, min(budget_ms, 2000), use_cvc5=False)
            if st == "unsat":
                ok = True
            elif st == "unknown":
                cases = split_cases(L, Ri(a0, b0), depth=4, cap=160)
                if 1 < len(cases) <= 200:
                    ok = True
                    for c in cases:
                        if time.time() > deadline:
                            ok = False
                            break
                        st, _, _, _, _ = prove(L, list(inst.hyps) + c, step, max(budget_ms, 20000), use_cvc5)
                        if st != "unsat":
                            ok = False
                            break
            if not ok:
                sub = L.forall(2, lambda a, b: L.Implies(Ri(a, b), Cj(a, b)))
                st, _, _, _, _ = prove(L, inst.hyps, sub, min(budget_ms, 10000), use_cvc5)
                ok = st == "unsat"
            if ok:
                out.append(L.forall(2, lambda a, b: L.Implies(Ci(a, b), Cj(a, b))))
    return out


def solve_all(instances, budget_ms=10000, procs=None, want_smt2=False, use_cvc5=True):
    """Returns list of dicts aligned with `instances`."""
    global _WORK
    _WORK = list(instances)
    n = len(_WORK)
    if n == 0:
        return []
    procs = procs or min(16, os.cpu_count() or 4, n)
    jobs = [(i, budget_ms, want_smt2, use_cvc5) for i in range(n)]
    res = [None] * n
    if procs <= 1 or n <= 2:
        outs = map(_solve, jobs)
        for o in outs:
            res[o[0]] = o
    else:
        ctx = mp.get_context("fork")
        with ctx.Pool(procs) as pool:
            for o in pool.imap_unordered(_solve, jobs, chunksize=1):
                res[o[0]] = o
    out = []
    for i, (idx, status, ms, model, reason, smt2, backend) in enumerate(res):
        out.append({"status": status, "ms": round(ms, 2), "model": model, "reason": reason, "smt2": smt2,
                    "backend": backend})
    _WORK = []
    return out
