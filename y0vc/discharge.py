"""Discharge obligation instances: z3 (in-process, forked pool) first, cvc5 on the SMT-LIB text for what z3 leaves open."""
from __future__ import annotations

import multiprocessing as mp
import os
import subprocess
import time

import z3

CVC5 = "/usr/bin/cvc5"
_WORK: list = []


def _decode(L, model, probes):
    """Read the inputs back from a finite model as plain data (indices into the universe)."""
    U = L.universe
    k = len(U)
    ev = lambda t: z3.is_true(model.eval(t, model_completion=True))
    out = {"k": k}
    # variable order: a permutation of the universe consistent with var_lt in the model
    lt = L.vlt
    order = sorted(range(k), key=lambda i: sum(1 for j in range(k) if ev(lt(U[j], U[i]))))
    out["order"] = order
    out["interventions"] = [i for i in range(k) if ev(L.is_intervention(U[i]))]
    for p in probes or []:
        if p.kind == "graph":
            N, D, Ur = p.syms
            out[p.param] = {"kind": "graph", "nodes": [i for i in range(k) if ev(N(U[i]))],
                            "directed": [(i, j) for i in range(k) for j in range(k) if ev(D(U[i], U[j]))],
                            "undirected": [(i, j) for i in range(k) for j in range(i, k) if ev(Ur(U[i], U[j]))]}
        elif p.kind in ("digraph", "ugraph"):
            N, E = p.syms
            out[p.param] = {"kind": p.kind, "nodes": [i for i in range(k) if ev(N(U[i]))],
                            "edges": [(i, j) for i in range(k) for j in range(k) if ev(E(U[i], U[j]))]}
        elif p.kind == "nodeset":
            (S,) = p.syms
            out[p.param] = {"kind": "nodeset", "members": [i for i in range(k) if ev(S(U[i]))]}
        elif p.kind == "node":
            (c,) = p.syms
            v = model.eval(c, model_completion=True)
            out[p.param] = {"kind": "node", "index": next(i for i in range(k) if v.eq(U[i]))}
        elif p.kind == "seq":
            M, lt = p.syms
            mem = [i for i in range(k) if ev(M(U[i]))]
            mem.sort(key=lambda i: sum(1 for j in mem if ev(lt(U[j], U[i]))))
            out[p.param] = {"kind": "seq", "items": mem}
        elif p.kind == "pairs":
            (R,) = p.syms
            out[p.param] = {"kind": "pairs", "pairs": [(i, j) for i in range(k) for j in range(k) if ev(R(U[i], U[j]))]}
        elif p.kind == "bool":
            (c,) = p.syms
            out[p.param] = {"kind": "bool", "value": ev(c)}
        elif p.kind == "optint":
            isnone, val = p.syms
            out[p.param] = {"kind": "optint", "value": None if ev(isnone) else model.eval(val, model_completion=True).as_long()}
    return out


def _solve(idx_budget):
    idx, budget_ms, want_smt2, use_cvc5 = idx_budget
    inst = _WORK[idx]
    L = inst.L
    s = z3.Solver()
    s.set("timeout", budget_ms)
    fs = list(inst.hyps) + [L.Not(inst.goal)]
    ax = L.relevant_axioms(fs)
    for a in ax:
        s.add(a)
    for f in fs:
        s.add(f)
    t0 = time.time()
    try:
        r = s.check()
    except z3.Z3Exception as e:   # pragma: no cover
        return idx, "undecided", 0.0, None, f"z3 exception {e}", None, "z3"
    ms = (time.time() - t0) * 1000
    smt2 = s.to_smt2() if want_smt2 else None
    if r == z3.unsat:
        return idx, "discharged", ms, None, "", smt2, "z3"
    if r == z3.sat:
        model = None
        if L.k is not None:
            try:
                model = _decode(L, s.model(), inst.probes)
            except Exception as e:   # pragma: no cover
                model = {"decode_error": repr(e)}
        return idx, "refuted", ms, model, "", smt2, "z3"
    reason = s.reason_unknown()
    if use_cvc5 and L.k is None:
        txt = s.to_smt2()
        t1 = time.time()
        try:
            p = subprocess.run([CVC5, "--lang=smt2", f"--tlimit={budget_ms}", "--full-saturate-quant"],
                               input=txt, capture_output=True, text=True, timeout=budget_ms / 1000 + 5)
            ans = p.stdout.strip().splitlines()[0] if p.stdout.strip() else ""
        except Exception as e:   # pragma: no cover
            ans = ""
        ms2 = (time.time() - t1) * 1000
        if ans == "unsat":
            return idx, "discharged", ms + ms2, None, "", smt2, "cvc5"
    return idx, "undecided", ms, None, reason, smt2, "z3"


def solve_all(instances, budget_ms=10000, procs=None, want_smt2=False, use_cvc5=True):
    """Returns list of dicts aligned with `instances`."""
    global _WORK
    _WORK = list(instances)
    n = len(_WORK)
    if n == 0:
        return []
    procs = procs or min(16, os.cpu_count() or 4, n)
    jobs = [(i, budget_ms, want_smt2, use_cvc5) for i in range(n)]
    res = [None] * n
    if procs <= 1 or n <= 2:
        outs = map(_solve, jobs)
        for o in outs:
            res[o[0]] = o
    else:
        ctx = mp.get_context("fork")
        with ctx.Pool(procs) as pool:
            for o in pool.imap_unordered(_solve, jobs, chunksize=1):
                res[o[0]] = o
    out = []
    for i, (idx, status, ms, model, reason, smt2, backend) in enumerate(res):
        out.append({"status": status, "ms": round(ms, 2), "model": model, "reason": reason, "smt2": smt2,
                    "backend": backend})
    _WORK = []
    return out
