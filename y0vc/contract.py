"""Sidecar contracts: registry, symbolic input builders, value comparison (DESIGN §2.4).

A contract is a class registered under the qualified name of a function in /repo.  It states
  * `params`   : the kind of every parameter (drives symbolic input construction and model decoding),
  * `pre`      : named preconditions,
  * `raises`   : exception type -> condition under which the function is allowed / specified to raise it,
  * `spec`     : the result as an explicit term over the inputs (functional contracts), or
  * `post`     : named postcondition clauses over (inputs, result),
  * `frame`    : 'pure' (default): nothing reachable from the parameters is mutated.
At call sites the callee's contract is all the caller knows: `pre` is asserted, `raises` conditions become raise
sites of the caller, and the result is the `spec` term (or a fresh value constrained by `post`).
"""
from __future__ import annotations

import types

import z3

from .logic import Logic
from .values import (NONE, OutOfSubset, V, VBool, VComp, VDict, VFam, VFunc, VGraph, VInt, VNode, VNone, VNx, VObj,
                     VSeq, VSet, VStr, VTuple)

REGISTRY: dict[str, "Contract"] = {}


def contract(qual, props, **opts):
    def deco(cls):
        inst = cls()
        inst.qual = qual
        inst.props = list(props)
        for k, v in opts.items():
            setattr(inst, k, v)
        REGISTRY[qual] = inst
        return cls
    return deco


# ------------------------------------------------------------------------------------------------ symbolic inputs
class Probe:
    """How to read an input back from a finite model."""
    def __init__(self, param, kind, syms):
        self.param, self.kind, self.syms = param, kind, syms


def sym_graph(L: Logic, name: str, acyclic=False):
    N = z3.Function(f"{name}.N", L.Node, L.B)
    D = z3.Function(f"{name}.D", L.Node, L.Node, L.B)
    U = z3.Function(f"{name}.U", L.Node, L.Node, L.B)
    d = VNx(True, lambda x: N(x), lambda a, b: D(a, b), owned=False, gattrs={"no_set_latent": VBool(True)})
    u = VNx(False, lambda x: N(x), lambda a, b: U(a, b), owned=False, gattrs={"no_set_latent": VBool(True)})
    g = VGraph(d, u, owned=False)
    wf = [
        L.forall(2, lambda a, b: L.Implies(D(a, b), L.And(N(a), N(b)))),
        L.forall(2, lambda a, b: L.Implies(U(a, b), L.And(N(a), N(b)))),
        L.forall(2, lambda a, b: U(a, b) == U(b, a)),
        L.forall(1, lambda a: L.Not(L.is_intervention(a))) if False else L.forall(1, lambda a: L.Implies(N(a), L.Not(L.is_intervention(a)))),
    ]
    return g, wf, Probe(name, "graph", (N, D, U))


def sym_nodeset(L: Logic, name: str):
    S = z3.Function(f"{name}.S", L.Node, L.B)
    return VSet(lambda x: S(x), owned=False), [], Probe(name, "nodeset", (S,))


def sym_node(L: Logic, name: str):
    c = z3.Const(f"{name}.v", L.Node)
    return VNode(c), [], Probe(name, "node", (c,))


def sym_nx(L: Logic, name: str, directed=True):
    N = z3.Function(f"{name}.N", L.Node, L.B)
    E = z3.Function(f"{name}.E", L.Node, L.Node, L.B)
    g = VNx(directed, lambda x: N(x), lambda a, b: E(a, b), owned=False)
    wf = [L.forall(2, lambda a, b: L.Implies(E(a, b), L.And(N(a), N(b))))]
    if not directed:
        wf.append(L.forall(2, lambda a, b: E(a, b) == E(b, a)))
    return g, wf, Probe(name, "digraph" if directed else "ugraph", (N, E))


def sym_tagged_dag(L: Logic, name: str, tag="hidden"):
    """nx.DiGraph whose nodes may carry a boolean attribute `tag`"""
    N = z3.Function(f"{name}.N", L.Node, L.B)
    E = z3.Function(f"{name}.E", L.Node, L.Node, L.B)
    H = z3.Function(f"{name}.has_{tag}", L.Node, L.B)
    Vv = z3.Function(f"{name}.{tag}", L.Node, L.B)
    g = VNx(True, lambda x: N(x), lambda a, b: E(a, b), owned=False, nattrs={tag: (lambda x: H(x), lambda x: Vv(x))})
    wf = [L.forall(2, lambda a, b: L.Implies(E(a, b), L.And(N(a), N(b)))),
          L.forall(1, lambda a: L.Implies(H(a), N(a)))]
    return g, wf, Probe(name, "digraph", (N, E, {tag: (H, Vv)}))


def sym_pairs(L: Logic, name: str):
    R = z3.Function(f"{name}.R", L.Node, L.Node, L.B)
    return VSet(lambda a, b: R(a, b), arity=2, kind="list", owned=False), [], Probe(name, "pairs", (R,))


def sym_seq(L: Logic, name: str):
    M = z3.Function(f"{name}.mem", L.Node, L.B)
    lt = z3.Function(f"{name}.lt", L.Node, L.Node, L.B)
    wf = [
        L.forall(2, lambda a, b: L.Implies(lt(a, b), L.And(M(a), M(b)))),
        L.forall(1, lambda a: L.Not(lt(a, a))),
        L.forall(3, lambda a, b, c: L.Implies(L.And(lt(a, b), lt(b, c)), lt(a, c))),
        L.forall(2, lambda a, b: L.Implies(L.And(M(a), M(b)), L.Or(a == b, lt(a, b), lt(b, a)))),
    ]
    return VSeq(lambda x: M(x), lambda a, b: lt(a, b)), wf, Probe(name, "seq", (M, lt))


def sym_bool(L: Logic, name: str):
    c = z3.Const(f"{name}.b", L.B)
    return VBool(c), [], Probe(name, "bool", (c,))


def sym_optint(L: Logic, name: str):
    """int | None with the int non-negative (sizes / limits)"""
    raise OutOfSubset("optint inputs are expanded into variants by the contract")


def sym_expr(L: Logic, name: str):
    from .exprs import ExprTheory, VExpr
    if getattr(L, "E", None) is None:
        from .extract import Repo
        L.E = ExprTheory(L, _REPO[0])
    t = z3.Const(f"{name}.e", L.E.Expr)
    L.E.reg(t)
    return VExpr(t), [], Probe(name, "expr", (t,))


def sym_eseq(L: Logic, name: str):
    from .exprs import ExprTheory, VESeq
    if getattr(L, "E", None) is None:
        L.E = ExprTheory(L, _REPO[0])
    t = z3.Const(f"{name}.s", L.E.ESeq)
    L.E.regs(t)
    return VESeq(t), [], Probe(name, "eseq", (t,))


def sym_sigma(L: Logic, name: str):
    """dict[Variable, set[Variable]]"""
    Dm = z3.Function(f"{name}.dom", L.Node, L.B)
    Sg = z3.Function(f"{name}.val", L.Node, L.Node, L.B)
    return VDict(lambda t: Dm(t), lambda t: VSet(lambda x: Sg(t, x), owned=False), owned=False), [], Probe(name, "nodemap", (Dm, Sg))


def sym_family(L: Logic, name: str):
    """set[frozenset[Variable]] (e.g. worlds: a set of sets of interventions) as an indexed family"""
    idx = z3.Function(f"{name}.idx", L.Node, L.B)
    mem = z3.Function(f"{name}.mem", L.Node, L.Node, L.B)
    return VFam(lambda r: idx(r), lambda r, x: mem(r, x)), [], Probe(name, "family", (idx, mem))


_REPO = [None]

BUILDERS = {"family": sym_family, "tagged_dag": sym_tagged_dag, "nodemap": sym_sigma, "expr": sym_expr, "eseq": sym_eseq, "seq": sym_seq, "bool": sym_bool, "graph": sym_graph, "nodeset": sym_nodeset, "node": sym_node, "digraph": sym_nx,
            "ugraph": lambda L, n: sym_nx(L, n, directed=False), "pairs": sym_pairs}


# ------------------------------------------------------------------------------------------------ base class
class Contract:
    qual = ""
    props: list[str] = []
    params: dict[str, object] = {}      # name -> kind | tuple of kinds (variants) | ("const", value)
    allowed_raises: tuple = ()
    frame = "pure"
    theory = "exact"
    inline_only = False                # the contract is verified against the function, but callers keep reading the body (not modular)
    acyclic_inputs = ()

    # ---- variants of the input shapes
    def variants(self):
        out = [{}]
        for p, k in self.params.items():
            ks = k if isinstance(k, tuple) and k and k[0] != "const" else (k,)
            out = [dict(o, **{p: kk}) for o in out for kk in ks]
        return out

    def make_inputs(self, L: Logic, variant):
        env, wf, probes = {}, [], []
        for p, k in variant.items():
            if isinstance(k, tuple) and k[0] == "const":
                env[p] = k[1]
                continue
            if k == "none":
                env[p] = NONE
                continue
            if k == "omit":
                continue
            v, w, pr = BUILDERS[k](L, p)
            env[p] = v
            wf += w
            probes.append(pr)
        return env, wf, probes

    # ---- call-site adaptation: normalise actual arguments
    def adapt(self, ex, env):
        return types.SimpleNamespace(**env)

    def pre(self, ex, a):
        return []

    def raises(self, ex, a):
        return {}

    def spec(self, ex, a):
        return None

    def post(self, ex, a, res):
        sp = self.spec(ex, a)
        if sp is None:
            return {}
        return same_value(ex.L, res, sp)

    returns = None                     # "node": a contract stated by `post` only may be used at call sites through a havoc'd result

    def result(self, ex, a):
        sp = self.spec(ex, a)
        if sp is not None:
            return sp
        if self.returns == "node":
            # havoc + assume post.  Under iteration constants the result is a Skolem function of them and the guarantee is stated
            # for every iteration at once:  forall bs. pre(args) & not raises(args)  =>  post(args, F(bs))
            L = ex.L
            bs = list(ex.binders)
            nm = L.fresh_name("ret_" + self.qual.split(".")[-1])
            t = z3.Function(nm, *[b.sort() for b in bs], L.Node)(*bs) if bs else z3.Const(nm, L.Node)
            res = VNode(t)
            post = L.And(*self.post(ex, a, res).values())
            if not bs:
                ex.assume(post)
                return res
            pre = [c for _, c in self.pre(ex, a)]
            if getattr(self, "raises_exact", True):
                pre += [L.Not(c) for c in self.raises(ex, a).values()]
            L.add_axioms({nm}, [L.forall_c(bs, L.Implies(L.And(*pre), post))])
            return res
        raise OutOfSubset(f"contract of {self.qual} has no defining term for its result")


# ------------------------------------------------------------------------------------------------ comparing a result with its specification
def same_value(L: Logic, res, sp, prefix=""):
    """Clause name -> formula saying that the computed value `res` equals the specified value `sp`."""
    p = prefix
    if isinstance(sp, VGraph):
        if not isinstance(res, VGraph):
            return {p + "type": L.F()}
        return {
            p + "sync": L.eq_set(res.directed.N, res.undirected.N),
            p + "nodes": L.eq_set(res.directed.N, sp.directed.N),
            p + "di": L.eq_rel(res.directed.E, sp.directed.E),
            p + "bi": L.eq_rel(res.undirected.E, sp.undirected.E),
        }
    if isinstance(sp, VNx):
        if not isinstance(res, VNx):
            return {p + "type": L.F()}
        out = {p + "nodes": L.eq_set(res.N, sp.N), p + "edges": L.eq_rel(res.E, sp.E)}
        for tag, (h, v) in sp.nattrs.items():
            if tag not in res.nattrs:
                out[p + f"attr.{tag}"] = L.F()
            else:
                rh, rv = res.nattrs[tag]
                out[p + f"attr.{tag}"] = L.forall(1, lambda x: L.And(rh(x) == h(x), L.Implies(h(x), rv(x) == v(x))))
        return out
    if isinstance(sp, VSeq):
        if isinstance(res, VSet) and getattr(res, "seq_view", None) is not None:
            res = res.seq_view
        if not isinstance(res, VSeq):
            if isinstance(res, (VSet, VComp, VTuple)):
                return {p + "order": L.F()}
            return {p + "type": L.F()}
        return {
            p + "members": L.eq_set(res.mem, sp.mem),
            p + "order": L.forall(2, lambda a, b: L.Implies(L.And(sp.mem(a), sp.mem(b)), res.before(a, b) == sp.before(a, b))),
        }
    if isinstance(sp, VSet):
        if isinstance(res, (VSeq, VComp, VTuple, VNx)):
            from .symexec import Exec  # noqa
            r = None
            if isinstance(res, VSeq):
                r = VSet(res.mem)
            if r is None:
                return {p + "type": L.F()}
            res = r
        if not isinstance(res, VSet):
            return {p + "type": L.F()}
        if res.arity != sp.arity:
            return {p + "arity": L.F()}
        return {p + "set": L.forall(sp.arity, lambda *xs: res.has(*xs) == sp.has(*xs))}
    if isinstance(sp, VBool):
        if not isinstance(res, VBool):
            return {p + "type": L.F()}
        return {p + "value": res.t == sp.t}
    if isinstance(sp, VNode):
        if not isinstance(res, VNode):
            return {p + "type": L.F()}
        return {p + "value": res.t == sp.t}
    if isinstance(sp, VNone):
        return {p + "none": z3.BoolVal(isinstance(res, VNone))}
    if isinstance(sp, VFam):
        if not isinstance(res, VFam):
            return {p + "type": L.F()}
        eqs = lambda fa, a, fb, b: L.forall(1, lambda x: fa.mem(a, x) == fb.mem(b, x))
        return {
            p + "sub": L.forall(1, lambda r: L.Implies(res.idx(r), L.exists(1, lambda q: L.And(sp.idx(q), eqs(res, r, sp, q))))),
            p + "sup": L.forall(1, lambda q: L.Implies(sp.idx(q), L.exists(1, lambda r: L.And(res.idx(r), eqs(res, r, sp, q))))),
        }
    if isinstance(sp, VTuple):
        if not isinstance(res, VTuple) or len(res.items) != len(sp.items):
            return {p + "type": L.F()}
        out = {}
        for i, (a, b) in enumerate(zip(res.items, sp.items)):
            out.update(same_value(L, a, b, prefix=f"{p}{i}."))
        return out
    if isinstance(sp, VObj):
        if not isinstance(res, VObj) or res.cls is not sp.cls:
            return {p + "type": L.F()}
        out = {}
        for f, b in sp.fields.items():
            if f not in res.fields:
                out[p + f] = L.F()
            else:
                out.update(same_value(L, res.fields[f], b, prefix=f"{p}{f}."))
        return out
    raise OutOfSubset(f"cannot compare values of kind {type(sp).__name__}")


# ------------------------------------------------------------------------------------------------ spec-side helpers
def mk_graph(N, D, U, owned=True):
    d = VNx(True, N, D, owned=owned, gattrs={"no_set_latent": VBool(True)})
    u = VNx(False, N, lambda a, b: z3.Or(U(a, b), U(b, a)), owned=owned, gattrs={"no_set_latent": VBool(True)})
    return VGraph(d, u, owned=owned)


def as_nodes(ex, v) -> VSet:
    """`Variable | Iterable[Variable]` argument as a set."""
    if isinstance(v, VNode):
        return VSet(lambda x: x == v.t)
    return ex.as_set(v)
