"""Functional structural causal models (explicit exogenous noise shared across worlds) for counterfactual oracles: binary
observed variables, one private noise per node and one shared binary latent per bidirected edge, random response tables.
Probabilities of conjunctions of counterfactual events and interventional joints by exact enumeration.  Independent of y0's
algorithms: used by bounded parts and replays only."""
from __future__ import annotations

import itertools as itt
import random
from fractions import Fraction as Fr

import networkx as nx

from .concrete import y0mod


class FSCM:
    def __init__(self, nodes, directed, undirected, seed, ku=2):
        rng = random.Random(seed)
        g = nx.DiGraph()
        g.add_nodes_from(nodes)
        g.add_edges_from(directed)
        self.order = list(nx.topological_sort(g))
        self.exo = {}
        for v in self.order:
            self.exo[("u", v)] = ku
        for e in undirected:
            self.exo[("l", frozenset(e))] = 2
        self.probs = {}
        for k, card in self.exo.items():
            w = [rng.randint(1, 5) for _ in range(card)]
            tot = sum(w)
            self.probs[k] = [Fr(x, tot) for x in w]
        self.funcs = {}
        for v in self.order:
            pa = sorted(g.predecessors(v))
            ls = sorted([k for k in self.exo if k[0] == "l" and v in k[1]], key=str)
            ins = [range(2)] * len(pa) + [range(ku)] + [range(2)] * len(ls)
            self.funcs[v] = (pa, ls, {key: rng.randint(0, 1) for key in itt.product(*ins)})
        self.keys = list(self.exo)
        self._units = None
        self._jcache = {}

    def units(self):
        if self._units is None:
            out = []
            for us in itt.product(*[range(self.exo[k]) for k in self.keys]):
                p = Fr(1)
                for k, u in zip(self.keys, us):
                    p *= self.probs[k][u]
                out.append((dict(zip(self.keys, us)), p))
            self._units = out
        return self._units

    def solve(self, u, do):
        val = {}
        for v in self.order:
            if v in do:
                val[v] = do[v]
                continue
            pa, ls, table = self.funcs[v]
            val[v] = table[tuple(val[p] for p in pa) + (u[("u", v)],) + tuple(u[l] for l in ls)]
        return val

    def event_prob(self, event):
        """event: list of (variable name, {intervened name: value}, value)"""
        total = Fr(0)
        for u, p in self.units():
            cache = {}
            ok = True
            for name, do, value in event:
                key = tuple(sorted(do.items()))
                if key not in cache:
                    cache[key] = self.solve(u, do)
                if cache[key][name] != value:
                    ok = False
                    break
            if ok:
                total += p
        return total

    def joint(self, do):
        key = tuple(sorted(do.items()))
        if key not in self._jcache:
            out = {}
            for u, p in self.units():
                val = self.solve(u, do)
                t = tuple(val[v] for v in self.order)
                out[t] = out.get(t, 0) + p
            self._jcache[key] = out
        return self._jcache[key]

    def prob(self, assign, do):
        ix = {n: i for i, n in enumerate(self.order)}
        return sum(p for vals, p in self.joint(do).items() if all(vals[ix[k]] == v for k, v in assign.items()))


def sval(iv):
    return 1 if iv.star else 0


def event_of(ev):
    """y0 event dict (Variable | CounterfactualVariable -> Intervention) as oracle triples"""
    dsl = y0mod("y0.dsl")
    out = []
    for var, value in ev.items():
        do = {}
        if isinstance(var, dsl.CounterfactualVariable):
            do = {i.name: sval(i) for i in var.interventions}
        out.append((var.name, do, sval(value)))
    return out


class Undefined(Exception):
    pass


def ev_cf(e, env, bound, scm: FSCM):
    """Value of an ID* / IDC* style expression: every probability term is interventional (single world); a base variable takes
    its value from `env`; a subscript is the literal value of its mark unless its variable is bound by an enclosing Sum."""
    dsl = y0mod("y0.dsl")
    if isinstance(e, dsl.Probability):
        do = None
        ch, pa = {}, {}
        for group, target in ((e.children, ch), (e.parents, pa)):
            for v in group:
                ivs = {}
                if isinstance(v, dsl.CounterfactualVariable):
                    for i in v.interventions:
                        ivs[i.name] = env[i.name] if i.name in bound else sval(i)
                if do is None:
                    do = ivs
                elif do != ivs:
                    raise Undefined(f"term mixing worlds: {e}")
                target[v.name] = env[v.name]
        do = do or {}
        if any(k in do and do[k] != v for k, v in {**ch, **pa}.items()):
            return Fr(0)
        den = scm.prob(pa, do) if pa else Fr(1)
        if den == 0:
            raise Undefined("zero conditioning event")
        return scm.prob({**ch, **pa}, do) / den
    if isinstance(e, dsl.Sum):
        rs = sorted(r.name for r in e.ranges)
        return sum(ev_cf(e.expression, {**env, **dict(zip(rs, vals))}, bound | set(rs), scm) for vals in itt.product(range(2), repeat=len(rs)))
    if isinstance(e, dsl.Product):
        r = Fr(1)
        for x in e.expressions:
            r *= ev_cf(x, env, bound, scm)
        return r
    if isinstance(e, dsl.Fraction):
        d = ev_cf(e.denominator, env, bound, scm)
        if d == 0:
            raise Undefined("zero denominator")
        return ev_cf(e.numerator, env, bound, scm) / d
    if isinstance(e, dsl.One):
        return Fr(1)
    if isinstance(e, dsl.Zero):
        return Fr(0)
    raise TypeError(type(e))
