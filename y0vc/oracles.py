"""Independent reference oracles used by the bounded parts and for validating the contracts' specifications.
None of them calls the function it judges."""
from __future__ import annotations

import itertools
import random

import networkx as nx

from .concrete import y0mod


def names(n):
    return [f"V{i}" for i in range(n)]


def random_admg(rng: random.Random, n, p_d=0.4, p_u=0.3, acyclic=True, isolated_ok=True):
    """(nodes, directed, undirected) over V0..V{n-1}; acyclic unless told otherwise."""
    vs = names(n)
    order = vs[:]
    rng.shuffle(order)
    d = []
    for i in range(n):
        for j in range(n):
            if i == j:
                continue
            if acyclic and i > j:
                continue
            if rng.random() < (p_d if acyclic else p_d / 2):
                d.append((order[i], order[j]))
    u = [(order[i], order[j]) for i in range(n) for j in range(i + 1, n) if rng.random() < p_u]
    return vs, d, u


def all_admgs(n, acyclic=True):
    """Every (nodes, directed, undirected) on V0..V{n-1}; with acyclic=True the directed part is a DAG (any order)."""
    vs = names(n)
    pairs = [(a, b) for a in vs for b in vs if a != b]
    upairs = [(vs[i], vs[j]) for i in range(n) for j in range(i + 1, n)]
    for dm in range(1 << len(pairs)):
        d = [e for k, e in enumerate(pairs) if dm >> k & 1]
        if acyclic:
            g = nx.DiGraph(d)
            if any((b, a) in g.edges for a, b in d) or not nx.is_directed_acyclic_graph(g):
                continue
        for um in range(1 << len(upairs)):
            yield vs, d, [e for k, e in enumerate(upairs) if um >> k & 1]


def build(nodes, directed, undirected, rng: random.Random | None = None):
    """Real NxMixedGraph; with rng the insertion order of nodes and edges is shuffled."""
    dsl, graph = y0mod("y0.dsl"), y0mod("y0.graph")
    V = dsl.Variable
    nodes, directed, undirected = list(nodes), list(directed), list(undirected)
    if rng is not None:
        rng.shuffle(nodes)
        rng.shuffle(directed)
        rng.shuffle(undirected)
        undirected = [(b, a) if rng.random() < 0.5 else (a, b) for a, b in undirected]
    return graph.NxMixedGraph.from_edges(nodes=[V(x) for x in nodes], directed=[(V(a), V(b)) for a, b in directed],
                                         undirected=[(V(a), V(b)) for a, b in undirected])


def canonical_dag(nodes, directed, undirected):
    """The DAG with one fresh latent common parent per bidirected edge."""
    g = nx.DiGraph()
    g.add_nodes_from(nodes)
    g.add_edges_from(directed)
    for i, (a, b) in enumerate(undirected):
        l = f"_L{i}"
        g.add_edge(l, a)
        g.add_edge(l, b)
    return g


def d_separated(nodes, directed, undirected, a, b, cond) -> bool:
    """True d-separation of a and b given cond in the canonical DAG (networkx's own algorithm)."""
    return bool(nx.is_d_separator(canonical_dag(nodes, directed, undirected), {a}, {b}, set(cond)))


# ------------------------------------------------------------------------------------------------ textbook graphs
TEXTBOOK = {
    "napkin": (["W1", "W2", "X", "Y"], [("W1", "W2"), ("W2", "X"), ("X", "Y")], [("W1", "X"), ("W1", "Y")]),
    "frontdoor": (["X", "M", "Y"], [("X", "M"), ("M", "Y")], [("X", "Y")]),
    "backdoor": (["Z", "X", "Y"], [("Z", "X"), ("Z", "Y"), ("X", "Y")], []),
    "bow": (["X", "Y"], [("X", "Y")], [("X", "Y")]),
    "iv": (["Z", "X", "Y"], [("Z", "X"), ("X", "Y")], [("X", "Y")]),
    "verma": (["A", "B", "C", "D"], [("A", "B"), ("B", "C"), ("C", "D")], [("B", "D")]),
    "m": (["A", "B", "M", "X", "Y"], [("X", "Y")], [("A", "X"), ("A", "M"), ("B", "M"), ("B", "Y")]),
    "tikka_3a": (["X", "Z", "W", "Y"], [("X", "Z"), ("Z", "Y"), ("W", "Z")], [("X", "Y"), ("W", "Y")]),
    "shpitser_2e": (["X", "Z1", "Z2", "Y"], [("X", "Z1"), ("Z1", "Y"), ("Z2", "X"), ("Z2", "Z1"), ("Z2", "Y")], [("X", "Z2"), ("X", "Y"), ("Z2", "Y")]),
    "line7": (["A", "B", "C", "D"], [("A", "D"), ("B", "C"), ("C", "D")], [("A", "B"), ("B", "D")]),
    "double_frontdoor": (["X", "M1", "M2", "Y"], [("X", "M1"), ("M1", "M2"), ("M2", "Y")], [("X", "Y"), ("M1", "Y")]),
    "chain_conf": (["A", "B", "C", "D", "E"], [("A", "B"), ("B", "C"), ("C", "D"), ("D", "E")], [("A", "C"), ("B", "D"), ("C", "E")]),
    "seed_like_1": (["S1", "X", "Y", "W", "R"], [("S1", "X"), ("X", "Y"), ("S1", "Y"), ("W", "R"), ("R", "S1")], [("S1", "Y"), ("X", "W"), ("W", "Y")]),
    "district_late": (["X", "A", "Z1", "Z2", "B"], [("X", "A"), ("Z1", "Z2"), ("Z2", "B")], [("A", "B")]),
    "district_late_y": (["X", "A", "Z1", "Z2", "B", "Y"], [("X", "A"), ("Z1", "Z2"), ("Z2", "B"), ("A", "Y"), ("B", "Y")], [("A", "B")]),
    "isolated": (["X", "Y", "Z"], [("X", "Y")], []),
    "two_districts": (["X", "A", "B", "Y"], [("X", "A"), ("A", "Y"), ("X", "B"), ("B", "Y")], [("X", "Y"), ("A", "B")]),
}
