"""Concrete side of the contracts: turning finite models into real y0 objects, running the real function, and
evaluating the *same* contract text on the real outcome (DESIGN §2.4 "two interpretations", §2.6 replay, §2.7 bounded).

The contract is evaluated by building its formulas in finite exact mode (Logic(k)) with every input symbol and every
result symbol pinned to the concrete tables; the clause is then decided by z3 on a ground finite problem
(`unsat` of pins ∧ ¬clause  =>  clause holds).  Nothing here is used to *prove* anything: it replays counterexamples,
runs the bounded stand-in and cross-checks the engine against CPython.
"""
from __future__ import annotations

import importlib
import sys
import traceback

import z3

from .contract import BUILDERS, Contract
from .extract import SRC
from .logic import Logic
from .symexec import Exec, Frame
from .values import NONE, VBool, VFam, VGraph, VInt, VNode, VNone, VNx, VSeq, VSet, VTuple, OutOfSubset

_Y0 = {}


def y0mod(name):
    """Import a module of the repository under verification (the tree the VCs were generated from)."""
    if not _Y0:
        src = str(SRC)
        if sys.path[0] != src:
            sys.path.insert(0, src)
        import y0  # noqa
        if not y0.__file__.startswith(src):
            raise RuntimeError(f"y0 imported from {y0.__file__}, expected under {src}")
        _Y0["ok"] = True
    return importlib.import_module(name)


NAMES = ["A", "B", "C", "D", "E", "F", "G", "H"]


class World:
    """A finite universe of k nodes realised as y0 Variables whose printed order matches `order`."""
    def __init__(self, k, order=None, interventions=()):
        dsl = y0mod("y0.dsl")
        self.k = k
        order = list(order) if order is not None else list(range(k))
        rank = {n: r for r, n in enumerate(order)}
        self.objs = []
        for i in range(k):
            nm = f"V{rank[i]}"
            if i in interventions:
                self.objs.append(dsl.Intervention(name=nm, star=False))
            else:
                self.objs.append(dsl.Variable(nm))
        self.index = {o: i for i, o in enumerate(self.objs)}
        self.order = order
        self.interventions = set(interventions)

    def obj(self, i):
        return self.objs[i]

    def idx(self, o):
        if o in self.index:
            return self.index[o]
        raise KeyError(f"object {o!r} outside the finite universe")


def to_real(world: World, d):
    """decoded model entry -> real python argument"""
    graph = y0mod("y0.graph")
    kind = d["kind"]
    if kind == "graph":
        return graph.NxMixedGraph.from_edges(
            nodes=[world.obj(i) for i in d["nodes"]],
            directed=[(world.obj(i), world.obj(j)) for i, j in d["directed"]],
            undirected=[(world.obj(i), world.obj(j)) for i, j in d["undirected"]])
    if kind in ("digraph", "ugraph"):
        import networkx as nx
        g = nx.DiGraph() if kind == "digraph" else nx.Graph()
        g.add_nodes_from(world.obj(i) for i in d["nodes"])
        g.add_edges_from((world.obj(i), world.obj(j)) for i, j in d["edges"])
        for tag, (has, val) in (d.get("attrs") or {}).items():
            for i in has:
                g.nodes[world.obj(i)][tag] = i in val
        return g
    if kind == "nodeset":
        return {world.obj(i) for i in d["members"]}
    if kind == "node":
        return world.obj(d["index"])
    if kind == "nodemap":
        return {world.obj(int(i)): {world.obj(j) for j in js} for i, js in d["map"].items()}
    if kind == "seq":
        return [world.obj(i) for i in d["items"]]
    if kind == "pairs":
        return [(world.obj(i), world.obj(j)) for i, j in d["pairs"]]
    if kind == "bool":
        return d["value"]
    if kind == "optint":
        return d["value"]
    if kind == "none":
        return None
    raise ValueError(kind)


def describe(world: World, d):
    """human-readable form of a decoded input, for replay files and evidence samples"""
    nm = lambda i: str(world.obj(i))
    kind = d["kind"]
    if kind == "graph":
        return {"nodes": [nm(i) for i in d["nodes"]], "directed": [[nm(i), nm(j)] for i, j in d["directed"]],
                "undirected": [[nm(i), nm(j)] for i, j in d["undirected"]]}
    if kind in ("digraph", "ugraph"):
        out = {"nodes": [nm(i) for i in d["nodes"]], "edges": [[nm(i), nm(j)] for i, j in d["edges"]]}
        if d.get("attrs"):
            out["attrs"] = {t: {nm(i): (i in val) for i in has} for t, (has, val) in d["attrs"].items()}
        return out
    if kind == "nodeset":
        return sorted(nm(i) for i in d["members"])
    if kind == "node":
        return nm(d["index"])
    if kind == "nodemap":
        return {nm(int(i)): sorted(nm(j) for j in js) for i, js in d["map"].items()}
    if kind == "seq":
        return [nm(i) for i in d["items"]]
    if kind == "pairs":
        return [[nm(i), nm(j)] for i, j in d["pairs"]]
    return d.get("value")


# ------------------------------------------------------------------------------------------------ pinning
def _tab1(L, fn, members):
    U = L.universe
    return [fn(U[i]) == z3.BoolVal(i in members) for i in range(L.k)]


def _tab2(L, fn, pairs):
    U = L.universe
    ps = set(pairs)
    return [fn(U[i], U[j]) == z3.BoolVal((i, j) in ps) for i in range(L.k) for j in range(L.k)]


def pin_inputs(L: Logic, probes, data, world: World):
    """Hypotheses fixing every input symbol to the concrete tables."""
    hyps = []
    U = L.universe
    k = L.k
    hyps += _tab1(L, L.is_intervention, world.interventions)
    hyps += _tab1(L, L.is_cf, set())       # the finite worlds contain plain variables (and Intervention objects) only
    # ... so every object is its own base variable and its own plain variable, and nothing has subscripts
    hyps += [L.base(u) == u for u in U] + [L.plain(u) == u for u in U]
    hyps += [L.Not(L.ivs(a, b)) for a in U for b in U]
    rank = {n: r for r, n in enumerate(world.order)}
    hyps += [L.vlt(U[i], U[j]) == z3.BoolVal(rank[i] < rank[j]) for i in range(k) for j in range(k)]
    for p in probes:
        d = data[p.param]
        if p.kind == "graph":
            N, D, Ur = p.syms
            hyps += _tab1(L, N, set(d["nodes"]))
            hyps += _tab2(L, D, d["directed"])
            und = set(d["undirected"]) | {(j, i) for i, j in d["undirected"]}
            hyps += _tab2(L, Ur, und)
        elif p.kind in ("digraph", "ugraph"):
            N, E = p.syms[:2]
            hyps += _tab1(L, N, set(d["nodes"]))
            es = set(d["edges"])
            if p.kind == "ugraph":
                es |= {(j, i) for i, j in es}
            hyps += _tab2(L, E, es)
            if len(p.syms) > 2:
                for tag, (H, Vv) in p.syms[2].items():
                    has, val = (d.get("attrs") or {}).get(tag, ([], []))
                    hyps += _tab1(L, H, set(has))
                    hyps += _tab1(L, Vv, set(val))
        elif p.kind == "nodeset":
            hyps += _tab1(L, p.syms[0], set(d["members"]))
        elif p.kind == "node":
            hyps.append(p.syms[0] == U[d["index"]])
        elif p.kind == "nodemap":
            Dm, Sg = p.syms
            mp_ = {int(i): js for i, js in d["map"].items()}
            hyps += _tab1(L, Dm, set(mp_))
            hyps += _tab2(L, Sg, [(i, j) for i, js in mp_.items() for j in js])
        elif p.kind == "seq":
            M, lt = p.syms
            items = d["items"]
            hyps += _tab1(L, M, set(items))
            hyps += _tab2(L, lt, [(items[i], items[j]) for i in range(len(items)) for j in range(i + 1, len(items))])
        elif p.kind == "pairs":
            hyps += _tab2(L, p.syms[0], d["pairs"])
        elif p.kind == "bool":
            hyps.append(p.syms[0] == z3.BoolVal(bool(d["value"])))
        elif p.kind == "optint":
            isnone, val = p.syms
            hyps.append(isnone == z3.BoolVal(d["value"] is None))
            if d["value"] is not None:
                hyps.append(val == d["value"])
    return hyps


def _pred1(L, members):
    U = L.universe
    ms = sorted(members)
    return lambda x: L.Or(*[x == U[i] for i in ms])


def _pred2(L, pairs):
    U = L.universe
    ps = sorted(set(pairs))
    return lambda a, b: L.Or(*[L.And(a == U[i], b == U[j]) for i, j in ps])


_CTX = {}


def from_real(L: Logic, world: World, r, shape=None):
    """real python result -> symbolic value with concrete predicates.  `shape` is the spec value (guides the kind)."""
    v = _from_real(L, world, r, shape)
    if isinstance(r, (list, tuple, set, frozenset)) and not r:
        try:
            v.concrete_empty = True      # an empty container has no element arity: contracts stated by `post` only may look at this
        except Exception:
            pass
    return v


def _from_real(L: Logic, world: World, r, shape=None):
    graph = y0mod("y0.graph")
    dsl = y0mod("y0.dsl")
    import networkx as nx
    ix = world.idx
    if r is None:
        return NONE
    if isinstance(r, bool):
        return VBool(r)
    if isinstance(r, int):
        return VInt(r)
    if isinstance(r, graph.NxMixedGraph):
        dn = {ix(n) for n in r.directed.nodes()}
        un = {ix(n) for n in r.undirected.nodes()}
        de = [(ix(a), ix(b)) for a, b in r.directed.edges()]
        ue = [(ix(a), ix(b)) for a, b in r.undirected.edges()]
        ue = ue + [(b, a) for a, b in ue]
        d = VNx(True, _pred1(L, dn), _pred2(L, de), owned=True)
        u = VNx(False, _pred1(L, un), _pred2(L, ue), owned=True)
        return VGraph(d, u, owned=True)
    if isinstance(r, (nx.DiGraph, nx.Graph)):
        directed = r.is_directed()
        ns = {ix(n) for n in r.nodes()}
        es = [(ix(a), ix(b)) for a, b in r.edges()]
        if not directed:
            es = es + [(b, a) for a, b in es]
        tags = set()
        for n, dat in r.nodes(data=True):
            tags |= set(dat)
        nattrs = {}
        for t in tags:
            has = {ix(n) for n, dat in r.nodes(data=True) if t in dat}
            val = {ix(n) for n, dat in r.nodes(data=True) if dat.get(t) is True}
            nattrs[t] = (_pred1(L, has), _pred1(L, val))
        return VNx(directed, _pred1(L, ns), _pred2(L, es), owned=True, nattrs=nattrs)
    if isinstance(r, dsl.Variable):
        return VNode(L.universe[ix(r)])
    import dataclasses
    if dataclasses.is_dataclass(r) and not isinstance(r, type) and _CTX.get("repo") is not None:
        from .values import VObj
        cls = _CTX["repo"].resolve(f"{type(r).__module__}.{type(r).__name__}")
        fields = {}
        for f in dataclasses.fields(r):
            v = getattr(r, f.name)
            fields[f.name] = from_real(L, world, v, VSeq(None, None) if isinstance(v, tuple) else None)
        return VObj(cls, fields, owned=True)
    if isinstance(r, dict):
        from .values import VDict
        mp_ = {ix(k): {ix(x) for x in v} for k, v in r.items()}
        U = L.universe
        return VDict(_pred1(L, set(mp_)), lambda t: VSet(lambda x: L.Or(*[L.And(t == U[i], x == U[j]) for i, js in mp_.items() for j in js]), owned=False))
    if isinstance(r, (set, frozenset)) and r and all(isinstance(e, (set, frozenset)) for e in r):
        sets = [sorted(ix(e) for e in s) for s in r]
        return _family(L, sets)
    if isinstance(shape, VFam) and isinstance(r, (set, frozenset, list, tuple)):
        return _family(L, [sorted(ix(e) for e in s) for s in r])
    if isinstance(r, (set, frozenset)):
        if all(isinstance(e, tuple) for e in r) and r:
            return VSet(_pred2(L, [(ix(a), ix(b)) for a, b in r]), arity=2)
        return VSet(_pred1(L, {ix(e) for e in r}))
    if isinstance(r, (list, tuple)):
        if isinstance(shape, VSet) and shape.arity == 2 or (r and all(isinstance(e, tuple) and len(e) == 2 for e in r)):
            return VSet(_pred2(L, [(ix(a), ix(b)) for a, b in r]), arity=2, kind="list")
        if isinstance(shape, VTuple) and isinstance(r, tuple):
            return VTuple([from_real(L, world, x, s) for x, s in zip(r, shape.items)])
        if isinstance(r, tuple) and any(not isinstance(e, dsl.Variable) for e in r):
            return VTuple([from_real(L, world, x, None) for x in r])      # a heterogeneous result tuple
        if any(not isinstance(e, dsl.Variable) for e in r):
            raise OutOfSubset(f"cannot read back a sequence of {type(r[0]).__name__}")
        idxs = [ix(e) for e in r]
        if len(set(idxs)) != len(idxs):
            if isinstance(shape, VSeq):
                return VSet(_pred1(L, set(idxs)), kind="list")   # duplicates: cannot be a VSeq -> "order" clause fails
            return VSet(_pred1(L, set(idxs)), kind="list")
        pos = {n: p for p, n in enumerate(idxs)}
        U = L.universe
        before = lambda a, b: L.Or(*[L.And(a == U[i], b == U[j]) for i in idxs for j in idxs if pos[i] < pos[j]])
        return VSeq(_pred1(L, set(idxs)), before)
    raise OutOfSubset(f"cannot read back a result of type {type(r).__name__}")


def _family(L, sets):
    """family of node sets -> VFam indexed by each set's least element (empty member sets are not representable)."""
    U = L.universe
    reps = {}
    for s in sets:
        if not s:
            raise OutOfSubset("family with an empty member")
        reps[s[0]] = set(s)      # if two different sets share their least element, the later one wins: caught below
    if len(reps) != len({tuple(s) for s in sets}):
        # overlapping sets with the same least element: index by (set ordinal) is not available; fall back to
        # a choice of distinct representatives when possible
        reps = {}
        for s in sorted({tuple(s) for s in sets}):
            r = next((e for e in s if e not in reps), None)
            if r is None:
                raise OutOfSubset("family not representable by distinct representatives")
            reps[r] = set(s)
    idx = lambda r: L.Or(*[r == U[i] for i in sorted(reps)])
    mem = lambda r, x: L.Or(*[L.And(r == U[i], x == U[j]) for i in sorted(reps) for j in sorted(reps[i])])
    return VFam(idx, mem)


# ------------------------------------------------------------------------------------------------ running the real function
def call_real(qual: str, world: World, variant, data, recv_first=True):
    """Call the real function named by `qual` with arguments built from `data`.  Returns ('return', value) or
    ('raise', exception-type-name, text).  The receiver of a method is the first parameter of the contract."""
    mod, _, rest = qual.partition(".NxMixedGraph.") if ".NxMixedGraph." in qual else (None, None, None)
    args = {}
    for p, k in variant.items():
        if isinstance(k, tuple) and k[0] == "const":
            continue
        if k == "omit":
            continue
        if k == "none":
            args[p] = None
            continue
        args[p] = to_real(world, data[p])
    fn, bound = resolve_callable(qual)
    args = shape_iterables(qual, fn, bound, args, data)
    try:
        if bound == "method":
            names = list(args)
            recv = args.pop(names[0])
            res = getattr(recv, fn)(**args)
        elif bound == "classmethod":
            cls, name = fn
            res = getattr(cls, name)(**args)
        else:
            res = fn(**args)
        import types
        if isinstance(res, types.GeneratorType):
            res = list(res)
        return ("return", res)
    except Exception as e:   # the real function raised: the contract's `raises` clause decides whether that is allowed
        return ("raise", type(e).__name__, "".join(traceback.format_exception_only(type(e), e)).strip())


def _snap(v):
    """Structural snapshot of an argument / result (for frame and aliasing probes)."""
    import networkx as nx
    graph = y0mod("y0.graph")
    if isinstance(v, graph.NxMixedGraph):
        return ("mixed", frozenset(v.directed.nodes()), frozenset(v.undirected.nodes()), frozenset(v.directed.edges()),
                frozenset(frozenset(e) for e in v.undirected.edges()))
    if isinstance(v, (nx.Graph, nx.DiGraph)):
        es = frozenset(v.edges()) if v.is_directed() else frozenset(frozenset(e) for e in v.edges())
        return ("nx", frozenset(v.nodes()), es, tuple(sorted((str(n), tuple(sorted(d.items()))) for n, d in v.nodes(data=True))))
    if isinstance(v, (set, frozenset)):
        return ("set", frozenset(v))
    if isinstance(v, (list, tuple)):
        return ("seq", tuple(_snap(x) for x in v))
    if isinstance(v, dict):
        return ("dict", tuple(sorted((str(k), _snap(x)) for k, x in v.items())))
    return ("val", v if isinstance(v, (bool, int, str, type(None))) else str(v))


def _poke(v, fresh):
    """Write to a mutable value in place through its ordinary API; returns whether anything was written."""
    import networkx as nx
    graph = y0mod("y0.graph")
    if isinstance(v, graph.NxMixedGraph):
        anchor = next(iter(v.nodes()), None)
        v.add_node(fresh)
        if anchor is not None:
            v.add_directed_edge(anchor, fresh)
            v.add_undirected_edge(anchor, fresh)
        return True
    if isinstance(v, (nx.Graph, nx.DiGraph)):
        anchor = next(iter(v.nodes()), None)
        v.add_node(fresh)
        if anchor is not None:
            v.add_edge(anchor, fresh)
        return True
    if isinstance(v, set):
        v.add(fresh)
        return True
    if isinstance(v, list):
        v.append(fresh)
        return True
    if isinstance(v, tuple):
        return any([_poke(x, fresh) for x in v])
    return False


def frame_probe(qual: str, world: World, variant, data):
    """Frame of a pure function on the real code: (a) the arguments are structurally unchanged by the call; (b) the result shares no
    mutable state with an argument -- writing to the result leaves the arguments unchanged and writing to an argument leaves the
    result unchanged.  Returns None, or a description of what leaked."""
    dsl = y0mod("y0.dsl")

    def build():
        args = {}
        for p, k in variant.items():
            if (isinstance(k, tuple) and k[0] == "const") or k == "omit":
                continue
            args[p] = None if k == "none" else to_real(world, data[p])
        return args
    fn, bound = resolve_callable(qual)

    def invoke(args):
        a = dict(args)
        if bound == "method":
            names = list(a)
            recv = a.pop(names[0])
            return getattr(recv, fn)(**a)
        if bound == "classmethod":
            return getattr(fn[0], fn[1])(**a)
        return fn(**a)
    fresh = dsl.Variable("__fresh_probe_node__")
    for direction in ("result->args", "args->result"):
        args = build()
        before = {p: _snap(v) for p, v in args.items()}
        try:
            res = invoke(args)
            import types
            if isinstance(res, types.GeneratorType):
                res = list(res)
        except Exception:
            return None
        after = {p: _snap(v) for p, v in args.items()}
        for p in before:
            if before[p] != after[p]:
                return f"the call modified its argument `{p}`"
        if direction == "result->args":
            if _poke(res, fresh):
                now = {p: _snap(v) for p, v in args.items()}
                for p in before:
                    if before[p] != now[p]:
                        return f"the result shares mutable state with the argument `{p}`: writing to the result (adding node {fresh}) changed the argument"
        else:
            r0 = _snap(res)
            wrote = False
            for p, v in args.items():
                wrote |= _poke(v, fresh)
            if wrote and _snap(res) != r0:
                return "the result shares mutable state with an argument: writing to the argument changed a result obtained earlier"
    return None


def call_real_history(qual: str, world: World, variant, data, param, edge):
    """History probe (no hidden state): call the real function, add the directed edge `edge` (pair of universe indices) to the
    graph argument `param` *in place* through the public NxMixedGraph API, and call again on the same objects.  Returns the
    second outcome; the caller compares it with the outcome on a freshly built graph that has the edge from the start."""
    args = {}
    for p, k in variant.items():
        if (isinstance(k, tuple) and k[0] == "const") or k == "omit":
            continue
        args[p] = None if k == "none" else to_real(world, data[p])
    fn, bound = resolve_callable(qual)
    g = args[param]
    args = shape_iterables(qual, fn, bound, args, data)
    args[param] = g

    def once():
        a = dict(args)
        # one-shot iterators are consumed by the first call: rebuild them
        for p, v in list(a.items()):
            if p != param and hasattr(v, "__next__"):
                a[p] = iter(list(to_real(world, data[p])))
        try:
            if bound == "method":
                names = list(a)
                recv = a.pop(names[0])
                res = getattr(recv, fn)(**a)
            elif bound == "classmethod":
                res = getattr(fn[0], fn[1])(**a)
            else:
                res = fn(**a)
            import types
            if isinstance(res, types.GeneratorType):
                res = list(res)
            return ("return", res)
        except Exception as e:
            return ("raise", type(e).__name__, "".join(traceback.format_exception_only(type(e), e)).strip())
    first = once()
    g.add_directed_edge(world.obj(edge[0]), world.obj(edge[1]))
    return first, once()


def shape_iterables(qual, fn, bound, args, data):
    """A parameter annotated Iterable[...] may legally receive any iterable, including one-shot iterators; one annotated
    Collection / Sequence any re-iterable container.  The container kind is chosen deterministically from the case."""
    import hashlib
    import inspect
    try:
        if bound == "method":
            names = list(args)
            target = getattr(type(args[names[0]]), fn)
        elif bound == "classmethod":
            target = getattr(fn[0], fn[1])
        else:
            target = fn
        sig = inspect.signature(target)
    except Exception:
        return args
    h = int(hashlib.sha256(repr(sorted((k, repr(v)) for k, v in data.items())).encode()).hexdigest(), 16)
    out = dict(args)
    for p, v in args.items():
        if not isinstance(v, set) or p not in sig.parameters:
            continue
        ann = str(sig.parameters[p].annotation)
        if "Iterable" in ann:
            kinds = ["set", "list", "tuple", "frozenset", "iter", "gen"]
        elif "Collection" in ann or "Sequence" in ann:
            kinds = ["set", "list", "tuple", "frozenset"] if "Sequence" not in ann else ["list", "tuple"]
        else:
            continue
        kind = kinds[(h >> 3) % len(kinds)]
        items = sorted(v, key=str)
        if (h >> 11) % 2:
            items.reverse()
        out[p] = {"set": set, "list": list, "tuple": tuple, "frozenset": frozenset, "iter": lambda x: iter(list(x)),
                  "gen": lambda x: (e for e in list(x))}[kind](items)
    return out


def resolve_callable(qual):
    parts = qual.split(".")
    # find the longest importable module prefix
    for cut in range(len(parts) - 1, 0, -1):
        modname = ".".join(parts[:cut])
        try:
            m = y0mod(modname)
        except ModuleNotFoundError:
            continue
        rest = parts[cut:]
        if len(rest) == 1:
            return getattr(m, rest[0]), "function"
        cls = getattr(m, rest[0])
        raw = cls.__dict__.get(rest[1])
        if isinstance(raw, classmethod):
            return (cls, rest[1]), "classmethod"
        if isinstance(raw, staticmethod):
            return getattr(cls, rest[1]), "function"
        return rest[1], "method"
    raise KeyError(qual)


# ------------------------------------------------------------------------------------------------ evaluating the contract on a concrete outcome
def _decide(L, hyps, goal):
    s = z3.Solver()
    s.set("timeout", 20000)
    fs = list(hyps) + [L.Not(goal)]
    for a in L.relevant_axioms(fs):
        s.add(a)
    for f in fs:
        s.add(f)
    r = s.check()
    if r == z3.unsat:
        return True
    if r == z3.sat:
        return False
    return None


def eval_contract(repo, con: Contract, variant, data, world: World, outcome, registry):
    """Evaluate pre / raises / post of `con` on concrete inputs and the real outcome.

    Returns dict: pre (bool), clauses {name: True/False/None}, raise_allowed (bool|None), must_raise {exc: bool}."""
    L = Logic(world.k)
    env, wf, probes = con.make_inputs(L, variant)
    ex = Exec(repo, L, registry, allowed_raises=tuple(con.allowed_raises))
    ex.top_qual = con.qual
    ex.top_qual_inline_root = con.qual
    fi = repo.func(con.qual)
    ex.frames.append(Frame(fi, fi.module, {}, 0))
    a = con.adapt(ex, env)
    pins = pin_inputs(L, probes, data, world)
    out = {"clauses": {}, "pre": True, "raise_allowed": None, "must_raise": {}}
    pre = [c for _, c in con.pre(ex, a)]
    for f in wf + pre:
        v = _decide(L, pins, f)
        if v is not True:
            out["pre"] = False
    rconds = con.raises(ex, a)
    if not out["pre"]:
        return out
    if outcome[0] == "raise":
        from .symexec import exc_matches
        conds = [c for t, c in rconds.items() if exc_matches(outcome[1], t)]
        out["raise_allowed"] = bool(conds) and _decide(L, pins, L.Or(*conds)) is True
        return out
    if getattr(con, "raises_exact", True):
        # "raises exactly when": a normal return is only right where no raise condition holds.  A contract with raises_exact = False
        # only says when the function *may* raise (e.g. an early exit can return before the offending element is reached)
        for exc, cond in rconds.items():
            out["must_raise"][exc] = _decide(L, pins, L.Not(cond))     # True = correctly did not have to raise
    sp = None
    try:
        sp = con.spec(ex, a)
    except Exception:
        sp = None
    _CTX["repo"] = repo
    res = from_real(L, world, outcome[1], sp)
    clauses = con.post(ex, a, res)
    hyps = pins + list(ex.pc)
    for name, goal in clauses.items():
        out["clauses"][name] = _decide(L, hyps, goal)
    return out
