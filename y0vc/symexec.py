"""Symbolic executor = verification-condition generator over the real AST (DESIGN §2.3).

Path exploration is by re-execution with a decision prefix (no state cloning): every symbolic branch asks
`branch(cond)`, which consults the prefix; unexplored alternatives are scheduled.  Loop bodies and comprehension
bodies are explored in a nested exploration with a fresh element constant; a loop whose body only *adds* to
containers that it does not read is summarised by the foreach-additive rule
      acc_after = acc_before  ∪  ⋃_{x ∈ C, processed(x)} delta(x)
(side conditions checked by the generator: the body reads no container it mutates, rebinds no outer name,
removes nothing).  Early exits are handled by a first-exit element for ordered sources and by an arbitrary exiting
element for unordered sources (only when the body has no other effect).
"""
from __future__ import annotations

import ast
import os

import z3

from .extract import ClassInfo, FuncInfo, Repo
from .logic import Logic
from .exprs import VExpr, VESeq, VDist
from . import exprs
from .values import (freeze, NONE, OutOfSubset, V, VBool, VComp, VDict, VFam, VFunc, VGraph, VInt, VModule, VNode, VNone,
                     VNx, VObj, VOpaque, VPos, VSeq, VSet, VStr, VTuple, VFStr, VAttrs)

MAX_INLINE_DEPTH = 9
MAX_PATHS = 400


def hard_check(solver, ms):
    """solver.check() with a *hard* wall-clock limit: z3's own time-out is not honoured inside some preprocessing steps, so
    the check runs in a forked child that is killed when the limit expires.  Returns 'sat' | 'unsat' | 'unknown'."""
    import os
    import select
    import signal
    r, w = os.pipe()
    pid = os.fork()
    if pid == 0:
        try:
            os.close(r)
            res = solver.check()
            os.write(w, (b"u" if res == z3.unsat else (b"s" if res == z3.sat else b"?")))
        finally:
            os._exit(0)
    os.close(w)
    out = "unknown"
    try:
        ready, _, _ = select.select([r], [], [], ms / 1000.0 + 0.05)
        if ready:
            b = os.read(r, 1)
            out = {b"u": "unsat", b"s": "sat"}.get(b, "unknown")
        else:
            os.kill(pid, signal.SIGKILL)
    finally:
        os.close(r)
        try:
            os.waitpid(pid, 0)
        except ChildProcessError:
            pass
    return out


class PyRaise(Exception):
    def __init__(self, exc_type, site=""):
        self.exc_type, self.site = exc_type, site


class _Return(Exception):
    def __init__(self, value):
        self.value = value


class _Break(Exception):
    pass


class _Continue(Exception):
    pass


class Infeasible(Exception):
    pass


EXC_PARENTS = {
    "KeyError": "LookupError", "IndexError": "LookupError", "LookupError": "Exception",
    "ValueError": "Exception", "TypeError": "Exception", "RuntimeError": "Exception",
    "NotImplementedError": "RuntimeError", "StopIteration": "Exception", "AttributeError": "Exception",
    "NetworkXError": "Exception", "NetworkXUnfeasible": "NetworkXError", "NodeNotFound": "NetworkXError",
    "NetworkXPointlessConcept": "NetworkXError", "NetworkXNoPath": "NetworkXUnfeasible",
    "Unidentifiable": "Exception", "ZeroDivisionError": "ArithmeticError", "ArithmeticError": "Exception",
    "AssertionError": "Exception", "Exception": "BaseException",
}


def exc_matches(raised: str, handler: str) -> bool:
    t = raised
    while t:
        if t == handler:
            return True
        t = EXC_PARENTS.get(t)
    return False


class Frame:
    def __init__(self, func: FuncInfo | None, module, env, depth):
        self.func, self.module, self.env, self.depth = func, module, env, depth
        self.ordinals: dict[str, int] = {}


class Emitted:
    """One instance of an obligation on one path."""
    def __init__(self, oid, hyps, goal, note=""):
        self.oid, self.hyps, self.goal, self.note = oid, hyps, goal, note


class Exec:
    def __init__(self, repo: Repo, L: Logic, registry, allowed_raises=(), prune=True):
        self.repo, self.L, self.registry = repo, L, registry
        self.pc: list = []
        self.emitted: list[Emitted] = []
        self.frames: list[Frame] = []
        self.prefix: list[int] = []
        self.pos = 0
        self.trace: list[tuple[int, int]] = []
        self.allowed_raises = tuple(allowed_raises)
        self.try_stack: list[list[str]] = []
        self.prune = prune
        self.used_funcs: dict[str, str] = {}       # qualname -> sha of every function body executed
        self.used_contracts: set[str] = set()
        self.used_lib: set[str] = set()
        self.assumption_notes: set[str] = set()
        self.top_qual = ""
        self._pruner = None
        self.npaths = 0
        self._dup = False
        self._closure_tries: dict = {}
        self.binders: list = []      # iteration constants of the enclosing comprehensions / loop bodies
        from . import libspec
        self.lib = libspec

    # ================================================================ exploration
    def explore(self, thunk, base_pc=None):
        """Run thunk under every decision prefix. Returns list of (kind, pc, payload)."""
        results = []
        stack = [[]]
        saved = (self.prefix, self.pos, self.trace, self.pc, self._dup)
        self._dup = self._dup or self.pos < len(self.prefix)
        base = list(base_pc if base_pc is not None else self.pc)
        try:
            while stack:
                prefix = stack.pop()
                self.prefix, self.pos, self.trace = prefix, 0, []
                self.pc = list(base)
                self.npaths += 1
                if self.npaths > MAX_PATHS:
                    raise OutOfSubset("path explosion")
                try:
                    v = thunk()
                    results.append(("return", list(self.pc), v))
                except _Return as r:
                    results.append(("return", list(self.pc), r.value))
                except _Break:
                    results.append(("break", list(self.pc), None))
                except _Continue:
                    results.append(("continue", list(self.pc), None))
                except PyRaise as e:
                    results.append(("raise", list(self.pc), e))
                except Infeasible:
                    pass
                for i in range(len(prefix), len(self.trace)):
                    d, n = self.trace[i]
                    for alt in range(d + 1, n):
                        stack.append([t[0] for t in self.trace[:i]] + [alt])
        finally:
            self.prefix, self.pos, self.trace, self.pc, self._dup = saved
        return results

    def _decide(self, n):
        if self.pos < len(self.prefix):
            d = self.prefix[self.pos]
        else:
            d = 0
        self.trace.append((d, n))
        self.pos += 1
        return d

    def feasible(self, cond):
        """Cheap infeasibility filter (sound: only answers False on a definite unsat)."""
        if not self.prune:
            return True
        s = z3.Solver()
        s.set("timeout", 150)
        s.set("rlimit", 400000)      # z3's time-out is not honoured inside some preprocessing steps; the resource limit is
        fs = list(self.pc) + [cond]
        for a in self.L.relevant_axioms(fs):
            s.add(a)
        for p in fs:
            s.add(p)
        return hard_check(s, int(os.environ.get("Y0VC_FEAS_MS", "150"))) != "unsat"

    def branch(self, cond) -> bool:
        cond = z3.simplify(cond)
        if z3.is_true(cond):
            return True
        if z3.is_false(cond):
            return False
        L = self.L
        d = self._decide(2)
        c = cond if d == 0 else L.Not(cond)
        if self.pos >= len(self.prefix):
            # decisions strictly inside the prefix were found feasible when they were first taken; only the flipped
            # last decision of the prefix and fresh decisions are checked
            if not self.feasible(c):
                raise Infeasible()
        self.pc.append(c)
        return d == 0

    def choose(self, n):
        return self._decide(n)

    def closure(self, E, name="rtc"):
        """Reflexive-transitive closure of E.  If a closure of a relation that is provably (under the current path
        condition) the same relation already exists, that symbol is reused: equal relations have equal closures.
        This keeps the number of closure symbols -- and of pairwise simulation lemmas -- small."""
        L = self.L
        if L.k is None:
            x, y = L.node("cx"), L.node("cy")
            e = E(x, y)
            from .logic import symbols_of
            live = set()
            for f in self.pc:
                live |= symbols_of(f)
            esyms = symbols_of(e)
            for nm, R, C in L.closures:
                r = R(x, y)
                # closures created on other explored paths are not part of this path's state; a relation over disjoint
                # symbols cannot be provably the same
                rs = symbols_of(r)
                if nm not in live and not (rs & esyms):
                    continue
                if self._closure_tries.get(nm, 0) >= 6:
                    continue
                if z3.eq(z3.simplify(r), z3.simplify(e)):
                    return C
                s = z3.Solver()
                s.set("timeout", 300)
                s.set("rlimit", 800000)
                fs = list(self.pc) + [r != e]
                for a in L.relevant_axioms(fs):
                    s.add(a)
                for f in fs:
                    s.add(f)
                self._closure_tries[nm] = self._closure_tries.get(nm, 0) + 1
                if hard_check(s, 250) == "unsat":
                    return C
        return self.lib.closure(self, E, name)

    def define(self, arity, fn, hint="def"):
        """A fresh predicate symbol defined to be `fn` (closed over the enclosing iteration constants).  Naming the
        intermediate sets keeps the verification conditions small: the solver sees atoms, not unfolded formulas."""
        L = self.L
        bs = list(self.binders)
        nm = L.fresh_name(hint)
        F = z3.Function(nm, *([L.Node] * (len(bs) + arity)), L.B)
        xs = [L.node("d") for _ in range(arity)]
        rhs = fn(*xs)
        body = F(*bs, *xs) == rhs
        L.add_axioms({nm}, [L.forall_c(bs + xs, body)])
        L.defs[nm] = (bs + xs, rhs)
        return lambda *ys: F(*bs, *ys)

    def name_value(self, v, hint="r"):
        """Result of a callee used through its contract: fresh symbols constrained by the postcondition."""
        if self.L.k is not None:
            return v          # finite exact mode expands everything anyway
        if isinstance(v, VSet) and not hasattr(v, "nx_view"):
            r = VSet(self.define(v.arity, v.pred, hint), arity=v.arity, kind=v.kind, owned=v.owned)
            for k in ("seq_view", "known_empty"):
                if hasattr(v, k):
                    setattr(r, k, getattr(v, k))
            return r
        if isinstance(v, VNx):
            return VNx(v.directed, self.define(1, v.curN, hint + ".N"), self.define(2, v.curE, hint + ".E"), owned=v.owned,
                       nattrs=v.nattrs, gattrs=v.gattrs)
        if isinstance(v, VGraph):
            return VGraph(self.name_value(v.directed, hint + ".d"), self.name_value(v.undirected, hint + ".u"), owned=v.owned)
        if isinstance(v, VFam):
            return VFam(self.define(1, v.idx, hint + ".idx"), self.define(2, v.mem, hint + ".mem"))
        return v

    def assume(self, cond):
        if not z3.is_true(cond):
            self.pc.append(cond)

    # ================================================================ obligations
    def emit(self, kind, goal, note="", hyps=None):
        """Obligation instance `pc |- goal` under the id <top function>/<kind>.  `hyps`: use these hypotheses instead of the path
        condition (a cut that holds independently of the path is proved once from the entry hypotheses)."""
        goal = goal if not isinstance(goal, bool) else z3.BoolVal(goal)
        if self._dup or self.pos < len(self.prefix):
            return False     # this part of the run re-executes a prefix already explored: the obligation was emitted then
        self.emitted.append(Emitted(f"{self.top_qual}/{kind}", list(self.pc if hyps is None else hyps), goal, note))
        return True

    def require(self, cond, exc_type, what):
        """A library / constructor precondition whose violation raises `exc_type`.

        If the exception could be caught by an enclosing try, or the function's contract allows it, fork;
        otherwise emit `raise.<exc_type>@<what>` (the raise must be unreachable) and continue under cond."""
        cond = z3.simplify(cond) if not isinstance(cond, bool) else z3.BoolVal(cond)
        if z3.is_true(cond):
            return
        catchable = any(exc_matches(exc_type, h) for hs in self.try_stack for h in hs) or any(
            exc_matches(exc_type, a) for a in self.allowed_raises)
        if catchable:
            if not self.branch(cond):
                raise PyRaise(exc_type, what)
        else:
            f = self.frames[-1]
            k = f.ordinals.get("req:" + what, 0) + 1
            f.ordinals["req:" + what] = k
            self.emit(f"raise.{exc_type}@{what}", cond, note=f"in {f.func.qualname if f.func else '?'}")
            self.assume(cond)

    # ================================================================ conversions
    def truthy(self, v):
        L = self.L
        if isinstance(v, VBool):
            return v.t
        if isinstance(v, VNone):
            return L.F()
        if isinstance(v, VSet):
            return L.exists(v.arity, lambda *xs: v.has(*xs))
        if isinstance(v, VSeq):
            return L.exists(1, lambda x: v.mem(x))
        if isinstance(v, VNx):
            return L.exists(1, lambda x: v.N(x))
        if isinstance(v, VGraph):
            return L.exists(1, lambda x: v.directed.N(x))          # NxMixedGraph.__len__ counts the nodes
        if isinstance(v, VObj) and isinstance(v.cls, ClassInfo):
            # Python's truth protocol: __bool__, else __len__, else True
            m = self.repo.find_method(v.cls, "__bool__")
            if m is not None:
                return self.truthy(self.call_y0(m, [], {}, self_val=v))
            if self.repo.find_method(v.cls, "__len__") is not None:
                raise OutOfSubset(f"truthiness of {v.cls.name} through __len__")
            return L.T()
        if isinstance(v, (VNode, VObj, VFunc, VExpr, VDist)):
            return L.T()
        if isinstance(v, VESeq):
            return L.Not(exprs.theory(self).is_nil(v.t))
        if isinstance(v, VInt):
            return v.t != 0
        if isinstance(v, VStr):
            return z3.BoolVal(bool(v.s))
        if isinstance(v, VTuple):
            return z3.BoolVal(bool(v.items))
        if isinstance(v, VComp):
            alts = self.comp_alts(v)
            return L.Or(*[L.exists_c(c, g) for c, g, _ in alts])
        if isinstance(v, VFam):
            return L.exists(1, lambda r: v.idx(r))
        if isinstance(v, VDict):
            return L.exists(1, lambda x: v.dom(x))
        raise OutOfSubset(f"truthiness of {type(v).__name__}")

    def comp_alts(self, v):
        """Iteration view of a collection: list of (consts, guard, elt) alternatives."""
        L = self.L
        v = freeze(v)
        if isinstance(v, VComp):
            if getattr(v, "gen_clock", None) is not None and v.gen_clock != getattr(self, "mut_clock", 0):
                # a generator function's body runs lazily in Python; it was read eagerly here, which is only the same thing if
                # nothing was written between its creation and its consumption
                raise OutOfSubset("generator consumed after a container write (lazy evaluation not modelled)")
            return v.alts
        if isinstance(v, VSet) and v.kind == "upairs":
            # a set of unordered pairs: one element per pair, as a frozenset {x, y}
            x, y = L.node("it"), L.node("it")
            pr = v.pred
            ori = self.lib.param_pred(self, "pairori", 2, [
                lambda o: L.forall(2, lambda a, b: L.Implies(o(a, b), pr(a, b))),
                lambda o: L.forall(2, lambda a, b: L.Implies(pr(a, b), L.Or(o(a, b), o(b, a)))),
                lambda o: L.forall(2, lambda a, b: L.Implies(L.And(o(a, b), o(b, a)), a == b))])
            return [([x, y], ori(x, y), self.lib.VUPair(x, y))]
        if isinstance(v, VSet):
            if getattr(v, "known_empty", False) and not v.tracked:
                return []
            xs = [L.node("it") for _ in range(v.arity)]
            elt = VNode(xs[0]) if v.arity == 1 else VTuple([VNode(x) for x in xs])
            return [(xs, v.has(*xs), elt)]
        if isinstance(v, VSeq):
            x = L.node("it")
            return [([x], v.mem(x), VNode(x))]
        if isinstance(v, VTuple):
            return [([], L.T(), it) for it in v.items]
        if isinstance(v, VNx):
            x = L.node("it")
            return [([x], v.N(x), VNode(x))]
        if isinstance(v, VGraph):
            return self.comp_alts(v.directed)
        if isinstance(v, VFam):
            r = L.node("r")
            return [([r], v.idx(r), VSet(lambda x, r=r: v.mem(r, x), kind="frozenset", owned=False))]
        if isinstance(v, VDict):
            x = L.node("k")
            return [([x], v.dom(x), VNode(x))]
        raise OutOfSubset(f"iteration over {type(v).__name__}")

    def as_set(self, v, arity=None) -> VSet:
        """Materialise a collection of nodes / node tuples as a predicate."""
        L = self.L
        v = freeze(v)
        if isinstance(v, VSet):
            return v
        if isinstance(v, VSeq):
            return VSet(v.mem, owned=False)
        if isinstance(v, VNx):
            return VSet(lambda x: v.N(x), owned=False)
        if isinstance(v, VGraph):
            return self.as_set(v.directed)
        if isinstance(v, VDict):
            return VSet(v.dom, owned=False)
        if isinstance(v, (VComp, VTuple)):
            alts = self.comp_alts(v)
            if not alts:
                return VSet(lambda *xs: L.F(), arity=arity or 1)
            ar = None
            for _, _, e in alts:
                a = 1 if isinstance(e, VNode) else (len(e.items) if isinstance(e, VTuple) and all(
                    isinstance(i, VNode) for i in e.items) else None)
                if a is None:
                    raise OutOfSubset(f"collection of {type(e).__name__} used as a node set")
                ar = a if ar is None else ar
                if ar != a:
                    raise OutOfSubset("mixed arities")

            def pred(*ys, alts=alts):
                parts = []
                for consts, g, e in alts:
                    ts = [e.t] if isinstance(e, VNode) else [i.t for i in e.items]
                    parts.append(L.exists_c(consts, L.And(g, *[y == t for y, t in zip(ys, ts)])))
                return L.Or(*parts)
            return VSet(pred, arity=ar, kind="list" if isinstance(v, VTuple) or v.kind == "list" else "set")
        raise OutOfSubset(f"{type(v).__name__} used as a set")

    def union_of(self, v) -> VSet:
        """chain.from_iterable / set().union(*...) of a collection of node collections."""
        L = self.L
        alts = self.comp_alts(v)
        sets = [(c, g, self.as_set(e)) for c, g, e in alts]
        ar = sets[0][2].arity if sets else 1
        return VSet(lambda *ys: L.Or(*[L.exists_c(c, L.And(g, s.has(*ys))) for c, g, s in sets]), arity=ar)

    # ================================================================ function calls
    def call_y0(self, fi: FuncInfo, args, kwargs, self_val=None, site=None):
        """Call a y0 function: through its contract when it has one (modular), else inline."""
        if fi.is_generator and False:
            raise OutOfSubset("generator function")
        allargs = ([self_val] if self_val is not None else []) + list(args)
        con = self.registry.get(fi.qualname) if self.registry else None
        if con is not None and getattr(con, "inline_only", False) and fi.qualname != self.top_qual_inline_root:
            con = None          # this contract pins the function itself; callers keep reading its body
        if con is not None and fi.qualname != self.top_qual_inline_root:
            return self.call_contract(fi, con, allargs, kwargs)
        if fi.qualname == self.top_qual_inline_root and len(self.frames) > 0 and con is not None:
            # recursion: through the function's own contract
            return self.call_contract(fi, con, allargs, kwargs)
        return self.inline(fi, allargs, kwargs)

    top_qual_inline_root = ""

    def bind_params(self, fi: FuncInfo, allargs, kwargs):
        env = {}
        params = list(fi.params)
        if len(allargs) > len(params) and not fi.vararg:
            raise OutOfSubset(f"too many positional arguments for {fi.qualname}")
        for p, a in zip(params, allargs):
            env[p] = a
        if fi.vararg:
            env[fi.vararg] = VTuple(allargs[len(params):])
        extra = {}
        for k, v in kwargs.items():
            if k in params or k in fi.kwonly:
                env[k] = v
            elif fi.kwarg:
                extra[k] = v
            else:
                raise OutOfSubset(f"unexpected keyword {k} for {fi.qualname}")
        if fi.kwarg:
            env[fi.kwarg] = VObj("dict", extra)
        return env

    def inline(self, fi: FuncInfo, allargs, kwargs):
        if getattr(fi, "unmodelled_decorators", None):
            raise OutOfSubset(f"{fi.qualname} is wrapped by decorator(s) {fi.unmodelled_decorators} that the extraction does not interpret")
        if len(self.frames) >= MAX_INLINE_DEPTH:
            raise OutOfSubset(f"inline depth exceeded at {fi.qualname}")
        if any(f.func is fi for f in self.frames):
            raise OutOfSubset(f"recursion without a contract: {fi.qualname}")
        self.used_funcs[fi.qualname] = fi.sha
        env = self.bind_params(fi, allargs, kwargs)
        fr = Frame(fi, fi.module, env, len(self.frames))
        self.frames.append(fr)
        try:
            for p in fi.params + fi.kwonly:
                if p not in env:
                    if p in fi.defaults:
                        env[p] = self.ev(fi.defaults[p])
                    else:
                        raise OutOfSubset(f"missing argument {p} for {fi.qualname}")
            if fi.is_generator:
                return self.run_generator(fi)
            try:
                self.run_body(fi.node.body)
            except _Return as r:
                return r.value
            return NONE
        finally:
            self.frames.pop()

    def run_generator(self, fi):
        """Generator functions of the shape `yield from <iterable>` / a single for loop of yields are read as the
        collection of the yielded values."""
        body = [s for s in fi.node.body if not (isinstance(s, ast.Expr) and isinstance(s.value, ast.Constant))]
        if len(body) == 1 and isinstance(body[0], ast.Expr) and isinstance(body[0].value, ast.YieldFrom):
            return self.ev(body[0].value.value)
        # straight-line prelude (no yields), then one loop `for t in it: [if c:] yield e`  ==  (e for t in it [if c]).
        # The collection is read eagerly here; a consumer that mutates what the generator reads *while* iterating it would
        # observe Python's lazy evaluation -- such consumers are outside the subset (loops over a generator whose body writes
        # to a container the generator read are rejected by the loop's read/write check on the materialised source).
        *prelude, last = body
        if isinstance(last, ast.For) and not last.orelse and not any(
                isinstance(n, (ast.Yield, ast.YieldFrom)) for s in prelude for n in ast.walk(s)):
            leaves = []      # (list of guard expressions, yielded expression)

            def walk(stmts, guards):
                if len(stmts) > 1 and isinstance(stmts[0], ast.If) and not stmts[0].orelse and len(stmts[0].body) == 1 \
                        and isinstance(stmts[0].body[0], ast.Continue):
                    # `if c: continue` followed by the rest  ==  the rest under `not c`
                    walk(stmts[1:], guards + [ast.UnaryOp(op=ast.Not(), operand=stmts[0].test)])
                    return
                if len(stmts) == 1 and isinstance(stmts[0], ast.If):
                    st = stmts[0]
                    walk(st.body, guards + [st.test])
                    if st.orelse:
                        walk(st.orelse, guards + [ast.UnaryOp(op=ast.Not(), operand=st.test)])
                    return
                if len(stmts) == 1 and isinstance(stmts[0], ast.Expr) and isinstance(stmts[0].value, ast.Yield) \
                        and stmts[0].value.value is not None:
                    leaves.append((guards, stmts[0].value.value))
                    return
                if len(stmts) == 1 and isinstance(stmts[0], ast.Pass):
                    return
                raise OutOfSubset(f"generator shape in {fi.qualname}")
            walk(last.body, [])
            self.run_body(prelude)
            alts = []
            for guards, elt in leaves:
                gexp = ast.GeneratorExp(elt=elt, generators=[
                    ast.comprehension(target=last.target, iter=last.iter, ifs=list(guards), is_async=0)])
                ast.copy_location(gexp, last)
                ast.fix_missing_locations(gexp)
                r = self.ev(gexp)
                if not isinstance(r, VComp) or getattr(r, "alts", None) is None:
                    raise OutOfSubset(f"generator shape in {fi.qualname} (element kind)")
                alts += list(r.alts)
            out = VComp(None, None, None, kind="gen")
            out.alts = alts
            out.gen_clock = getattr(self, "mut_clock", 0)
            return out
        raise OutOfSubset(f"generator shape in {fi.qualname}")

    def call_contract(self, fi, con, allargs, kwargs):
        """Modular use of a callee: assert pre, assume post / use the defining term."""
        L = self.L
        self.used_contracts.add(fi.qualname)
        env = self.bind_params(fi, allargs, kwargs)
        for p in fi.params + fi.kwonly:
            if p not in env:
                if p in fi.defaults:
                    fr = Frame(fi, fi.module, {}, len(self.frames))
                    self.frames.append(fr)
                    try:
                        env[p] = self.ev(fi.defaults[p])
                    finally:
                        self.frames.pop()
                else:
                    raise OutOfSubset(f"missing argument {p} for {fi.qualname}")
        f = self.frames[-1]
        short = fi.qualname.split(".")[-1]
        k = f.ordinals.get("call:" + short, 0) + 1
        f.ordinals["call:" + short] = k
        if con.frame == "pure":
            env = {p: (freeze(v) if isinstance(v, V) else v) for p, v in env.items()}
        a = con.adapt(self, env)
        for name, cond in con.pre(self, a):
            self.emit(f"pre.{name}@{short}#{k}", cond, note=f"in {f.func.qualname if f.func else '?'}")
            self.assume(cond)
        top_con = self.registry.get(self.top_qual) if self.registry else None
        if top_con is not None and hasattr(top_con, "audit") and getattr(self, "top_args", None) is not None:
            # obligations the function under verification attaches to its calls (e.g. C06: what may enter a term it builds)
            for name, cond in top_con.audit(self, fi.qualname, a, self.top_args):
                self.emit(f"audit.{name}@{short}#{k}", cond, note=f"in {f.func.qualname if f.func else '?'}")
        if fi.qualname == self.top_qual_inline_root and hasattr(con, "decreases") and getattr(self, "top_args", None) is not None:
            # a recursive call: the contract's variant must strictly decrease in a well-founded order (termination)
            self.emit(f"decreases@{short}#{k}", con.decreases(self, self.top_args, a), note=f"in {f.func.qualname if f.func else '?'}")
        exact = getattr(con, "raises_exact", True)
        for exc, cond in con.raises(self, a).items():
            if exact:
                self.require(L.Not(cond), exc, f"{short}#{k}")      # raises exactly when cond holds
            else:
                # the callee *may* raise exc when cond holds (and never otherwise): nondeterministic choice
                cond = z3.simplify(cond) if not isinstance(cond, bool) else z3.BoolVal(cond)
                if z3.is_false(cond):
                    continue
                catchable = any(exc_matches(exc, h) for hs in self.try_stack for h in hs) or any(
                    exc_matches(exc, al) for al in self.allowed_raises)
                if not catchable:
                    self.emit(f"raise.{exc}@{short}#{k}", L.Not(cond), note=f"in {f.func.qualname if f.func else '?'}")
                    self.assume(L.Not(cond))
                elif self.choose(2) == 1:
                    if not self.feasible(cond):
                        raise Infeasible()
                    self.assume(cond)
                    raise PyRaise(exc, f"{short}#{k}")
        return self.name_value(con.result(self, a), short)

    # ================================================================ statements
    def run_body(self, body):
        for st in body:
            self.stmt(st)

    def env_lookup(self, name):
        fr = self.frames[-1]
        e = fr.env
        while e is not None:
            if name in e:
                return e[name]
            e = e.get("__parent__") if isinstance(e, dict) else None
        return self.global_lookup(fr.module, name)

    def global_lookup(self, module, name):
        if module is not None:
            if name in module.funcs:
                return VFunc("y0", module.funcs[name])
            if name in module.classes:
                return VFunc("class", module.classes[name])
            if name in module.consts:
                fr = Frame(None, module, {}, len(self.frames))
                self.frames.append(fr)
                try:
                    return self.ev(module.consts[name])
                finally:
                    self.frames.pop()
            if name in module.imports:
                q = module.imports[name]
                r = self.repo.resolve(q)
                if isinstance(r, FuncInfo):
                    return VFunc("y0", r)
                if isinstance(r, ClassInfo):
                    return VFunc("class", r)
                if isinstance(r, tuple) and r[0] == "const":
                    fr = Frame(None, r[1], {}, len(self.frames))
                    self.frames.append(fr)
                    try:
                        return self.ev(r[2])
                    finally:
                        self.frames.pop()
                if isinstance(r, tuple) and r[0] == "module":
                    return VModule(r[1])
                return VModule(q) if self.lib.is_lib_module_name(q) else VFunc("builtin", self.lib._norm_lib(q))
        if self.lib.is_builtin(name):
            return VFunc("builtin", name)
        raise OutOfSubset(f"unresolved name {name}")

    def assign(self, target, value):
        env = self.frames[-1].env
        if isinstance(target, ast.Name):
            env[target.id] = value
        elif isinstance(target, (ast.Tuple, ast.List)):
            items = self.unpack(value, len(target.elts))
            for t, v in zip(target.elts, items):
                self.assign(t, v)
        elif isinstance(target, ast.Attribute):
            obj = self.ev(target.value)
            self.lib.set_attr(self, obj, target.attr, value)
        elif isinstance(target, ast.Subscript):
            obj = self.ev(target.value)
            self.lib.set_item(self, obj, self.ev(target.slice), value)
        else:
            raise OutOfSubset(f"assignment target {type(target).__name__}")

    def unpack(self, value, n):
        if isinstance(value, VTuple):
            if len(value.items) != n:
                raise OutOfSubset("unpack arity")
            return value.items
        raise OutOfSubset(f"unpacking {type(value).__name__}")

    def stmt(self, st):
        L = self.L
        if isinstance(st, ast.Expr):
            if isinstance(st.value, ast.Constant):
                return
            if self._is_dropped_call(st.value):
                return
            self.ev(st.value)
            return
        if isinstance(st, ast.Assign):
            v = self.ev(st.value)
            for t in st.targets:
                self.assign(t, v)
            return
        if isinstance(st, ast.AnnAssign):
            if st.value is not None:
                self.assign(st.target, self.ev(st.value))
            return
        if isinstance(st, ast.AugAssign):
            cur = self.ev(st.target)
            rhs = self.ev(st.value)
            nv = self.lib.aug_assign(self, cur, st.op, rhs)
            if nv is not None:
                self.assign(st.target, nv)
            return
        if isinstance(st, ast.Return):
            raise _Return(self.ev(st.value) if st.value is not None else NONE)
        if isinstance(st, ast.Raise):
            raise PyRaise(self._exc_name(st.exc), f"line-ordinal")
        if isinstance(st, ast.If):
            if self.branch(self.truthy(self.ev(st.test))):
                self.run_body(st.body)
            else:
                self.run_body(st.orelse)
            return
        if isinstance(st, ast.For):
            self.for_loop(st)
            return
        if isinstance(st, ast.Try):
            self.try_stmt(st)
            return
        if isinstance(st, ast.Pass):
            return
        if isinstance(st, ast.Break):
            raise _Break()
        if isinstance(st, ast.Continue):
            raise _Continue()
        if isinstance(st, ast.Assert):
            c = self.truthy(self.ev(st.test))
            self.require(c, "AssertionError", "assert")
            return
        if isinstance(st, ast.FunctionDef):
            fi = FuncInfo(self.frames[-1].module, f"{self.frames[-1].func.qualname}.<locals>.{st.name}", st)
            self.frames[-1].env[st.name] = VFunc("closure", fi, extra=self.frames[-1].env)
            return
        if isinstance(st, (ast.Import, ast.ImportFrom)):
            for a in st.names:
                nm = a.asname or a.name
                self.frames[-1].env[nm] = VModule(a.name) if isinstance(st, ast.Import) else self._import_from(st, a)
            return
        if isinstance(st, ast.While):
            raise OutOfSubset("while loop")
        if isinstance(st, ast.With):
            raise OutOfSubset("with statement")
        if isinstance(st, ast.Delete):
            raise OutOfSubset("del statement")
        raise OutOfSubset(f"statement {type(st).__name__}")

    def _import_from(self, st, a):
        mod = st.module or ""
        if st.level:
            pkg = self.frames[-1].module.name.rsplit(".", 1)[0]
            parts = pkg.split(".")
            base = ".".join(parts[: len(parts) - (st.level - 1)])
            mod = f"{base}.{mod}" if mod else base
        r = self.repo.resolve(f"{mod}.{a.name}")
        if isinstance(r, FuncInfo):
            return VFunc("y0", r)
        if isinstance(r, ClassInfo):
            return VFunc("class", r)
        return VFunc("builtin", f"{mod}.{a.name}")

    def _is_dropped_call(self, e):
        if isinstance(e, ast.Call):
            s = ast.unparse(e.func)
            if s.startswith("logger.") or s in ("warnings.warn", "print") or s.startswith("logging."):
                return True
        return False

    def _exc_name(self, exc):
        if exc is None:
            return "Exception"
        if isinstance(exc, ast.Call):
            exc = exc.func
        s = ast.unparse(exc)
        return s.split(".")[-1]

    def try_stmt(self, st):
        if st.finalbody:
            raise OutOfSubset("try/finally")
        handlers = []
        for h in st.handlers:
            if h.type is None:
                handlers.append(["BaseException"])
            elif isinstance(h.type, ast.Tuple):
                handlers.append([ast.unparse(x).split(".")[-1] for x in h.type.elts])
            else:
                handlers.append([ast.unparse(h.type).split(".")[-1]])
        self.try_stack.append([t for hs in handlers for t in hs])
        try:
            try:
                self.run_body(st.body)
            finally:
                self.try_stack.pop()
        except PyRaise as e:
            for h, names in zip(st.handlers, handlers):
                if any(exc_matches(e.exc_type, n) for n in names):
                    if h.name:
                        self.frames[-1].env[h.name] = VOpaque("exception")
                    self.run_body(h.body)
                    return
            raise
        self.run_body(st.orelse)

    # ---------------------------------------------------------------- loops
    def _mutables(self):
        """All mutable containers reachable from the live frames."""
        seen, out = set(), []

        def walk(v):
            if id(v) in seen or not isinstance(v, V):
                return
            seen.add(id(v))
            if isinstance(v, (VSet, VNx, VDict)):
                out.append(v)
            elif isinstance(v, VGraph):
                walk(v.directed)
                walk(v.undirected)
            elif isinstance(v, VObj):
                for f in v.fields.values():
                    walk(f)
            elif isinstance(v, VTuple):
                for i in v.items:
                    walk(i)
            elif isinstance(v, VFunc) and v.self_val is not None:
                walk(v.self_val)
        for fr in self.frames:
            e = fr.env
            while e is not None:
                for k, v in list(e.items()):
                    if k != "__parent__":
                        walk(v)
                e = e.get("__parent__")
        return out

    def for_loop(self, st):
        L = self.L
        if st.orelse:
            raise OutOfSubset("for/else")
        src = self.ev(st.iter)
        if isinstance(src, VTuple):     # concrete sequence: unroll
            for it in src.items:
                self.assign(st.target, it)
                try:
                    self.run_body(st.body)
                except _Break:
                    break
                except _Continue:
                    continue
            return
        ordered = isinstance(src, VSeq)
        alts = self.comp_alts(src)
        muts = self._mutables()
        saved = []
        FALSE1 = {}
        if not hasattr(self, "_skolems"):
            self._skolems = []
        sk0 = len(self._skolems)
        outer = {}
        for m in muts:
            outer[id(m)] = (getattr(m, "_saved", None), m.read_in_loop)
            if isinstance(m, VSet):
                saved.append((m, m._pred, m.tracked, getattr(m, "appended", None)))
            elif isinstance(m, VNx):
                saved.append((m, (m._N, m._E, dict(m.nattrs)), m.tracked, None))
            elif isinstance(m, VDict):
                saved.append((m, (m.dom, m.val), m.tracked, None))
        env = self.frames[-1].env
        env_before = dict(env)
        # ---- explore the body once per alternative of the source, with the element constants free
        body_paths = []   # (consts, guard, kind, pc_extra, deltas, payload)
        all_reads = set()
        try:
            for consts, guard, elt in alts:
                def run_once(elt=elt):
                    for m, state, tr, app in saved:
                        m.tracked = True
                        m.read_in_loop = False
                        if isinstance(m, VSet):
                            m._saved = outer[id(m)][0] if tr else state     # reads see the state before the outermost loop
                            m._pred = _false_pred
                            m.appended = []
                        elif isinstance(m, VNx):
                            m._saved = outer[id(m)][0] if tr else state
                            m._N, m._E = _false_pred, _false_pred
                            m.nattr_delta = []
                        elif isinstance(m, VDict) and m.owned:
                            # only dictionaries the function owns can be accumulators; a dictionary received from the caller is
                            # read-only here (a write fails `frame`) and must keep its contents for reads inside the body
                            m.dom = _false_pred
                    env.clear()
                    env.update(env_before)
                    self.assign(st.target, elt)
                    self.run_body(st.body)
                    return None
                base = list(self.pc) + [guard]
                n0 = len(base)
                self.binders.extend(consts)
                try:
                    results_here = self._explore_body(run_once, base, muts)
                finally:
                    del self.binders[len(self.binders) - len(consts):]
                for rec in results_here:
                    kind, pc, payload, deltas, rebinds, reads = rec
                    all_reads |= reads
                    if rebinds:
                        raise OutOfSubset(f"loop-carried variable(s) {sorted(rebinds)}")
                    body_paths.append((consts, guard, kind, pc[n0:], deltas, payload))
        finally:
            for m, state, tr, app in saved:
                m.tracked = tr
                m._saved = outer[id(m)][0]
                m.read_in_loop = outer[id(m)][1] or (id(m) in all_reads)
                if isinstance(m, VSet):
                    m._pred = state
                    if app is not None:
                        m.appended = app
                    elif hasattr(m, "appended"):
                        del m.appended
                elif isinstance(m, VNx):
                    m._N, m._E, m.nattrs = state
                elif isinstance(m, VDict):
                    m.dom, m.val = state
            env.clear()
            env.update(env_before)
        # ---- summarise
        written = {i for p in body_paths for i, d in p[4].items() if d is not None}
        if written & all_reads:
            raise OutOfSubset("loop body reads a container it also mutates (needs a sidecar invariant)")
        exits = [p for p in body_paths if p[2] in ("break", "return", "raise")]
        conts = [p for p in body_paths if p[2] in ("return_none", "continue")]
        has_delta = any(any(d is not None for d in p[4].values()) for p in body_paths)
        processed = lambda consts: L.T()
        exit_taken = None
        if exits:
            if any(any(d is not None for d in p[4].values()) for p in exits):
                raise OutOfSubset("loop exit path with side effects")
            if not ordered and has_delta and any(p[2] in ("break", "return") for p in exits):
                raise OutOfSubset("early exit from a loop over an unordered collection that also accumulates")

            # an exit path of the body may itself have taken the exit of an *inner* loop: its condition then mentions the inner
            # loop's exiting element as a free (Skolem) constant.  "This element exits" means "... for some inner element": the inner
            # constants are existentially closed before the condition is negated or instantiated at other elements
            from .logic import symbols_of
            inner_all = []
            for c_ in self._skolems[sk0:]:
                if not any(c_.eq(d_) for d_ in inner_all):
                    inner_all.append(c_)

            def closed(guard, pcx):
                body = L.And(guard, *pcx)
                if not inner_all:
                    return body
                names = symbols_of(body)
                inner = [c_ for c_ in inner_all if c_.decl().name() in names]
                return L.exists_c(inner, body) if inner else body

            def exit_cond_at(ts):
                parts = []
                for consts, guard, kind, pcx, deltas, payload in exits:
                    body = closed(guard, pcx)
                    parts.append(z3.substitute(body, *zip(consts, ts)) if consts else body)
                return L.Or(*parts)
            choice = self.choose(len(exits) + 1)
            if choice == 0:
                # no element exits
                for consts, guard, kind, pcx, deltas, payload in exits:
                    self.assume(L.forall_c(consts, L.Not(closed(guard, pcx))))
            else:
                consts, guard, kind, pcx, deltas, payload = exits[choice - 1]
                cond = L.And(guard, *pcx)
                if not self.feasible(cond):
                    raise Infeasible()
                self._skolems.extend(consts)
                self.assume(cond)      # the element constants themselves denote the exiting element
                if ordered:
                    e = consts[0]
                    self.assume(L.forall(1, lambda x: L.Implies(src.before(x, e), L.Not(exit_cond_at([x])))))
                    processed = lambda cs, e=e: src.before(cs[0], e)
                exit_taken = (kind, payload)
        # apply deltas of continuing paths
        for m in muts:
            contrib = []
            for consts, guard, kind, pcx, deltas, payload in conts:
                d = deltas.get(id(m))
                if d is not None:
                    contrib.append((consts, guard, pcx, d))
            if not contrib:
                continue
            if not m.owned:
                self.emit("frame", L.F(), note=f"loop mutates a container it does not own ({type(m).__name__})")
            self._apply_deltas(m, contrib, processed, src if ordered else None)
        # raising paths inside the body were already turned into obligations / PyRaise by _explore_body
        if exit_taken is not None:
            kind, payload = exit_taken
            if kind == "return":
                raise _Return(payload)
            if kind == "raise":
                raise payload
            # break: fall through

    def _explore_body(self, run_once, base_pc, muts):
        """Nested exploration of a loop body; harvests per-path deltas."""
        body_results = []      # local: a nested loop inside the body runs its own exploration
        env = self.frames[-1].env
        env_before = dict(env)
        saved = (self.prefix, self.pos, self.trace, self.pc, self._dup)
        self._dup = self._dup or self.pos < len(self.prefix)
        stack = [[]]
        try:
            while stack:
                prefix = stack.pop()
                self.prefix, self.pos, self.trace = prefix, 0, []
                self.pc = list(base_pc)
                self.npaths += 1
                if self.npaths > MAX_PATHS:
                    raise OutOfSubset("path explosion")
                kind, payload = "return_none", None
                try:
                    run_once()
                except _Return as r:
                    kind, payload = "return", r.value
                except _Break:
                    kind = "break"
                except _Continue:
                    kind = "continue"
                except PyRaise as e:
                    kind, payload = "raise", e
                except Infeasible:
                    kind = None
                if kind is not None:
                    deltas = {}
                    for m in muts:
                        if isinstance(m, VSet):
                            deltas[id(m)] = None if m._pred is _false_pred else (m._pred, list(getattr(m, "appended", [])))
                        elif isinstance(m, VNx):
                            nd = list(getattr(m, "nattr_delta", []))
                            deltas[id(m)] = None if (m._N is _false_pred and m._E is _false_pred and not nd) else (m._N, m._E, nd)
                        elif isinstance(m, VDict):
                            deltas[id(m)] = None if (m.dom is _false_pred or not m.owned) else (m.dom, m.val)
                    rebinds = {k for k in env_before if k != "__parent__" and env.get(k) is not env_before[k]}
                    # the loop target itself may shadow an outer name; that is a rebind only if read later, be strict
                    reads = {id(m) for m in muts if m.read_in_loop}
                    body_results.append((kind, list(self.pc), payload, deltas, rebinds - self._loop_targets, reads))
                for i in range(len(prefix), len(self.trace)):
                    d, n = self.trace[i]
                    for alt in range(d + 1, n):
                        stack.append([t[0] for t in self.trace[:i]] + [alt])
        finally:
            self.prefix, self.pos, self.trace, self.pc, self._dup = saved
        return body_results

    _loop_targets: set = set()

    def _apply_deltas(self, m, contrib, processed, ordered_src):
        L = self.L

        def bind(consts, body_fn):
            """exists consts. processed(consts) & body  -- with the binder renamed apart from the (free) exit element,
            which is denoted by the very same constants when the exiting and the continuing path share an alternative."""
            if not consts:
                return L.And(processed(consts), body_fn())
            fresh = [L.node("p") for _ in consts]
            body = z3.substitute(body_fn(), *zip(consts, fresh))
            return L.exists_c(fresh, L.And(processed(fresh), body))
        if isinstance(m, VSet):
            def add(*ys, contrib=contrib):
                parts = []
                for consts, guard, pcx, (dp, app) in contrib:
                    parts.append(bind(consts, lambda: L.And(guard, *pcx, dp(*ys))))
                return L.Or(*parts)
            # list accumulators filled with the loop element itself, from an ordered source, keep the order
            if (ordered_src is not None and m.kind == "list" and getattr(m, "known_empty", False)
                    and all(len(app) == 1 and len(consts) == 1 and z3.eq(app[0], consts[0])
                            for consts, _, _, (dp, app) in contrib)):
                m.seq_view = VSeq(add, ordered_src.before)
            else:
                m.seq_view = None
            m.known_empty = False
            m.add_pred(add)
        elif isinstance(m, VNx):
            def addN(y, contrib=contrib):
                return L.Or(*[bind(c, lambda: L.And(g, *pcx, dN(y))) for c, g, pcx, (dN, dE, nd) in contrib])

            def addE(a, b, contrib=contrib):
                return L.Or(*[bind(c, lambda: L.And(g, *pcx, dE(a, b))) for c, g, pcx, (dN, dE, nd) in contrib])
            oldN, oldE = m._N, m._E
            m._N = lambda y: L.Or(oldN(y), addN(y))
            m._E = lambda a, b: L.Or(oldE(a, b), addE(a, b))
            # node attributes set in the body (constant values): has-attribute grows, the value is overridden on those nodes
            tags = {}
            for c, g, pcx, (dN, dE, nd) in contrib:
                for tag, node_t, value in nd:
                    tags.setdefault(tag, []).append((c, g, pcx, node_t, value))
            for tag, items in tags.items():
                if len({v for _, _, _, _, v in items}) != 1:
                    raise OutOfSubset("a loop sets one node attribute to different constants")
                value = items[0][4]
                hit = lambda x, items=items: L.Or(*[bind(c, lambda: L.And(g, *pcx, x == node_t)) for c, g, pcx, node_t, _ in items])
                old = m.nattrs.get(tag)
                if old is None:
                    m.nattrs[tag] = (hit, lambda x, value=value: z3.BoolVal(value))
                else:
                    oh, ov = old
                    m.nattrs[tag] = (lambda x, oh=oh, hit=hit: L.Or(oh(x), hit(x)),
                                     lambda x, ov=ov, hit=hit, value=value: z3.If(hit(x), z3.BoolVal(value), ov(x)))
        else:
            raise OutOfSubset("dict accumulation in a loop")

    # ================================================================ expressions
    def ev(self, e) -> V:
        L = self.L
        if isinstance(e, ast.Constant):
            v = e.value
            if v is None:
                return NONE
            if isinstance(v, bool):
                return VBool(v)
            if isinstance(v, int):
                return VInt(v)
            if isinstance(v, str):
                return VStr(v)
            return VOpaque(repr(v))
        if isinstance(e, ast.Name):
            return self.env_lookup(e.id)
        if isinstance(e, ast.Attribute):
            base = self.ev(e.value)
            return self.lib.get_attr(self, base, e.attr)
        if isinstance(e, ast.Tuple) or isinstance(e, ast.List):
            items = []
            eparts = []
            for x in e.elts:
                if isinstance(x, ast.Starred):
                    sv = self.ev(x.value)
                    if isinstance(sv, VTuple):
                        items += sv.items
                        eparts += [("e", i.t) for i in sv.items if isinstance(i, VExpr)]
                    elif isinstance(sv, VESeq):
                        eparts.append(("s", sv.t))
                        items.append(sv)
                    else:
                        raise OutOfSubset("star-splat of a symbolic collection")
                else:
                    v1 = self.ev(x)
                    items.append(v1)
                    if isinstance(v1, VExpr):
                        eparts.append(("e", v1.t))
            if items and all(isinstance(i, (VExpr, VESeq)) for i in items) and any(isinstance(i, VESeq) for i in items) or (
                    items and all(isinstance(i, VExpr) for i in items) and isinstance(e, ast.Tuple) and getattr(self, "expr_tuples", False)):
                return VESeq(exprs.theory(self).seq_of(eparts))
            if isinstance(e, ast.List) and not items:
                s = VSet(_false_pred, kind="list")
                s.known_empty = True
                return s
            return VTuple(items)
        if isinstance(e, ast.Set):
            items = [self.ev(x) for x in e.elts]
            return self.lib.set_of_items(self, items)
        if isinstance(e, ast.Dict):
            if not e.keys:
                return VDict(_false_pred, None)
            ks = [self.ev(k) if k is not None else None for k in e.keys]
            if all(isinstance(k, VStr) for k in ks):
                return VObj("dict", {k.s: self.ev(v) for k, v in zip(ks, e.values)})
            raise OutOfSubset("dict display")
        if isinstance(e, ast.BoolOp):
            return self.boolop(e)
        if isinstance(e, ast.UnaryOp):
            v = self.ev(e.operand)
            if isinstance(e.op, ast.Not):
                return VBool(L.Not(self.truthy(v)))
            return self.lib.unary(self, e.op, v)
        if isinstance(e, ast.Compare):
            return self.compare(e)
        if isinstance(e, ast.BinOp):
            l, r = self.ev(e.left), self.ev(e.right)
            return self.lib.binop(self, l, e.op, r)
        if isinstance(e, (ast.ListComp, ast.SetComp, ast.GeneratorExp)):
            return self.comprehension(e)
        if isinstance(e, ast.DictComp):
            return self.dict_comprehension(e)
        if isinstance(e, ast.Call):
            return self.call(e)
        if isinstance(e, ast.IfExp):
            if self.branch(self.truthy(self.ev(e.test))):
                return self.ev(e.body)
            return self.ev(e.orelse)
        if isinstance(e, ast.Subscript):
            base = self.ev(e.value)
            if isinstance(e.slice, ast.Slice):
                lo = self.ev(e.slice.lower) if e.slice.lower is not None else None
                hi = self.ev(e.slice.upper) if e.slice.upper is not None else None
                if e.slice.step is not None:
                    raise OutOfSubset("slice step")
                return self.lib.get_slice(self, base, lo, hi)
            return self.lib.get_item(self, base, self.ev(e.slice))
        if isinstance(e, ast.Lambda):
            fi = FuncInfo(self.frames[-1].module, "<lambda>", _lambda_as_def(e))
            return VFunc("closure", fi, extra=self.frames[-1].env)
        if isinstance(e, ast.JoinedStr):
            parts = []
            for v in e.values:
                if isinstance(v, ast.Constant):
                    parts.append(v.value)
                elif isinstance(v, ast.FormattedValue) and v.format_spec is None and v.conversion == -1:
                    try:
                        parts.append(self.ev(v.value))
                    except OutOfSubset:
                        return VOpaque("fstring")
                else:
                    return VOpaque("fstring")
            return VFStr(parts)
        if isinstance(e, ast.Starred):
            raise OutOfSubset("starred expression")
        raise OutOfSubset(f"expression {type(e).__name__}")

    def boolop(self, e):
        """and/or.  Boolean-valued operands are combined into one formula, each operand being evaluated under the
        assumption that the previous ones did not short-circuit; a non-boolean operand (x or default) forks."""
        L = self.L
        is_and = isinstance(e.op, ast.And)
        acc = []
        temps = []        # indices in self.pc of the operand assumptions
        last = len(e.values) - 1
        for i, x in enumerate(e.values):
            v = self.ev(x)
            if isinstance(v, VBool):
                acc.append(v.t)
                temps.append(len(self.pc))
                self.pc.append(v.t if is_and else L.Not(v.t))
                continue
            if acc:
                raise OutOfSubset("mixed boolean / value operands in and/or")
            if i == last:
                return v
            if self.branch(self.truthy(v)) != is_and:
                return v
        for i in reversed(temps):
            del self.pc[i]
        return VBool(L.And(*acc) if is_and else L.Or(*acc))

    def compare(self, e):
        L = self.L
        left = self.ev(e.left)
        parts = []
        first = left
        all_eq = all(isinstance(o, ast.Eq) for o in e.ops)
        for k_, (op, rhs) in enumerate(zip(e.ops, e.comparators)):
            if k_ > 0:
                # Python evaluates the next operand of a chain only if the comparison so far holds (it may raise)
                if not self.branch(L.And(*parts)):
                    return VBool(L.F())
                parts = []
            right = self.ev(rhs)
            if all_eq and len(e.ops) > 1 and isinstance(first, VInt) and first.const() is not None:
                # c == x == y  is  c == x and x == y, which (equality being transitive) is  c == x and c == y:
                # every operand is compared with the constant, so two symbolic sizes never meet
                parts.append(self.lib.compare(self, first, op, right))
            else:
                parts.append(self.lib.compare(self, left, op, right))
            left = right
        return VBool(L.And(*parts))

    def comprehension(self, e):
        """{elt for targets in iter if conds ...}: nested exploration of the element expression."""
        L = self.L
        kind = "list" if isinstance(e, ast.ListComp) else ("set" if isinstance(e, ast.SetComp) else "gen")
        if len(e.generators) == 1 and not isinstance(e, ast.SetComp):
            try:
                src0 = self.ev(e.generators[0].iter)
            except OutOfSubset:
                src0 = None
            if isinstance(src0, VTuple) and src0.items and all(isinstance(i, VExpr) for i in src0.items):
                src0 = exprs.to_eseq(self, src0)
            if isinstance(src0, VESeq):
                return exprs.eseq_comprehension(self, e, src0)
        outer_env = self.frames[-1].env
        results = []

        def gen(i, consts, guards, env):
            if i == len(e.generators):
                self.frames[-1].env = env

                def thunk():
                    return self.ev(e.elt)
                base = list(self.pc) + guards
                n0 = len(self.pc)
                for k, pc, payload in self.explore(thunk, base_pc=base):
                    if k == "return":
                        results.append((list(consts), L.And(*pc[n0:]), payload))
                    elif k == "raise":
                        # the comprehension raises if some element does
                        cond = L.exists_c(consts, L.And(*pc[n0:]))
                        self.frames[-1].env = outer_env
                        self.require(L.Not(cond), payload.exc_type, "comprehension")
                return
            g = e.generators[i]
            if g.is_async:
                raise OutOfSubset("async comprehension")
            self.frames[-1].env = env
            src = self.ev(g.iter)
            for cs, guard, elt in self.comp_alts(src):
                env2 = {"__parent__": env}
                self.frames[-1].env = env2
                self.assign(g.target, elt)
                conds = [guard]
                n0 = len(self.pc)
                self.pc.append(guard)
                try:
                    for c in g.ifs:
                        t = self.truthy(self.ev(c))
                        conds.append(t)
                        self.pc.append(t)
                finally:
                    del self.pc[n0:]
                self.binders.extend(cs)
                try:
                    gen(i + 1, consts + cs, guards + conds, env2)
                finally:
                    del self.binders[len(self.binders) - len(cs):]
        try:
            gen(0, [], [], {"__parent__": outer_env})
        finally:
            self.frames[-1].env = outer_env
        c = VComp(None, None, None, kind=kind)
        c.alts = results
        if results and all(type(e).__name__ == "VUPair" for _, _, e in results):
            def upred(x, y, results=results):
                return L.Or(*[L.exists_c(cs, L.And(g, L.Or(L.And(x == e.a, y == e.b), L.And(x == e.b, y == e.a)))) for cs, g, e in results])
            return VSet(upred, arity=2, kind="upairs", owned=True)
        if kind in ("set", "list") and results:
            # eager comprehensions of nodes / node tuples are materialised (they can be mutated afterwards)
            if all(isinstance(e, VNode) or (isinstance(e, VTuple) and e.items and all(isinstance(i, VNode) for i in e.items))
                   for _, _, e in results):
                try:
                    m = self.as_set(c)
                    return VSet(m.pred, arity=m.arity, kind=kind, owned=True)
                except OutOfSubset:
                    return c
            if kind in ("set", "gen") and all(type(e).__name__ == "VUPair" for _, _, e in results):
                def upred(x, y, results=results):
                    return L.Or(*[L.exists_c(cs, L.And(g, L.Or(L.And(x == e.a, y == e.b), L.And(x == e.b, y == e.a)))) for cs, g, e in results])
                r_ = VSet(upred, arity=2, kind="upairs", owned=True)
                return r_
            if kind == "set" and all(isinstance(e, VSet) and e.arity == 1 for _, _, e in results):
                fam = self.lib.as_family(self, c)
                if fam is not None:
                    return fam
        return c

    def dict_comprehension(self, e):
        """{k: value for k in <nodes>}: a finite map whose domain is the iterated collection."""
        L = self.L
        if len(e.generators) != 1 or e.generators[0].ifs or not isinstance(e.generators[0].target, ast.Name) \
                or not (isinstance(e.key, ast.Name) and e.key.id == e.generators[0].target.id):
            raise OutOfSubset("dict comprehension (shape not modelled)")
        src = self.ev(e.generators[0].iter)
        alts = self.comp_alts(src)
        if len(alts) != 1 or len(alts[0][0]) != 1:
            raise OutOfSubset("dict comprehension over a structured source")
        (c,), guard, elt = alts[0]
        env = {"__parent__": self.frames[-1].env}
        outer = self.frames[-1].env
        self.frames[-1].env = env
        self.binders.append(c)
        n0 = len(self.pc)
        self.pc.append(guard)
        try:
            self.assign(e.generators[0].target, elt)
            val = self.ev(e.value)
        finally:
            del self.pc[n0:]
            self.binders.pop()
            self.frames[-1].env = outer
        if not isinstance(val, VSet):
            raise OutOfSubset("dict comprehension with non-set values")
        pv = val.pred
        dom = lambda t: z3.substitute(guard, (c, t))
        return VDict(dom, lambda t: VSet(lambda *xs: z3.substitute(pv(*xs), (c, t)), arity=val.arity, owned=False), owned=True)

    # ---------------------------------------------------------------- calls
    def call(self, e):
        fn = e.func
        # calls that the extraction reads through
        s = ast.unparse(fn)
        if s in ("cast", "typing.cast", "t.cast") and len(e.args) == 2:
            return self.ev(e.args[1])
        if s == "tqdm" and e.args:
            return self.ev(e.args[0])
        args = []
        for a in e.args:
            if isinstance(a, ast.Starred):
                sv = self.ev(a.value)
                if isinstance(sv, VTuple):
                    args += sv.items
                else:
                    args.append(("*", sv))
            else:
                args.append(self.ev(a))
        kwargs = {}
        for k in e.keywords:
            if k.arg is None:
                kv = self.ev(k.value)
                if isinstance(kv, VObj) and kv.cls == "dict":
                    kwargs.update(kv.fields)
                else:
                    raise OutOfSubset("**kwargs splat of a symbolic mapping")
            else:
                kwargs[k.arg] = self.ev(k.value)
        f = self.ev(fn)
        return self.apply(f, args, kwargs)

    def apply(self, f, args, kwargs):
        if isinstance(f, VSet) and hasattr(f, "nx_view"):
            return self.lib.call_view(self, f, args, kwargs)
        if isinstance(f, VObj) and isinstance(f.cls, ClassInfo) and getattr(f.cls, "name", "") == "ProbabilityBuilderType" \
                and len(args) == 1 and not kwargs and isinstance(args[0], (VSet, VSeq)) and getattr(args[0], "arity", 1) == 1:
            # P(<collection of nodes>): the joint distribution over those variables -- an opaque probability term (its
            # Distribution object is outside the model; only its class is known)
            T = exprs.theory(self)
            t = T.fresh("joint")
            self.assume(T.is_cls(t, ["Probability"]))
            self.assumption_notes.add("P(nodes) is an opaque probability term of class Probability")
            return exprs.VExpr(t)
        if isinstance(f, VObj) and isinstance(f.cls, ClassInfo):
            m = self.repo.find_method(f.cls, "__call__")
            if m is not None:
                return self.call_y0(m, args, kwargs, self_val=f)
        if not isinstance(f, VFunc):
            raise OutOfSubset(f"call of {type(f).__name__}")
        if f.kind == "y0":
            fi = f.target
            sv = f.self_val
            if fi.is_classmethod:
                sv = f.self_val if isinstance(f.self_val, VFunc) else VFunc("class", fi.cls)
            elif fi.is_staticmethod:
                sv = None
            return self.call_y0(fi, args, kwargs, self_val=sv)
        if f.kind == "closure":
            fi = f.target
            env = {"__parent__": f.extra}
            env.update(self.bind_params(fi, args, kwargs))
            fr = Frame(self.frames[-1].func, fi.module, env, len(self.frames))
            fr.ordinals = self.frames[-1].ordinals
            self.frames.append(fr)
            try:
                for p in fi.params:
                    if p not in env:
                        if p in fi.defaults:
                            env[p] = self.ev(fi.defaults[p])
                        else:
                            raise OutOfSubset(f"missing argument {p}")
                try:
                    self.run_body(fi.node.body)
                except _Return as r:
                    return r.value
                return NONE
            finally:
                self.frames.pop()
        if f.kind == "class":
            return self.lib.construct(self, f.target, args, kwargs)
        if f.kind == "builtin":
            self.used_lib.add(f.target)
            return self.lib.call_builtin(self, f.target, args, kwargs)
        if f.kind == "boundlib":
            self.used_lib.add(f"{type(f.self_val).__name__}.{f.target}")
            return self.lib.call_method(self, f.self_val, f.target, args, kwargs)
        if f.kind == "partial":
            pf, pargs, pkw = f.target
            kw = dict(pkw)
            kw.update(kwargs)
            return self.apply(pf, list(pargs) + list(args), kw)
        raise OutOfSubset(f"call kind {f.kind}")


def _false_pred(*xs):
    return z3.BoolVal(False)


def _lambda_as_def(lam: ast.Lambda):
    fd = ast.FunctionDef(name="<lambda>", args=lam.args, body=[ast.Return(value=lam.body)], decorator_list=[],
                         returns=None, type_comment=None, lineno=lam.lineno, col_offset=lam.col_offset)
    try:
        fd.type_params = []
    except Exception:
        pass
    return fd
