"""Generate the obligations of one function under its contract (all input-shape variants, all paths)."""
from __future__ import annotations

import time
import traceback

import z3

from .contract import REGISTRY, Contract
from .extract import Repo
from .logic import Logic
from .symexec import Exec, PyRaise, exc_matches
from .values import OutOfSubset


class Instance:
    """One path instance of an obligation: hyps |- goal, with the Logic it lives in."""
    __slots__ = ("oid", "L", "hyps", "goal", "note", "variant", "probes", "kind", "extra")

    def __init__(self, oid, L, hyps, goal, note="", variant=None, probes=None, kind="post", extra=None):
        self.oid, self.L, self.hyps, self.goal, self.note = oid, L, hyps, goal, note
        self.variant, self.probes, self.kind, self.extra = variant, probes, kind, extra


class Generated:
    def __init__(self, qual):
        self.qual = qual
        self.instances: list[Instance] = []
        self.out_of_subset: list[str] = []
        self.used_funcs: dict[str, str] = {}
        self.used_contracts: set[str] = set()
        self.used_lib: set[str] = set()
        self.notes: set[str] = set()
        self.lemmas: set[str] = set()
        self.paths = 0
        self.gen_s = 0.0
        self.cover: list = []      # (L, hyps) of returning paths, for vacuity checks


def generate(repo: Repo, con: Contract, k=None, only_variant=None) -> Generated:
    t0 = time.time()
    G = Generated(con.qual)
    try:
        fi = repo.func(con.qual)
    except KeyError as e:
        G.out_of_subset.append(f"function-not-found: {e}")
        return G
    G.used_funcs[fi.qualname] = fi.sha
    for vi, variant in enumerate(con.variants()):
        if only_variant is not None and vi != only_variant:
            continue
        L = Logic(k)
        from . import contract as _c
        _c._REPO[0] = repo
        try:
            env, wf, probes = con.make_inputs(L, variant)
            ex = Exec(repo, L, REGISTRY, allowed_raises=tuple(con.raise_types()))
            ex.top_qual = con.qual
            ex.top_qual_inline_root = con.qual
            ex.frames.append(_dummy_frame(fi))
            a = con.adapt(ex, env)
            ex.top_args = a            # entry arguments: recursive calls are measured against them (termination obligations)
            pre = [c for _, c in con.pre(ex, a)]
            rconds = con.raises(ex, a)
            ex.frames.pop()
            base = wf + pre
            ex.entry_hyps = list(base)
            ex.pc = list(base)
            mut = con.frame.split(":", 1)[1].split(",") if con.frame.startswith("mutates:") else []

            def run_once():
                env2 = dict(env)
                for p_ in mut:
                    # the function may write to this argument (in-place operation): every explored path starts from its own
                    # owned copy of the entry state; the contract's `post` relates the entry state (a.<param>) to what the
                    # function returns (the same object after the writes) -- writes to anything else still fail `frame`
                    g0 = env[p_]
                    from .values import VNx
                    if not isinstance(g0, VNx):
                        raise OutOfSubset(f"mutable parameter {p_} of kind {type(g0).__name__}")
                    env2[p_] = VNx(g0.directed, g0._N, g0._E, owned=True, nattrs=dict(g0.nattrs), gattrs=dict(g0.gattrs))
                return ex.inline(fi, [], env2)
            outcomes = ex.explore(run_once, base_pc=base)
            vtag = "" if len(con.variants()) == 1 else f"[{_variant_tag(variant)}]"
            nret = 0
            for kind, pc, payload in outcomes:
                ex.pc = list(pc)
                ex.frames.append(_dummy_frame(fi))
                try:
                    if kind == "return":
                        nret += 1
                        G.cover.append((L, list(pc), probes, vi))
                        clauses = con.post(ex, a, payload)
                        for cname, goal in clauses.items():
                            G.instances.append(Instance(f"{con.qual}/post.{cname}", L, list(ex.pc), goal,
                                                        variant=vi, probes=probes, kind="post", extra=cname))
                        for exc, cond in (rconds.items() if getattr(con, "raises_exact", True) else ()):
                            G.instances.append(Instance(f"{con.qual}/must-raise.{exc}", L, list(ex.pc), L.Not(cond),
                                                        variant=vi, probes=probes, kind="must-raise", extra=exc))
                    elif kind == "raise":
                        e: PyRaise = payload
                        rc = rconds
                        if e.site == "line-ordinal" and hasattr(con, "raises_direct"):
                            rc = con.raises_direct(ex, a)      # a `raise` statement of the function itself (not propagated from a callee)
                        allowed = [c for t, c in rc.items() if exc_matches(e.exc_type, t)]
                        goal = L.Or(*allowed) if allowed else L.F()
                        G.instances.append(Instance(f"{con.qual}/raise.{e.exc_type}", L, list(pc), goal,
                                                    note=e.site, variant=vi, probes=probes, kind="raise",
                                                    extra=e.exc_type))
                finally:
                    ex.frames.pop()
            for em in ex.emitted:
                kind = em.oid.split("/")[-1].split(".")[0].split("@")[0]
                G.instances.append(Instance(em.oid, L, em.hyps, em.goal, note=em.note, variant=vi, probes=probes,
                                            kind=kind))
            if con.frame == "pure" or mut:
                G.instances.append(Instance(f"{con.qual}/frame", L, list(base), L.T(), variant=vi, probes=probes,
                                            kind="frame",
                                            note="no write to caller-reachable state on any path (structural)" + (
                                                f", other than to the declared in-place parameter(s) {mut}" if mut else "")))
            if not outcomes:
                G.out_of_subset.append(f"no feasible path in variant {vi}")
            L.closure_lemmas()
            G.paths += ex.npaths
            G.used_funcs.update(ex.used_funcs)
            G.used_contracts |= ex.used_contracts
            G.used_lib |= ex.used_lib
            G.notes |= ex.assumption_notes
            G.lemmas |= set(L.lemma_uses)
        except OutOfSubset as e:
            G.out_of_subset.append(f"variant {vi}: {e}")
        except RecursionError:
            G.out_of_subset.append(f"variant {vi}: recursion limit in generator")
    G.gen_s = time.time() - t0
    return G


def _variant_tag(variant):
    return ",".join(f"{p}={k if isinstance(k, str) else 'const'}" for p, k in variant.items())


def _dummy_frame(fi):
    from .symexec import Frame
    return Frame(fi, fi.module, {}, 0)


def _raise_types(self):
    return list(self.allowed_raises)


Contract.raise_types = _raise_types
