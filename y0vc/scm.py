"""Exact discrete structural causal models compatible with an ADMG (one binary latent per bidirected edge, binary observed
variables, random strictly positive rational parameters), with observational and interventional joints by enumeration.
Independent of y0's algorithms: used by bounded parts and replays only."""
from __future__ import annotations

import itertools as itt
import random
from fractions import Fraction as Fr

import networkx as nx


class SCM:
    def __init__(self, nodes, directed, undirected, seed):
        rng = random.Random(seed)
        g = nx.DiGraph()
        g.add_nodes_from(nodes)
        g.add_edges_from(directed)
        self.order = list(nx.topological_sort(g))
        self.lat = [frozenset(e) for e in undirected]
        self.lat_p = [Fr(rng.randint(1, 9), 10) for _ in self.lat]
        self.cpt = {}
        for v in self.order:
            pa = sorted(g.predecessors(v))
            ls = [i for i, k in enumerate(self.lat) if v in k]
            table = {}
            for pv in itt.product(range(2), repeat=len(pa)):
                for lv in itt.product(range(2), repeat=len(ls)):
                    p1 = Fr(rng.randint(1, 9), 10)
                    table[pv, lv] = (1 - p1, p1)
            self.cpt[v] = (pa, ls, table)
        self._cache = {}

    def joint(self, do=None):
        """dict: tuple of values (in self.order) -> probability, under do = {node: value}"""
        do = do or {}
        key = tuple(sorted(do.items()))
        if key in self._cache:
            return self._cache[key]
        out = {}
        for lv in itt.product(range(2), repeat=len(self.lat)):
            lp = Fr(1)
            for p, v in zip(self.lat_p, lv):
                lp *= p if v else 1 - p
            # observed variables given latents: sequential enumeration
            partial = [((), lp)]
            for v in self.order:
                pa, ls, table = self.cpt[v]
                nxt = []
                for vals, p in partial:
                    a = dict(zip(self.order, vals))
                    if v in do:
                        nxt.append((vals + (do[v],), p))
                        continue
                    row = table[tuple(a[q] for q in pa), tuple(lv[i] for i in ls)]
                    for val in (0, 1):
                        nxt.append((vals + (val,), p * row[val]))
                partial = nxt
            for vals, p in partial:
                out[vals] = out.get(vals, 0) + p
        self._cache[key] = out
        return out

    def prob(self, assign, do=None):
        ix = {n: i for i, n in enumerate(self.order)}
        return sum(p for vals, p in self.joint(do).items() if all(vals[ix[k]] == v for k, v in assign.items()))


def identifiable(nodes, directed, undirected, X, Y):
    """Identifiability of P(Y | do(X)) by Tian & Pearl's c-component criterion (independent of y0's ID implementation):
    with D = An(Y) in G[V - X], the effect is identifiable iff every district of G[D] is identifiable from the district of
    G containing it (IDENTIFY recursion on ancestral sets and districts)."""
    V = set(nodes)
    X, Y = set(X), set(Y)
    dg = nx.DiGraph()
    dg.add_nodes_from(V)
    dg.add_edges_from(directed)
    ug = nx.Graph()
    ug.add_nodes_from(V)
    ug.add_edges_from(undirected)

    def anc(S, within):
        sub = dg.subgraph(within)
        out = set(S)
        for s in S:
            out |= nx.ancestors(sub, s)
        return out

    def districts(within):
        return [set(c) for c in nx.connected_components(ug.subgraph(within))]

    def identify(C, T):
        # C subset of T, T a district (c-component) of some subgraph whose Q is known
        while True:
            A = anc(C, T)
            if A == C:
                return True
            if A == T:
                return False
            T = next(d for d in districts(A) if C <= d)

    D = anc(Y, V - X)
    for Dj in districts(D):
        Tj = next(d for d in districts(V) if Dj <= d)
        if not identify(Dj, Tj):
            return False
    return True
