"""Exact rational evaluation of y0 expressions on explicit discrete distributions, and a pool of small concrete expressions.

Used to (a) replay candidate counterexamples of expression-domain obligations on the real code, (b) run the bounded
stand-in for expression functions outside the generator's subset, (c) cross-check the engine against CPython.
Reading of an expression: every variable is binary; `env` maps base variables to values; a Probability term is looked up in
the joint table of its (population, intervention set) regime -- regimes are independent random positive tables, which is the
most general reading (no relation between regimes is assumed by the algebraic identities being checked).
"""
from __future__ import annotations

import itertools as itt
import random
from fractions import Fraction as Fr

from .concrete import y0mod


class Undefined(Exception):
    pass


class Model:
    """Independent random strictly positive joint tables, one per regime, over the given variable names."""
    def __init__(self, names, seed):
        self.names = list(names)
        self.rng = random.Random(seed)
        self.tables = {}
        self.qtables = {}

    @classmethod
    def from_scm(cls, scm):
        """Observational regime backed by an SCM's joint; other regimes stay independent random tables."""
        m = cls(scm.order, 0)
        m.tables[(None, ())] = dict(scm.joint())
        return m

    def table(self, regime):
        if regime not in self.tables:
            r = random.Random(repr((self.rng.random(), regime)))
            w = {vals: Fr(r.randint(1, 9)) for vals in itt.product(range(2), repeat=len(self.names))}
            tot = sum(w.values())
            self.tables[regime] = {k: v / tot for k, v in w.items()}
        return self.tables[regime]

    def pr(self, regime, assign):
        t = self.table(regime)
        ix = {n: i for i, n in enumerate(self.names)}
        return sum(p for vals, p in t.items() if all(vals[ix[k]] == v for k, v in assign.items()))

    def q(self, key, assign):
        k = (key, tuple(sorted(assign.items())))
        if k not in self.qtables:
            self.qtables[k] = Fr(random.Random(repr(k)).randint(1, 9), 10)
        return self.qtables[k]


def regime_of(e):
    dsl = y0mod("y0.dsl")
    pop = getattr(e, "population", None)
    ivs = set()
    for v in itt.chain(e.children, e.parents):
        if isinstance(v, dsl.CounterfactualVariable):
            ivs |= {(i.name, i.star) for i in v.interventions}
    return (str(pop) if pop is not None else None, tuple(sorted(ivs)))


def ev(e, env, model: Model):
    dsl = y0mod("y0.dsl")
    if isinstance(e, dsl.Probability):
        ch = {c.get_base().name: env[c.get_base().name] for c in e.children}
        pa = {c.get_base().name: env[c.get_base().name] for c in e.parents}
        if any(k in pa and pa[k] != v for k, v in ch.items()):
            return Fr(0)
        reg = regime_of(e)
        den = model.pr(reg, pa) if pa else Fr(1)
        if den == 0:
            raise Undefined()
        return model.pr(reg, {**ch, **pa}) / den
    if isinstance(e, dsl.Sum):
        rs = sorted(r.name for r in e.ranges)
        return sum(ev(e.expression, {**env, **dict(zip(rs, vals))}, model) for vals in itt.product(range(2), repeat=len(rs)))
    if isinstance(e, dsl.Product):
        r = Fr(1)
        for x in e.expressions:
            r *= ev(x, env, model)
        return r
    if isinstance(e, dsl.Fraction):
        d = ev(e.denominator, env, model)
        if d == 0:
            raise Undefined()
        return ev(e.numerator, env, model) / d
    if isinstance(e, dsl.One):
        return Fr(1)
    if isinstance(e, dsl.Zero):
        return Fr(0)
    if isinstance(e, dsl.QFactor):
        vs = sorted({v.name for v in e.domain} | {v.name for v in e.codomain})
        return model.q((tuple(sorted(v.name for v in e.domain)), tuple(sorted(v.name for v in e.codomain))), {v: env[v] for v in vs})
    raise TypeError(type(e))


def free_vars(e):
    dsl = y0mod("y0.dsl")
    if isinstance(e, dsl.Probability):
        return {v.get_base().name for v in (*e.children, *e.parents)}
    if isinstance(e, dsl.Sum):
        return free_vars(e.expression) - {r.name for r in e.ranges}
    if isinstance(e, dsl.Product):
        return set().union(*[free_vars(x) for x in e.expressions])
    if isinstance(e, dsl.Fraction):
        return free_vars(e.numerator) | free_vars(e.denominator)
    if isinstance(e, dsl.QFactor):
        return {v.name for v in e.domain} | {v.name for v in e.codomain}
    return set()


def well_scoped(e):
    """Each distribution mentions a name at most once; sums may range over any of the (binary) variables."""
    dsl = y0mod("y0.dsl")
    if isinstance(e, dsl.Sum):
        return {r.name for r in e.ranges} <= set(NAMES) and well_scoped(e.expression)
    if isinstance(e, dsl.Product):
        return all(well_scoped(x) for x in e.expressions)
    if isinstance(e, dsl.Fraction):
        return well_scoped(e.numerator) and well_scoped(e.denominator)
    if isinstance(e, dsl.Probability):
        names = [v.get_base().name for v in (*e.children, *e.parents)]
        return len(names) == len(set(names))
    return True


NAMES = ["A", "B", "C"]


def envs(names=NAMES):
    for vals in itt.product(range(2), repeat=len(names)):
        yield dict(zip(names, vals))


def values(e, model, names=NAMES):
    """tuple of den(e) over all environments, or None where undefined"""
    out = []
    for env in envs(names):
        try:
            out.append(ev(e, env, model))
        except Undefined:
            out.append(None)
    return out


def leaf_family():
    """Every probability leaf over A, B, C: 1-2 children, 0-2 parents, optional +/- marks, 0-2 intervention subscripts with either
    mark carried by all variables (prints as P[..](..)) or by the first child only (prints with @), with and without a population."""
    import itertools as itt
    dsl = y0mod("y0.dsl")
    names = ["A", "B", "C"]
    out = []
    ivsets = [()]
    for k in (1, 2):
        for sub in itt.combinations(names, k):
            for stars in itt.product([False, True], repeat=k):
                t = tuple(dsl.Intervention(name=n, star=s) for n, s in zip(sub, stars))
                ivsets.append(t)
                if k == 2:
                    ivsets.append(t[::-1])      # the other insertion order of the same frozenset
    # three subscripts (a fourth name D occurs as a subscript only): printers that join subscripts must handle the third one
    for sub in itt.combinations(names + ["D"], 3):
        for stars in ((False, True, False), (True, False, True)):
            ivsets.append(tuple(dsl.Intervention(name=n, star=s) for n, s in zip(sub, stars)))
    for nc in (1, 2):
        for ch in itt.combinations(names, nc):
            rest = [n for n in names if n not in ch]
            for npa in range(0, len(rest) + 1):
                for pa in itt.combinations(rest, npa):
                    for mark in (None, 0, 1, 2):        # which variable (if any) carries a +/- mark, alternating the sign
                        allv = list(ch) + list(pa)
                        if mark is not None and mark >= len(allv):
                            continue
                        for ivs in ivsets:
                            for mode in (("all", "first") if ivs else ("none",)):
                                def mk(n, pos, with_ivs):
                                    # built with the public operators only: +v / -v for value marks, v @ subscripts for interventions
                                    v = dsl.Variable(n)
                                    if mark == pos:
                                        v = +v if (pos + len(ivs)) % 2 else -v
                                    return v @ ivs if with_ivs else v
                                try:
                                    cvs = tuple(mk(n, i, mode == "all" or (mode == "first" and i == 0)) for i, n in enumerate(ch))
                                    pvs = tuple(mk(n, len(ch) + i, mode == "all") for i, n in enumerate(pa))
                                    d = dsl.Distribution(children=cvs, parents=pvs)
                                except (ValueError, TypeError):
                                    continue
                                out.append(dsl.Probability(d))
                                out.append(dsl.PopulationProbability(population=dsl.Population("Pi1"), distribution=d))
    return out



class Pool:
    """Random small expressions over A, B, C (binary), optionally with interventions, populations and Q factors."""
    def __init__(self, seed, rich=True):
        dsl = y0mod("y0.dsl")
        self.dsl = dsl
        self.rng = random.Random(seed)
        V = [dsl.Variable(n) for n in NAMES]
        self.V = V
        self.max_factors = 3 if len(NAMES) <= 3 else 5
        atoms = []
        for k in (1, 2, 3):
            for ch in itt.combinations(V, k):
                rest = [v for v in V if v not in ch]
                for j in range(len(rest) + 1):
                    for pa in itt.combinations(rest, j):
                        atoms.append(dsl.Probability(dsl.Distribution(children=tuple(ch), parents=tuple(pa))))
        self.plain_atoms = list(atoms)
        if rich:
            extra = []
            for a in atoms[:12]:
                extra.append(dsl.PopulationProbability(population=dsl.Population("pi1"), distribution=a.distribution))
                iv = self.rng.choice(V)
                if iv.name not in {v.name for v in (*a.children, *a.parents)}:
                    extra.append(a.intervene(iv))
            extra.append(dsl.QFactor(domain=frozenset([V[0]]), codomain=frozenset([V[1]])))
            # a sample of the full leaf family (value marks, several subscripts, subscripts on the first child only, populations);
            # leaves that intervene on one of their own variables are left out (their reading is not fixed by the properties)
            # and so are cross-world leaves (subscripts on some variables only): the table-per-regime reading of `ev` is single-world
            fam = [l for l in leaf_family()
                   if not ({v.name for v in (*l.children, *l.parents)} & {i.name for v in (*l.children, *l.parents) for i in getattr(v, "interventions", ())})
                   and len({frozenset(getattr(v, "interventions", ())) for v in (*l.children, *l.parents)}) == 1]
            extra += self.rng.sample(fam, 40)
            atoms += extra
        self.atoms = atoms

    def atom(self):
        return self.rng.choice(self.atoms)

    def gen(self, depth, cls=None):
        dsl, rng = self.dsl, self.rng
        if cls is not None:
            for _ in range(200):
                e = self._of_class(cls, depth)
                if e is not None:
                    return e
            raise RuntimeError(f"cannot generate an expression of class {cls}")
        if depth == 0:
            return self.atom() if rng.random() < 0.92 else rng.choice([dsl.One(), dsl.Zero()])
        k = rng.random()
        if k < 0.3:
            return self.atom()
        if k < 0.55:
            return self._of_class("Product", depth) or self.atom()
        if k < 0.8:
            return self._of_class("Sum", depth) or self.atom()
        return self._of_class("Fraction", depth) or self.atom()

    def _of_class(self, cls, depth):
        dsl, rng = self.dsl, self.rng
        d = max(depth - 1, 0)
        if cls in ("Probability",):
            return rng.choice(self.plain_atoms)
        if cls == "PopulationProbability":
            c = [a for a in self.atoms if type(a).__name__ == "PopulationProbability"]
            return rng.choice(c) if c else None
        if cls == "QFactor":
            c = [a for a in self.atoms if type(a).__name__ == "QFactor"]
            return rng.choice(c) if c else None
        if cls == "One":
            return dsl.One()
        if cls == "Zero":
            return dsl.Zero()
        if cls == "Product":
            xs = [self.gen(d) for _ in range(rng.randint(2, self.max_factors))]
            return dsl.Product(tuple(xs))
        if cls == "Sum":
            e = self.gen(d)
            f = sorted(free_vars(e))
            if not f or isinstance(e, dsl.Zero):
                return None
            rs = rng.sample(f, rng.randint(1, len(f)))
            if rng.random() < 0.25:
                rs = sorted(set(rs) | {rng.choice(NAMES)})
            return dsl.Sum(e, frozenset(dsl.Variable(n) for n in rs))
        if cls == "Fraction":
            n, dd = self.gen(d), self.gen(d)
            if isinstance(dd, dsl.Zero):
                return None
            return dsl.Fraction(n, dd)
        return None
