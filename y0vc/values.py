"""Symbolic value kinds (DESIGN §2.2)."""
from __future__ import annotations

import z3


class OutOfSubset(Exception):
    """The function uses a construct the generator does not model: obligations are undecided, never failed."""


class V:
    mutable = False


class VNone(V):
    def __repr__(self):
        return "None"


NONE = VNone()


class VBool(V):
    def __init__(self, t):
        self.t = z3.BoolVal(t) if isinstance(t, bool) else t

    def __repr__(self):
        return f"Bool({self.t})"


class VInt(V):
    def __init__(self, t):
        self.t = z3.IntVal(t) if isinstance(t, int) else t

    def const(self):
        s = z3.simplify(self.t)
        return s.as_long() if z3.is_int_value(s) else None


class VStr(V):
    def __init__(self, s):
        self.s = s

    def __repr__(self):
        return f"Str({self.s!r})"


class VNode(V):
    """A Variable object (graph node)."""
    def __init__(self, t):
        self.t = t

    def __repr__(self):
        return f"Node({self.t})"


class VTuple(V):
    def __init__(self, items):
        self.items = list(items)


class _Tracked:
    """Mixin for mutable containers that can be switched to delta-tracking mode inside loop bodies.

    While a loop body is explored, every container reachable from the live frames is *tracked*: writes go to a delta
    that starts empty, reads see the state before the loop and are recorded.  A container that is both read and
    written by the body is rejected after the exploration (the foreach-additive rule needs the body to be independent
    of the accumulator)."""
    tracked = False
    read_in_loop = False

    def _check_read(self):
        if self.tracked:
            self.read_in_loop = True


class VSet(V, _Tracked):
    """A set / frozenset / order-abstracted list of nodes (arity 1) or node tuples (arity n).

    `pred` is a callable from z3 Node terms to a z3 Bool.  Lists built by comprehensions over
    unordered sources are represented the same way with kind='list' (order and multiplicity abstracted);
    any order-sensitive use of such a list is outside the subset.
    """
    mutable = True

    def __init__(self, pred, arity=1, kind="set", owned=True):
        self._pred = pred
        self.arity = arity
        self.kind = kind
        self.owned = owned

    def has(self, *ts):
        return self.pred(*ts)

    @property
    def pred(self):
        self._check_read()
        return self._saved if self.tracked else self._pred

    def add_pred(self, p):
        old = self._pred
        self._pred = lambda *ts: z3.Or(old(*ts), p(*ts))

    def set_pred(self, p):
        if self.tracked:
            raise OutOfSubset("a loop body removes from / overwrites a container (needs a sidecar invariant)")
        self._pred = p


class VSeq(V):
    """A duplicate-free sequence of nodes: membership predicate + strict total order `before` on members."""
    def __init__(self, mem, before):
        self.mem = mem
        self.before = before


class VPos(V):
    """An index into a VSeq: the position of element `elem` plus a constant offset."""
    def __init__(self, seq, elem, offset=0):
        self.seq, self.elem, self.offset = seq, elem, offset


class VComp(V):
    """A lazily described collection { elt | consts . guard } (result of a comprehension / generator).

    `consts` are fresh z3 constants bound by the comprehension; `elt` is any value mentioning them.
    `ordered` is None for unordered sources."""
    def __init__(self, consts, guard, elt, kind="gen"):
        self.consts, self.guard, self.elt, self.kind = consts, guard, elt, kind


class VNx(V, _Tracked):
    """A networkx Graph / DiGraph: node predicate, edge predicate (kept symmetric when undirected),
    boolean node attributes (tag -> predicate) with a has-attribute predicate, graph-level flags."""
    mutable = True

    def __init__(self, directed, N, E, owned=True, nattrs=None, gattrs=None):
        self.directed = directed
        self._N, self._E = N, E
        self.owned = owned
        self.nattrs = dict(nattrs or {})    # tag -> (has_pred, val_pred)
        self.gattrs = dict(gattrs or {})

    def N(self, x):
        return self.curN(x)

    def E(self, a, b):
        return self.curE(a, b)

    @property
    def curN(self):
        self._check_read()
        return self._saved[0] if self.tracked else self._N

    @property
    def curE(self):
        self._check_read()
        return self._saved[1] if self.tracked else self._E

    def add_N(self, p):
        old = self._N
        self._N = lambda x: z3.Or(old(x), p(x))

    def add_E(self, p):
        old = self._E
        if self.directed:
            self._E = lambda a, b: z3.Or(old(a, b), p(a, b))
        else:
            self._E = lambda a, b: z3.Or(old(a, b), p(a, b), p(b, a))


class VGraph(V):
    """NxMixedGraph: a dataclass of a DiGraph and a Graph.  Data invariant (assumed for parameters, proved for
    results): both components have the same node set; the undirected edge relation is symmetric."""
    mutable = True

    def __init__(self, directed: VNx, undirected: VNx, owned=True):
        self.directed, self.undirected, self.owned = directed, undirected, owned

    # convenience views used by contracts
    def N(self, x):
        return self.directed.N(x)

    def D(self, a, b):
        return self.directed.E(a, b)

    def U(self, a, b):
        return self.undirected.E(a, b)


class VFam(V):
    """A set of frozensets of nodes as an indexed family {F(r) | r in idx}."""
    def __init__(self, idx, mem):
        self.idx, self.mem = idx, mem      # idx: Node->Bool ; mem: (r, x) -> Bool


class VObj(V):
    """Instance of a y0 dataclass / plain class, as a record of fields."""
    mutable = True

    def __init__(self, cls, fields, owned=True):
        self.cls, self.fields, self.owned = cls, dict(fields), owned


class VDict(V, _Tracked):
    """Finite map with node keys: domain predicate and value function (python callable on z3 terms returning V)."""
    mutable = True

    def __init__(self, dom, val, owned=True):
        self.dom, self.val, self.owned = dom, val, owned


class VFunc(V):
    """Callable: kind in {'y0', 'builtin', 'lambda', 'partial', 'class', 'boundlib'}."""
    def __init__(self, kind, target, self_val=None, extra=None):
        self.kind, self.target, self.self_val, self.extra = kind, target, self_val, extra


class VModule(V):
    def __init__(self, name):
        self.name = name


class VFStr(V):
    """an f-string: the evaluated parts in order (constants as python str)"""
    def __init__(self, parts):
        self.parts = parts


class VAttrs(V):
    """the attribute dict of one node of a networkx graph (`graph.nodes[n]`, the values of `graph.nodes.items()`)"""
    def __init__(self, nx, node_t):
        self.nx, self.node_t = nx, node_t


class VOpaque(V):
    """A value the generator does not interpret (strings built by f-strings, exceptions, ...)."""
    def __init__(self, what=""):
        self.what = what


def freeze(v):
    """Snapshot of a mutable container as it is *now* (values derived from a container must not see later mutations;
    reading a container that a loop body is accumulating into is rejected here, at the time of the read)."""
    if isinstance(v, VNx):
        if getattr(v, "frozen", False):
            return v
        r = VNx(v.directed, v.curN, v.curE, owned=False, nattrs=dict(v.nattrs), gattrs=v.gattrs)
        r.frozen = True
        return r
    if isinstance(v, VSet):
        if getattr(v, "frozen", False):
            return v
        r = VSet(v.pred, arity=v.arity, kind=v.kind, owned=False)
        for k in ("nx_view", "seq_view", "known_empty", "two_items", "array"):
            if hasattr(v, k):
                setattr(r, k, getattr(v, k))
        r.frozen = True
        return r
    if isinstance(v, VGraph):
        if getattr(v, "frozen", False):
            return v
        r = VGraph(freeze(v.directed), freeze(v.undirected), owned=False)
        r.frozen = True
        return r
    if isinstance(v, VDict):
        v._check_read()
        r = VDict(v.dom, v.val, owned=False)
        return r
    if isinstance(v, VTuple):
        return VTuple([freeze(i) for i in v.items])
    return v
