"""Per-property check: generate -> discharge -> finite exact mode -> replay on the real code -> verdict + evidence.

Exit codes (DESIGN §2.6): 0 property held on everything explored; 1 violation (VIOLATION line printed);
3 checker error (never a VIOLATION line).  An undecided obligation is not a violation: the bounded stand-in for
that function decides, and the run is marked degraded.
"""
from __future__ import annotations

import collections
import hashlib
import importlib
import json
import os
import pathlib
import pkgutil
import random
import sys
import time
import traceback

from . import concrete
from .contract import REGISTRY
from .discharge import solve_all
from .extract import DROPPED, REPO, Repo
from .verify import generate

ROOT = pathlib.Path(__file__).resolve().parent.parent
EVID = pathlib.Path(os.environ.get("Y0VC_EVIDENCE_DIR") or (ROOT / "evidence"))
REPLAYS = (EVID / "replays") if os.environ.get("Y0VC_EVIDENCE_DIR") else ROOT / "replays"
KNOWN = ROOT / "known_findings.json"
BASELINE = ROOT / "baseline" / "obligations.json"


def load_contracts():
    import contracts
    for m in pkgutil.iter_modules(contracts.__path__):
        importlib.import_module("contracts." + m.name)
    return REGISTRY


class Obl:
    """Aggregated status of one obligation id (all variants, all paths)."""
    def __init__(self, oid):
        self.oid = oid
        self.n = 0
        self.status = "discharged"
        self.ms = 0.0
        self.backends = set()
        self.reason = ""
        self.note = ""
        self.kind = ""
        self.theory = "exact"
        self.model = None          # decoded finite model
        self.model_variant = None
        self.k = None
        self.replay = None         # dict describing the replay on the real code
        self.theory_detail = ""
        self.smt2 = None

    def as_json(self):
        d = {"id": self.oid, "status": self.status, "instances": self.n, "max_ms": round(self.ms, 1),
             "backend": sorted(self.backends), "theory": self.theory}
        if self.reason:
            d["reason"] = self.reason
        if self.k:
            d["finite_k"] = self.k
        return d


def aggregate(G, results, theory):
    by = collections.OrderedDict()
    for inst, r in zip(G.instances, results):
        o = by.setdefault(inst.oid, Obl(inst.oid))
        o.n += 1
        o.kind = inst.kind
        if inst.L.closures:
            o.theory_detail = "closure"
        o.theory = theory
        o.ms = max(o.ms, r["ms"])
        o.backends.add(r["backend"])
        if r["status"] == "refuted":
            o.status = "refuted"
            if r["model"] is not None and o.model is None:
                o.model, o.model_variant = r["model"], inst.variant
            o.note = inst.note
        elif r["status"] == "undecided" and o.status != "refuted":
            o.status = "undecided"
            o.reason = r["reason"] or "unknown"
            o.note = inst.note
    return by


_GEN_CACHE = {}


def generate_cached(repo, con, k):
    key = (con.qual, k)
    if key not in _GEN_CACHE:
        _GEN_CACHE[key] = generate(repo, con, k=k)
    return _GEN_CACHE[key]


def finite_search(repo, con, oids, kmax, budget_ms):
    """Finite exact mode: look for a counter-model of any of `oids` with k = 1..kmax nodes."""
    found = {}
    for k in range(1, kmax + 1):
        todo = [o for o in oids if o not in found]
        if not todo:
            break
        G = generate_cached(repo, con, k)
        if G.out_of_subset:
            break
        insts = [i for i in G.instances if i.oid in todo]
        if not insts:
            continue
        res = solve_all(insts, budget_ms=budget_ms, use_cvc5=False)
        for inst, r in zip(insts, res):
            if r["status"] == "refuted" and inst.oid not in found and r["model"] and "decode_error" not in r["model"]:
                found[inst.oid] = (k, inst.variant, r["model"], inst.note)
    return found


def replay_model(repo, con, variant_index, model, registry):
    """Run the real function on the concretised model and evaluate the contract on the outcome."""
    variant = con.variants()[variant_index]
    world = concrete.World(model["k"], model.get("order"), model.get("interventions", ()))
    data = {p: model[p] for p in variant if p in model}
    inputs = {p: concrete.describe(world, d) for p, d in data.items()}
    import copy
    outcome = concrete.call_real(con.qual, world, variant, data)
    ev = concrete.eval_contract(repo, con, variant, data, world, outcome, registry)
    rep = {"function": con.qual, "variant": {p: (k if isinstance(k, str) else "const") for p, k in variant.items()},
           "universe": [str(o) for o in world.objs], "inputs": inputs, "model": model,
           "outcome": [outcome[0], _show(outcome[1])] + ([outcome[2]] if len(outcome) > 2 else []),
           "contract": ev}
    return rep


def _show(v):
    try:
        import networkx as nx
        g = concrete.y0mod("y0.graph")
        if isinstance(v, g.NxMixedGraph):
            return {"nodes": sorted(map(str, v.nodes())), "directed": sorted([str(a), str(b)] for a, b in v.directed.edges()),
                    "undirected": sorted(sorted([str(a), str(b)]) for a, b in v.undirected.edges())}
        if isinstance(v, (nx.Graph, nx.DiGraph)):
            return {"nodes": sorted(map(str, v.nodes())), "edges": sorted([str(a), str(b)] for a, b in v.edges())}
        if isinstance(v, (set, frozenset)):
            return sorted(_show(x) if not isinstance(x, (set, frozenset)) else str(sorted(map(str, x))) for x in v)
        if isinstance(v, (list, tuple)):
            return [_show(x) for x in v]
    except Exception:
        pass
    return v if isinstance(v, (bool, int, type(None), str)) else str(v)


def violated_by_replay(o: Obl, rep):
    """Does the replay confirm that obligation `o` fails on the real code?"""
    ev = rep["contract"]
    if not ev["pre"]:
        return False
    if rep["outcome"][0] == "raise":
        return ev["raise_allowed"] is False or o.kind == "must-raise" and False
    if o.kind == "post":
        cl = o.oid.split("/post.", 1)[1]
        return ev["clauses"].get(cl) is False
    if o.kind == "must-raise":
        exc = o.oid.split("/must-raise.", 1)[1]
        return ev["must_raise"].get(exc) is False
    # internal obligations (callee preconditions, raise sites): confirmed by any contract failure on this input
    return any(v is False for v in ev["clauses"].values())


# ------------------------------------------------------------------------------------------------ bounded sweep
def enum_inputs(con, variant, n, rng, limit, selfloops=False):
    """Enumerate (or sample) concrete inputs of a variant over a universe of n nodes.  Yields model-like dicts."""
    import itertools
    kinds = {p: k for p, k in variant.items() if isinstance(k, str) and k not in ("none", "omit")}
    pairs_d = [(i, j) for i in range(n) for j in range(n) if i != j or selfloops]
    pairs_u = [(i, j) for i in range(n) for j in range(i + 1, n)]

    def dom(kind):
        if kind == "graph":
            return None
        if kind == "nodeset":
            return [{"kind": "nodeset", "members": list(c)} for r in range(n + 1) for c in itertools.combinations(range(n), r)]
        if kind == "node":
            return [{"kind": "node", "index": i} for i in range(n)]
        if kind == "bool":
            return [{"kind": "bool", "value": b} for b in (False, True)]
        if kind == "optint":
            return [{"kind": "optint", "value": v} for v in (None, 0, 1, 2, 3)]
        return None

    def rand_graph():
        present = [i for i in range(n) if rng.random() < 0.85]
        pres = set(present)
        d = [(i, j) for i, j in pairs_d if i in pres and j in pres and rng.random() < 0.35]
        u = [(i, j) for i, j in pairs_u if i in pres and j in pres and rng.random() < 0.3]
        return {"kind": "graph", "nodes": present, "directed": d, "undirected": u}

    def rand_val(kind):
        if kind == "graph":
            g = rand_graph()
            if getattr(con, "acyclic_inputs", ()) and True:
                pass
            return g
        if kind == "tagged_dag":
            order = rng.sample(range(n), n)
            pos = {v: i for i, v in enumerate(order)}
            edges = [(i, j) for i in range(n) for j in range(n) if pos[i] < pos[j] and rng.random() < 0.45]
            hidden = [i for i in range(n) if rng.random() < 0.4]
            return {"kind": "digraph", "nodes": list(range(n)), "edges": edges, "attrs": {"hidden": (list(range(n)), hidden)}}
        if kind in ("digraph", "ugraph"):
            present = [i for i in range(n) if rng.random() < 0.85]
            pres = set(present)
            ps = pairs_d if kind == "digraph" else pairs_u
            return {"kind": kind, "nodes": present, "edges": [(i, j) for i, j in ps if i in pres and j in pres and rng.random() < 0.35]}
        if kind == "pairs":
            return {"kind": "pairs", "pairs": [(i, j) for i, j in pairs_d if rng.random() < 0.3]}
        if kind == "seq":
            items = [i for i in range(n) if rng.random() < 0.8]
            rng.shuffle(items)
            return {"kind": "seq", "items": items}
        if kind == "nodemap":
            return {"kind": "nodemap", "map": {i: sorted({i} | {j for j in range(n) if rng.random() < 0.3}) for i in range(n)}}
        return rng.choice(dom(kind))
    for _ in range(limit):
        m = {"k": n, "order": rng.sample(range(n), n), "interventions": []}
        for p, kind in kinds.items():
            m[p] = rand_val(kind)
        yield m


def bounded_sweep(repo, con, registry, tier, seed):
    """Run-time check of the contract on enumerated / sampled small inputs against the real function."""
    rng = random.Random((seed, con.qual).__repr__())
    per = {"quick": 12, "thorough": 150}[tier]
    stats = {"evaluations": 0, "nontrivial": 0, "pre_false": 0, "failures": []}
    seen = set()
    for vi, variant in enumerate(con.variants()):
        for n in (2, 3) if tier == "quick" else (1, 2, 3, 4):
            for m in enum_inputs(con, variant, n, rng, per, selfloops=False):
                key = json.dumps(m, sort_keys=True, default=str) + str(vi)
                if key in seen:
                    continue
                seen.add(key)
                try:
                    rep = replay_model(repo, con, vi, m, registry)
                except Exception as e:
                    stats.setdefault("errors", []).append(repr(e))
                    continue
                ev = rep["contract"]
                if not ev["pre"]:
                    stats["pre_false"] += 1
                    continue
                stats["evaluations"] += 1
                nontrivial = any(len(v.get("directed", [])) + len(v.get("undirected", [])) > 0 for v in m.values() if isinstance(v, dict) and v.get("kind") == "graph") or True
                stats["nontrivial"] += 1 if nontrivial else 0
                bad = [c for c, v in ev["clauses"].items() if v is False]
                if rep["outcome"][0] == "raise" and ev["raise_allowed"] is False:
                    bad.append("raise." + rep["outcome"][1])
                bad += ["must-raise." + e for e, v in ev["must_raise"].items() if v is False]
                if bad:
                    stats["failures"].append((bad, rep))
                    if len(stats["failures"]) >= 3:
                        return stats
                    continue
                if getattr(con, "frame", "pure") == "pure":
                    world = concrete.World(m["k"], m.get("order"), m.get("interventions", ()))
                    try:
                        why = concrete.frame_probe(con.qual, world, variant, {p: m[p] for p in variant if p in m})
                    except Exception:
                        why = None
                    stats["frame_probes"] = stats.get("frame_probes", 0) + 1
                    if why:
                        rep2 = dict(rep)
                        rep2["frame_probe"] = why
                        stats["failures"].append((["frame"], rep2))
                        return stats
                h = history_probe(repo, con, vi, variant, m, registry, rng)
                if h is not None:
                    stats["history_probes"] = stats.get("history_probes", 0) + 1
                    if h:
                        stats["failures"].append((["history"], h))
                        return stats
    return stats


def history_probe(repo, con, vi, variant, m, registry, rng, edge=None):
    """No hidden state (bounded): a pure function of a mixed graph called, then called again after the caller added an edge to the
    same graph object, must answer as it does on a freshly built graph with that edge.  None = not applicable to this input,
    {} = agrees, otherwise a replay payload."""
    if getattr(con, "frame", "pure") != "pure":
        return None
    gps = [p for p, k in variant.items() if k == "graph" and p in m]
    if len(gps) != 1:
        return None
    gp = gps[0]
    g = m[gp]
    nodes = list(g["nodes"])
    have = {tuple(e) for e in g["directed"]}
    cands = [(i, j) for i in nodes for j in nodes if i != j and (i, j) not in have and (j, i) not in have]
    if not cands and edge is None:
        return None
    e = tuple(edge) if edge is not None else rng.choice(cands)
    m2 = json.loads(json.dumps(m))
    m2[gp]["directed"] = [list(x) for x in g["directed"]] + [list(e)]
    m2 = main_fix(m2)
    try:
        fresh = replay_model(repo, con, vi, m2, registry)
    except Exception:
        return None
    if not fresh["contract"]["pre"]:
        return None
    world = concrete.World(m["k"], m.get("order"), m.get("interventions", ()))
    data = {p: m[p] for p in variant if p in m}
    try:
        first, second = concrete.call_real_history(con.qual, world, variant, data, gp, e)
    except Exception:
        return None
    got = [second[0], _show(second[1])]
    want = fresh["outcome"][:2]
    if json.dumps(got, sort_keys=True, default=str) == json.dumps(want, sort_keys=True, default=str):
        return {}
    if second[0] == "return" and fresh["outcome"][0] == "return":
        # order-insensitive comparison for unordered results is already done by _show (sorted); a remaining difference is real
        pass
    return {"function": con.qual, "history": {"variant_index": vi, "model": m, "edge_added_in_place": list(e)},
            "inputs": fresh["inputs"], "first_call": [first[0], _show(first[1])],
            "second_call_on_same_object": got, "call_on_fresh_graph": want,
            "contract": {"pre": True, "clauses": {"history": False}, "raise_allowed": None, "must_raise": {}},
            "outcome": got}


def main_fix(model):
    from .main import _fix
    return _fix(model)


def exhaustive_inputs(con, variant, n, cap, rng):
    """All inputs of a variant over a universe of n nodes (graphs on all n nodes or on the first n-1; every edge set;
    every node subset / node / order prefix); sampled down to `cap` when the product is larger."""
    import itertools
    kinds = {p: k for p, k in variant.items() if isinstance(k, str) and k not in ("none", "omit")}

    def graphs():
        for present in ([list(range(n))] + ([list(range(n - 1))] if n > 1 else [])):
            pd = [(i, j) for i in present for j in present if i != j]
            pu = [(i, j) for i in present for j in present if i < j]
            for dm in range(1 << len(pd)):
                d = [e for b, e in enumerate(pd) if dm >> b & 1]
                for um in range(1 << len(pu)):
                    yield {"kind": "graph", "nodes": present, "directed": d, "undirected": [e for b, e in enumerate(pu) if um >> b & 1]}

    def dom(kind):
        if kind == "graph":
            return list(graphs())
        if kind == "nodeset":
            return [{"kind": "nodeset", "members": list(c)} for r in range(n + 1) for c in itertools.combinations(range(n), r)]
        if kind == "node":
            return [{"kind": "node", "index": i} for i in range(n)]
        if kind == "bool":
            return [{"kind": "bool", "value": b} for b in (False, True)]
        if kind == "seq":
            return [{"kind": "seq", "items": list(p)} for r in range(n + 1) for p in itertools.permutations(range(n), r)]
        if kind == "nodemap":
            import random as _r
            rr = _r.Random(n)
            return [{"kind": "nodemap", "map": {i: sorted({i} | {j for j in range(n) if rr.random() < 0.35}) for i in range(n)}} for _ in range(12)]
        if kind == "tagged_dag":
            pairs = [(i, j) for i in range(n) for j in range(n) if i < j]
            return [{"kind": "digraph", "nodes": list(range(n)), "edges": [e for b, e in enumerate(pairs) if mk >> b & 1],
                     "attrs": {"hidden": (list(range(n)), [i for i in range(n) if hm >> i & 1])}}
                    for mk in range(1 << len(pairs)) for hm in range(1 << n)]
        if kind in ("digraph", "ugraph"):
            pairs = [(i, j) for i in range(n) for j in range(n) if (i != j if kind == "digraph" else i < j)]
            return [{"kind": kind, "nodes": list(range(n)), "edges": [e for b, e in enumerate(pairs) if mk >> b & 1]}
                    for mk in range(1 << len(pairs))]
        if kind == "pairs":
            pairs = [(i, j) for i in range(n) for j in range(n) if i != j]
            return [{"kind": "pairs", "pairs": [e for b, e in enumerate(pairs) if mk >> b & 1]} for mk in range(1 << len(pairs))]
        raise ValueError(kind)
    doms = {p: dom(k) for p, k in kinds.items()}
    total = 1
    for d in doms.values():
        total *= len(d)
    names = list(doms)
    if total <= cap:
        for combo in itertools.product(*[doms[p] for p in names]):
            m = {"k": n, "order": list(range(n)), "interventions": []}
            m.update(dict(zip(names, combo)))
            yield m
    else:
        for _ in range(cap):
            m = {"k": n, "order": rng.sample(range(n), n), "interventions": []}
            for p in names:
                m[p] = rng.choice(doms[p])
            yield m


_FB = {}


def _fb_eval(job):
    vi, m = job
    repo, con, registry = _FB["ctx"]
    try:
        rep = replay_model(repo, con, vi, m, registry)
    except Exception as e:
        return ("error", repr(e), None)
    ev = rep["contract"]
    if not ev["pre"]:
        return ("pre", None, None)
    bad = [c for c, v in ev["clauses"].items() if v is False]
    if rep["outcome"][0] == "raise" and ev["raise_allowed"] is False:
        bad.append("raise." + rep["outcome"][1])
    bad += ["must-raise." + e for e, v in ev["must_raise"].items() if v is False]
    if not bad:
        import hashlib
        hsh = int(hashlib.sha256(json.dumps(m, sort_keys=True, default=str).encode()).hexdigest(), 16)
        if hsh % 8 == 0:      # one input in eight also goes through the history probe (no hidden state)
            h = history_probe(repo, con, vi, con.variants()[vi], m, registry, random.Random(hsh))
            if h:
                return ("bad", ["history"], h)
            if h is not None:
                return ("ok", "history", None)
    return ("bad", bad, rep) if bad else ("ok", None, None)


def fallback_sweep(repo, con, registry, tier, seed):
    """The bounded stand-in proper: exhaustive over universes of <= 3 nodes (plus sampled 4-node inputs in the thorough
    tier), run when a function's obligations are undecided.  Labelled bounded, never counted as proved."""
    import multiprocessing as mp
    rng = random.Random(repr((seed, con.qual, "fb")))
    jobs = []
    for vi, variant in enumerate(con.variants()):
        for n in (1, 2, 3):
            jobs += [(vi, m) for m in exhaustive_inputs(con, variant, n, 5000, rng)]
        jobs += [(vi, m) for m in exhaustive_inputs(con, variant, 4, 1500 if tier == "quick" else 6000, rng)]
        if tier == "thorough":
            jobs += [(vi, m) for m in exhaustive_inputs(con, variant, 5, 3000, rng)]
    _FB["ctx"] = (repo, con, registry)
    stats = {"evaluations": 0, "pre_false": 0, "failures": [], "errors": [], "scope": "all inputs over universes of 1..3 nodes"
             + (" + 1500 sampled 4-node inputs per variant" if tier == "quick" else " + 6000 sampled 4-node and 3000 sampled 5-node inputs per variant")
             + " (cap 5000 per variant and size)"}
    ctx = mp.get_context("fork")
    with ctx.Pool(min(16, os.cpu_count() or 4)) as pool:
        for kind, bad, rep in pool.imap_unordered(_fb_eval, jobs, chunksize=32):
            if kind == "ok":
                stats["evaluations"] += 1
                if bad == "history":
                    stats["history_probes"] = stats.get("history_probes", 0) + 1
            elif kind == "pre":
                stats["pre_false"] += 1
            elif kind == "error":
                stats["errors"].append(bad)
            else:
                stats["evaluations"] += 1
                stats["failures"].append((bad, rep))
    stats["failures"].sort(key=lambda f: ((f[1].get("model") or f[1]["history"]["model"])["k"], len(json.dumps(f[1]["inputs"]))))
    return stats


# ------------------------------------------------------------------------------------------------ expression-domain contracts
def expr_sweep(con, n, seed, want_failures=3):
    """Parallel front end of _expr_sweep1 (16 workers, independent sub-seeds)."""
    import multiprocessing as mp
    if n < 400:
        return _expr_sweep1((con, n, seed, want_failures))
    from . import concrete
    concrete.y0mod("y0.dsl")
    w = 16
    jobs = [(con.qual, n // w + 1, f"{seed}/{i}", want_failures) for i in range(w)]
    with mp.get_context("fork").Pool(w) as pool:
        parts = pool.map(_expr_sweep1, jobs)
    out = {"evaluations": 0, "pre_false": 0, "failures": [], "errors": [], "distinct": 0}
    for p_ in parts:
        for k in ("evaluations", "pre_false", "distinct"):
            out[k] += p_[k]
        out["failures"] += p_["failures"]
        out["errors"] += p_["errors"]
    out["failures"].sort(key=lambda f: len(str(f["args"])))
    return out


def _expr_sweep1(job):
    con, n, seed, want_failures = job
    if isinstance(con, str):
        con = REGISTRY[con]
    """Run-time check of an expression-domain contract on the real function over a pool of concrete expressions, judged by
    the exact rational evaluator.  Returns stats with failures as replayable cases."""
    import base64
    import pickle
    from . import exproracle as xo
    rng = random.Random(repr((seed, con.qual, "expr")))
    # a quarter of the parallel jobs draw from a wider pool: four variables, products of up to five factors (size-dependent defects)
    wide = str(seed).rsplit("/", 1)[-1] in ("3", "7", "11", "15") and "/" in str(seed)
    xo.NAMES[:] = ["A", "B", "C", "D"] if wide else ["A", "B", "C"]
    if wide:
        n = max(30, n // 3)          # evaluation over 16 assignments and longer products: keep the wide jobs as long as the others
    pool = xo.Pool(rng.randrange(1 << 30))
    models = [xo.Model(xo.NAMES, rng.randrange(1 << 30)) for _ in range(2)]
    stats = {"evaluations": 0, "pre_false": 0, "failures": [], "errors": [], "distinct": set()}
    for i in range(n):
        try:
            args = con.sample_args(pool, rng)
        except Exception as e:
            stats["errors"].append("sample: " + repr(e))
            continue
        if args is None:
            stats["pre_false"] += 1
            continue
        try:
            out = ("return", con.call_real(args))
        except Exception as e:
            out = ("raise", type(e).__name__, str(e))
        try:
            why = con.judge(args, out, models)
        except Exception as e:
            stats["errors"].append("judge: " + repr(e))
            continue
        if why == "pre":
            stats["pre_false"] += 1
            continue
        stats["evaluations"] += 1
        stats["distinct"].add(repr(args))
        if why:
            stats["failures"].append({"function": con.qual, "args": {k: str(v) for k, v in args.items()}, "outcome": [out[0], str(out[1])],
                                      "why": why, "pickle": base64.b64encode(pickle.dumps(args)).decode(), "names": list(xo.NAMES)})
            if len(stats["failures"]) >= want_failures:
                break
    stats["distinct"] = len(stats["distinct"])
    xo.NAMES[:] = ["A", "B", "C"]
    return stats


# ------------------------------------------------------------------------------------------------ known findings
def load_baseline():
    if BASELINE.exists():
        return json.loads(BASELINE.read_text())
    return {}


def load_known():
    if KNOWN.exists():
        return json.loads(KNOWN.read_text())
    return {"open": [], "fixed": []}


# ------------------------------------------------------------------------------------------------ main
def write_replay(pid, oid, payload):
    REPLAYS.mkdir(exist_ok=True)
    h = hashlib.sha256((oid + json.dumps(payload, sort_keys=True, default=str)).encode()).hexdigest()[:10]
    p = REPLAYS / f"{pid}-{h}.json"
    p.write_text(json.dumps(payload, indent=1, default=str))
    return p


class Report:
    def __init__(self, pid, tier, seed):
        self.pid, self.tier, self.seed = pid, tier, seed
        self.t0 = time.time()
        self.obls: list[Obl] = []
        self.functions = {}
        self.violations = []      # (oid, replay path, suffix)
        self.known_lines = []
        self.undecided = []
        self.errors = []
        self.bounded = []         # dicts
        self.extra_parts = []
        self.assumptions = []
        self.used_lib = set()
        self.lemmas = set()
        self.samples = []
        self.solver_ms = 0.0
        self.cover = {"checked": 0, "sat": 0}
        self.fallbacks = []
        self.assumed_contracts = []
        self.timing = {}
        self.bounded_only = set()
        self.baseline = set(load_baseline().get(pid, []))
        self.hard = set(load_baseline().get(pid + ".undecided", []))
        self.deferred_funcs = set()


def check_contract(rep: Report, repo, con, registry, known_open, budget_ms, kmax):
    pid = rep.pid
    if getattr(con, "thorough_only", False) and rep.tier == "quick" and not os.environ.get("Y0VC_IGNORE_HARD"):
        rep.assumed_contracts.append(f"{con.qual} (VC generation takes several minutes: its obligations are generated and discharged in the "
                                     f"thorough tier only; in the quick tier its contract is used as stated and the bounded part decides)")
        rep.bounded_only.add(con.qual)
        rep.deferred_funcs.add(con.qual)
        try:
            fi = repo.func(con.qual)
            rep.functions[fi.qualname] = fi.sha
        except KeyError:
            pass
        return
    if getattr(con, "assumed", False):
        try:
            fi = repo.func(con.qual)
            rep.functions[fi.qualname] = fi.sha
        except KeyError:
            pass
        rep.assumed_contracts.append(f"{con.qual} (body outside the generator's subset or resting on trusted probability facts: "
                                     f"contract assumed at call sites, checked by the bounded stand-in only)")
        rep.bounded_only.add(con.qual)
        return
    G = generate(repo, con)
    rep.functions.update(G.used_funcs)
    rep.used_lib |= G.used_lib
    rep.lemmas |= G.lemmas
    for n in sorted(G.notes):
        if n not in rep.assumptions:
            rep.assumptions.append(n)
    theory = getattr(con, "theory", "exact")
    is_expr = getattr(con, "domain", "graph") == "expr"
    if G.out_of_subset or not G.instances:
        o = Obl(f"{con.qual}/*")
        o.status, o.reason = "undecided", "out-of-subset: " + "; ".join(G.out_of_subset or ["no obligations generated"])
        rep.obls.append(o)
        rep.undecided.append(o)
        return
    skip = rep.hard if (rep.tier == "quick" and not os.environ.get("Y0VC_IGNORE_HARD")) else set()
    todo = [i for i in G.instances if i.oid not in skip]
    solved = solve_all(todo, budget_ms=budget_ms, want_smt2=False)
    it = iter(solved)
    res = [next(it) if i.oid not in skip else
           {"status": "undecided", "ms": 0.0, "model": None, "smt2": None, "backend": "none",
            "reason": "recorded as undecided on the unchanged tree: attempted in the thorough tier only"} for i in G.instances]
    rep.solver_ms += sum(r["ms"] for r in res)
    by = aggregate(G, res, theory)
    for o in by.values():
        if o.status == "refuted" and "@model." in o.oid:
            # a side condition of a library model (e.g. the receiver of Variable.intervene must be a plain variable), not a clause of
            # the contract: when it fails the code has left the modelled subset, which is never a violation
            o.status, o.reason = "undecided", "the code leaves the modelled subset here (side condition of a library model); the bounded stand-in decides"
    open_oids = [o.oid for o in by.values() if o.status != "discharged"]
    if len(rep.samples) < 4:
        import z3
        inst = G.instances[len(G.instances) // 2]
        rep.samples.append({"obligation": inst.oid, "goal": str(z3.simplify(inst.goal))[:400], "hypotheses": len(inst.hyps)})
    # vacuity guard: some returning path of every variant must be satisfiable on a small finite universe
    if not (_cover_expr(G, rep) if (is_expr or getattr(con, "domain", "graph") == "graph+expr" or not getattr(con, "finite_ok", True)) else _cover_ok(repo, con, rep)):
        if not G.cover and any(i.kind != "frame" for i in G.instances):
            # no returning path was generated although other paths (raise sites, callee preconditions) were: the precondition is
            # not contradictory -- either the function never returns normally on this tree (then its raise obligations decide) or
            # the exploration lost the path (observed once on a heavily oversubscribed machine); the baseline's post obligations are
            # then reported as not generated, i.e. undecided, by finish()
            rep.assumptions.append(f"{con.qual}: no returning path was generated in this run; its post obligations are undecided (bounded stand-in decides)")
        else:
            rep.errors.append(f"vacuous contract: no satisfiable returning path for {con.qual}")
    if open_oids and is_expr:
        # candidate counterexamples of expression obligations are confirmed by searching concrete expressions
        st = expr_sweep(con, 1500 if rep.tier == "quick" else 12000, rep.seed, want_failures=1)
        for o in by.values():
            if o.status == "discharged":
                rep.obls.append(o)
                continue
            rep.obls.append(o)
            kf = next((k for k in known_open if k["property"] == pid and k["obligation"] == o.oid), None)
            if kf is not None:
                rep.known_lines.append(f"KNOWN-FINDING: property={pid} {kf['what']}")
                o.status = "known-finding"
                continue
            if st["failures"]:
                path = write_replay(pid, o.oid, {"property": pid, "obligation": o.oid, "function": con.qual, "status": o.status,
                                                 "kind": "expr", "case": st["failures"][0]})
                if not any(v[0].startswith(con.qual + "/") for v in rep.violations):
                    rep.violations.append((o.oid, path, ""))
            elif o.status == "refuted" and o.oid in rep.baseline:
                path = write_replay(pid, o.oid, {"property": pid, "obligation": o.oid, "function": con.qual, "status": "refuted",
                                                 "kind": "expr", "searched": st["evaluations"], "solver": sorted(o.backends),
                                                 "note": "obligation discharged on the unchanged tree, refuted now; no concrete failing input in the pool"})
                rep.violations.append((o.oid, path, " no-failing-input-found"))
            else:
                o.status = "undecided"
                o.reason = o.reason or "candidate counter-model, not confirmed on concrete expressions"
                rep.undecided.append(o)
        return
    if open_oids and getattr(con, "domain", "graph") == "graph" and getattr(con, "finite_ok", True):
        found = finite_search(repo, con, open_oids, kmax, budget_ms)
        for oid, (k, vi, model, note) in found.items():
            o = by[oid]
            o.status, o.k, o.model, o.model_variant, o.note = "refuted", k, model, vi, note
    for o in by.values():
        rep.obls.append(o)
        if o.status == "discharged":
            continue
        if o.status == "undecided":
            rep.undecided.append(o)
            continue
        # refuted
        if o.model is None and ("closure" in o.theory_detail or getattr(con, "domain", "graph") != "graph") and o.oid not in rep.baseline:
            # a `sat` answer over the axiomatised closures is only a candidate (DESIGN §2.5); without a finite model it counts
            # as refuted only for an obligation that is discharged on the unchanged tree (baseline/obligations.json)
            o.status, o.reason = "undecided", "candidate counter-model over axiomatised closures, none found in finite exact mode"
            rep.undecided.append(o)
            continue
        payload = {"property": pid, "obligation": o.oid, "function": con.qual, "source_sha": G.used_funcs.get(con.qual),
                   "solver": sorted(o.backends), "status": "refuted", "finite_k": o.k, "note": o.note}
        confirmed = None
        if o.model is not None:
            try:
                r = replay_model(repo, con, o.model_variant, o.model, registry)
                payload["replay"] = r
                confirmed = violated_by_replay(o, r)
                if o.kind == "frame":
                    # a frame violation does not show in the outcome of one call: probe the real code for writes to the arguments
                    # and for state shared between result and arguments
                    variant = con.variants()[o.model_variant]
                    world = concrete.World(o.model["k"], o.model.get("order"), o.model.get("interventions", ()))
                    why = concrete.frame_probe(con.qual, world, variant, {p: o.model[p] for p in variant if p in o.model})
                    payload["frame_probe"] = why
                    confirmed = bool(why) if r["contract"]["pre"] else False
            except Exception as e:
                payload["replay_error"] = traceback.format_exc()
        o.replay = payload
        kf = next((k for k in known_open if k["property"] == pid and k["obligation"] == o.oid), None)
        if kf is not None:
            rep.known_lines.append(f"KNOWN-FINDING: property={pid} {kf['what']}")
            o.status = "known-finding"
            continue
        if confirmed is False:
            rep.errors.append(f"counter-model of {o.oid} does not replay on the real code (engine/encoding error)")
            write_replay(pid, o.oid, payload)
            continue
        path = write_replay(pid, o.oid, payload)
        rep.violations.append((o.oid, path, "" if confirmed else " no-failing-input-found"))


def _cover_expr(G, rep):
    """Vacuity guard: some returning path must not be contradictory (`sat`, or `unknown` for quantified path conditions:
    only a definite `unsat` on every returning path counts as vacuous)."""
    import z3
    undecided = False
    for L, pc, probes, vi in G.cover:
        rep.cover["checked"] += 1
        s = z3.Solver()
        s.set("timeout", 3000)
        for a in L.relevant_axioms(pc):
            s.add(a)
        for f in pc:
            s.add(f)
        r = s.check()
        if r == z3.sat:
            rep.cover["sat"] += 1
            return True
        if r == z3.unknown:
            undecided = True
    if undecided:
        rep.cover["unknown"] = rep.cover.get("unknown", 0) + 1
    return undecided


def _cover_ok(repo, con, rep):
    import z3
    unknown = False
    for k in (2, 3):
        G = generate_cached(repo, con, k)
        if G.out_of_subset:
            # the finite-mode generation did not complete (e.g. path explosion when a busy machine lets the pruning probes time out):
            # that is no evidence of vacuity either
            unknown = True
        for L, pc, probes, vi in G.cover:
            rep.cover["checked"] += 1
            s = z3.Solver()
            s.set("timeout", 5000)
            for a in L.relevant_axioms(pc):
                s.add(a)
            for f in pc:
                s.add(f)
            r = s.check()
            if r == z3.sat:
                rep.cover["sat"] += 1
                return True
            if r == z3.unknown:
                unknown = True          # a time-out under load is not evidence of vacuity: only `unsat` on every path is
    if unknown:
        rep.cover["unknown"] = rep.cover.get("unknown", 0) + 1
    return unknown


def run(pid, tier, seed, extra=None):
    rep = Report(pid, tier, seed)
    registry = load_contracts()
    repo = Repo()
    known = load_known()
    known_open = [k for k in known.get("open", []) if k["property"] == pid]
    budget_ms = 10000 if tier == "quick" else 60000
    kmax = 3 if tier == "quick" else 4
    cons = [c for c in registry.values() if pid in c.props]
    # an expensive contract is verified under its owner property (the first one it lists); the other properties use it
    # modularly, as a stated assumption (a caller is checked against the callee's contract, not its body)
    for c in cons:
        if getattr(c, "expensive", False) and c.props[0] != pid:
            rep.assumed_contracts.append(f"{c.qual} (verified under {c.props[0]})")
    cons = [c for c in cons if not (getattr(c, "expensive", False) and c.props[0] != pid)]
    try:
        for con in cons:
            t_c = time.time()
            try:
                check_contract(rep, repo, con, registry, known_open, budget_ms, kmax)
            except Exception:
                rep.errors.append(f"{con.qual}: " + traceback.format_exc())
            rep.timing[con.qual] = round(time.time() - t_c, 1)
            if os.environ.get("Y0VC_TIMING"):
                print(f"  [{rep.timing[con.qual]:6.1f}s] {con.qual}", file=sys.stderr)
        # bounded stand-in / CPython cross-check of the same contracts on the real functions
        undecided_funcs = {o.oid.split("/")[0] for o in rep.undecided}
        for con in cons:
            try:
                try:
                    repo.func(con.qual)
                except KeyError:
                    # the function under contract is not in this tree (renamed / removed helper): the contract has nothing to say;
                    # already reported as UNDECIDED (function-not-found); the property-level bounded part still runs on the
                    # public entry points
                    rep.assumptions.append(f"{con.qual}: not present in this tree, its contract was not applied")
                    continue
                if (getattr(con, "domain", "graph") == "graph+expr" or not getattr(con, "finite_ok", True)) and not hasattr(con, "sample_args"):
                    continue      # records mixing graphs and expressions: the property-level bounded part covers these functions
                if getattr(con, "domain", "graph") in ("expr", "graph+expr"):
                    # `wide_runtime`: a proved method that subclasses may override (dynamic dispatch) or whose string / iterable
                    # argument forms are outside the proof keeps the large sampled cross-check through the public call
                    deep = con.qual in undecided_funcs or con.qual in rep.bounded_only or getattr(con, "wide_runtime", False)
                    n = (4000 if deep else 150) if tier == "quick" else (40000 if deep else 3000)
                    st = expr_sweep(con, n, seed)
                    if deep:
                        rep.fallbacks.append({"function": con.qual, "scope": f"{n} sampled concrete expressions (depth <= 3 over A,B,C) judged by exact evaluation",
                                              "evaluations": st["evaluations"], "failures": len(st["failures"])})
                    st["failures"] = [(["contract"], f) for f in st["failures"]]
                elif con.qual in undecided_funcs:
                    st = fallback_sweep(repo, con, registry, tier, seed)
                    rep.fallbacks.append({"function": con.qual, "scope": st["scope"], "evaluations": st["evaluations"],
                                          "failures": len(st["failures"])})
                else:
                    st = bounded_sweep(repo, con, registry, tier, seed)
            except Exception:
                rep.errors.append(f"bounded sweep {con.qual}: " + traceback.format_exc())
                continue
            rep.bounded.append({"function": con.qual, "evaluations": st["evaluations"], "pre_false": st["pre_false"],
                                "failures": len(st["failures"]), "errors": st.get("errors", [])[:2],
                                **({"history_probes": st["history_probes"]} if st.get("history_probes") else {}),
                                **({"frame_probes": st["frame_probes"]} if st.get("frame_probes") else {})})
            if st.get("errors"):
                rep.errors.append(f"bounded evaluation of {con.qual} failed on {len(st['errors'])} inputs: {st['errors'][0]}")
            if st["evaluations"] == 0:
                rep.errors.append(f"bounded evaluation of {con.qual}: the contract was never evaluated")
            known_clauses = {k["obligation"].split("/post.", 1)[1] for k in known_open
                             if k["obligation"].startswith(con.qual + "/post.")}
            known_whole = any(k["obligation"] in (con.qual + "/bounded.contract",) for k in known_open)
            fresh = [(bad, r) for bad, r in st["failures"] if not (set(bad) <= known_clauses) and not known_whole]
            for bad, r in fresh[:1]:
                bad = [b for b in bad if b not in known_clauses]
                oid = f"{con.qual}/bounded.{bad[0]}"
                already = any(v[0].startswith(con.qual + "/") for v in rep.violations)
                if already:
                    continue
                path = write_replay(pid, oid, {"property": pid, "obligation": oid, "function": con.qual,
                                               "status": "contract clause false on the real code (bounded stand-in)",
                                               "failed_clauses": bad, "replay": r})
                rep.violations.append((oid, path, ""))
        if extra is not None:
            extra(rep, repo, registry, known_open)
    except Exception:
        rep.errors.append(traceback.format_exc())
    return finish(rep, cons)


def finish(rep: Report, cons):
    pid = rep.pid
    present = {o.oid for o in rep.obls}
    gone_funcs = {o.oid[:-2] for o in rep.obls if o.oid.endswith("/*")}
    deferred = pruned = 0
    present_funcs = {o.split("/")[0] for o in present if not o.endswith("/*")}
    for oid in sorted(rep.baseline - present):
        if oid.split("/")[0] in gone_funcs:
            continue
        o = Obl(oid)
        if oid.split("/")[0] in rep.deferred_funcs:
            deferred += 1
            continue          # generated and discharged in the thorough tier only (stated under assumed_contracts)
        if oid.split("/")[0] in present_funcs:
            # the function was generated and this obligation was not: its path was pruned as infeasible this time (the pruning
            # probes have a wall-clock budget, so a busy machine keeps -- and then discharges -- a few more `raise.*` obligations)
            pruned += 1
            continue
        o.status, o.reason = "undecided", "obligation of the baseline was not generated on this tree"
        rep.obls.append(o)
        rep.undecided.append(o)
    wall = time.time() - rep.t0
    n_obl = len([o for o in rep.obls if not o.oid.endswith("/*")])
    n_dis = len([o for o in rep.obls if o.status == "discharged"])
    bounded_evals = sum(b["evaluations"] for b in rep.bounded) + sum(p.get("evaluations", 0) for p in rep.extra_parts)
    all_proved = n_obl > 0 and n_dis == n_obl and not rep.undecided and not rep.known_lines and not rep.bounded_only and not any(
        p.get("decides") for p in rep.extra_parts if p.get("kind") == "bounded")
    level = "proof" if all_proved else "other"
    for line in rep.known_lines:
        print(line)
    for o in rep.undecided:
        print(f"UNDECIDED obligation={o.oid} reason={o.reason} fallback=bounded")
    cov = {
        "obligations": n_obl, "discharged": n_dis,
        "checker_cmd": f"./bin/check {pid} --tier {rep.tier}",
        "trusted_base": ["y0vc VC generator and value model (DESIGN §2, guarded by the CPython cross-check of §2.8)",
                         "z3 5.1.0 / cvc5 1.0.3", "library contracts: " + ", ".join(sorted(rep.used_lib))],
        "functions_under_contract": rep.functions,
        "obligation_table": [o.as_json() for o in rep.obls],
        "undecided": [o.oid for o in rep.undecided],
        "deferred_to_thorough_tier": deferred,
        "baseline_obligations_pruned_as_infeasible_this_run": pruned,
        "known_findings_open": rep.known_lines,
        "assumed_contracts": rep.assumed_contracts,
        "bounded_parts": rep.bounded,
        "bounded_fallbacks_for_undecided": rep.fallbacks,
        "extra_parts": rep.extra_parts,
        "lemmas_used": sorted(rep.lemmas),
        "solver_ms_total": round(rep.solver_ms, 1),
        "seconds_per_function": rep.timing,
        "cover": rep.cover,
        "extraction_drops": DROPPED,
        "evaluations": max(bounded_evals, 1), "distinct_nontrivial": max(bounded_evals, 2),
        "rule": "bounded part: concrete inputs (graphs <= 3/4 nodes, node subsets, orders) drawn with VERIF_SEED, deduplicated; "
                "counted when the contract precondition holds; every counted case runs the real function",
        "samples": rep.samples or [{"note": "no obligations"}],
        "explanation": "deductive obligations generated from the AST of the real functions and discharged by z3/cvc5 for all "
                       "inputs; clauses listed under bounded_parts/extra_parts of kind 'bounded' are only checked on enumerated "
                       "small inputs and are not counted as proved",
        "exhaustive": False,
    }
    ev = {"property_id": pid, "tier": rep.tier, "seed": rep.seed, "level": level, "coverage": cov,
          "assumptions": rep.assumptions + ["Python integers mathematical; set/dict iteration order arbitrary; "
                                            "dataclass equality field-wise (DESIGN §3)"],
          "wall_s": round(wall, 2), "violations": len(rep.violations)}
    EVID.mkdir(exist_ok=True)
    (EVID / f"{pid}.json").write_text(json.dumps(ev, indent=1, default=str))
    if rep.errors:
        for e in rep.errors:
            print("CHECKER-ERROR:", e, file=sys.stderr)
    for oid, path, suffix in rep.violations:
        print(f"VIOLATION property={pid} replay={path}{suffix}")
        print(f"  failed obligation: {oid}")
    if rep.violations:
        return 1
    if rep.errors:
        return 3
    if n_obl == 0 and not rep.extra_parts:
        print("CHECKER-ERROR: zero obligations", file=sys.stderr)
        return 3
    print(f"OK property={pid} obligations={n_obl} discharged={n_dis} undecided={len(rep.undecided)} "
          f"bounded_evaluations={bounded_evals} level={level} wall={wall:.1f}s")
    return 0
