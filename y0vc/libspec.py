"""Trusted contracts for builtins, itertools and networkx (DESIGN §3 item 4), and the operations on symbolic values.

Every function here is a *stated assumption* about a library; the names used by a run are recorded in the evidence
(`used_lib`) and each is exercised against the installed library by y0vc/libcheck.py.
"""
from __future__ import annotations

import ast

import z3

from .extract import ClassInfo
from . import exprs
from .exprs import VExpr, VESeq, VDist, VAnyZero
from .values import (freeze, NONE, OutOfSubset, V, VBool, VComp, VDict, VFam, VFunc, VGraph, VInt, VModule, VNode, VNone, VNx,
                     VObj, VOpaque, VPos, VSeq, VSet, VStr, VTuple, VFStr, VAttrs)

BUILTINS = {"set", "frozenset", "list", "tuple", "sorted", "any", "all", "len", "isinstance", "iter", "next", "min",
            "max", "sum", "range", "enumerate", "zip", "dict", "str", "bool", "int", "print", "ValueError", "TypeError",
            "KeyError", "RuntimeError", "NotImplementedError", "reversed", "map", "filter", "repr", "id", "hash", "type",
            "getattr", "hasattr", "callable", "super"}

LIB_MODULES = ("networkx", "itertools", "functools", "collections", "typing", "copy", "more_itertools", "operator",
               "logging", "warnings", "dataclasses", "abc")


def is_builtin(name):
    return name in BUILTINS


def is_lib_module(q):
    return q.split(".")[0] in LIB_MODULES


def is_lib_module_name(q):
    """Is the qualified name a library *module* (as opposed to a function / class inside one)?"""
    return q in LIB_MODULES or _is_submodule(q)


def as_family(ex, comp):
    """A collection of node sets described by one binder, as an indexed family; None if it has another shape."""
    if isinstance(comp, VFam):
        return comp
    if isinstance(comp, VComp) and len(comp.alts) == 1 and len(comp.alts[0][0]) == 1 and isinstance(comp.alts[0][2], VSet):
        (r,), g, e = comp.alts[0]
        pe = e.pred
        body = lambda x: pe(x)
        idx = lambda q: z3.substitute(g, (r, q))
        mem = lambda q, x: z3.substitute(body(x), (r, q))
        return VFam(idx, mem)
    return None


def _false(*xs):
    return z3.BoolVal(False)


# ------------------------------------------------------------------------------------------------ helpers
def empty_set(arity=1, kind="set"):
    return VSet(_false, arity=arity, kind=kind)


class VUPair(V):
    """frozenset({a, b}) of two nodes: an unordered pair (a = b gives a singleton)"""
    def __init__(self, a, b):
        self.a, self.b = a, b


def set_of_items(ex, items):
    L = ex.L
    if all(isinstance(i, VNode) for i in items):
        ts = [i.t for i in items]
        s_ = VSet(lambda x: L.Or(*[x == t for t in ts]))
        if len(ts) == 2:
            s_.two_items = (ts[0], ts[1])
        return s_
    if items and all(isinstance(i, VTuple) and all(isinstance(j, VNode) for j in i.items) for i in items):
        ar = len(items[0].items)
        tss = [[j.t for j in i.items] for i in items]
        return VSet(lambda *xs: L.Or(*[L.And(*[x == t for x, t in zip(xs, ts)]) for ts in tss]), arity=ar)
    if len(items) == 1 and isinstance(items[0], VSet) and items[0].arity == 1:
        # {frozenset(S)}: a family with the single member S, indexed by one of its elements (the empty member is not representable)
        S = items[0]
        if not ex.branch(L.exists(1, lambda x: S.has(x))):
            raise OutOfSubset("family with an empty member")
        c = z3.Const(L.fresh_name("rep"), L.Node)
        ex.assume(S.has(c))
        return VFam(lambda r: r == c, lambda r, x: S.has(x))
    raise OutOfSubset("set display of non-node items")


def new_nx(ex, directed):
    return VNx(directed, _false, _false, owned=True)


def check_owned(ex, obj, what):
    ex.mut_clock = getattr(ex, "mut_clock", 0) + 1      # every container write passes here (see Exec.run_generator)
    if not getattr(obj, "owned", True):
        ex.emit("frame", ex.L.F(), note=f"{what} mutates an object reachable from the caller")


def nx_edges_view(ex, g: VNx):
    """edges() of a DiGraph is the edge relation; of a Graph it is an unspecified orientation of it."""
    L = ex.L
    if g.directed:
        return VSet(lambda a, b: g.E(a, b), arity=2, kind="list", owned=False)
    E = g.curE
    # the iteration order of an unmodified graph is the same on every call: one orientation per graph state
    cache = ex.__dict__.setdefault("_ori_cache", {})
    key = (id(E), tuple(b.get_id() for b in ex.binders))
    if key in cache:
        return VSet(cache[key][1], arity=2, kind="list", owned=False)
    ori = param_pred(ex, "ori", 2, [
        lambda o: L.forall(2, lambda a, b: L.Implies(o(a, b), E(a, b))),
        lambda o: L.forall(2, lambda a, b: L.Implies(E(a, b), L.Or(o(a, b), o(b, a)))),
        lambda o: L.forall(2, lambda a, b: L.Implies(L.And(o(a, b), o(b, a)), a == b)),
    ])
    cache[key] = (E, lambda a, b: ori(a, b))      # E is kept alive so that its id is not reused
    return VSet(lambda a, b: ori(a, b), arity=2, kind="list", owned=False)


def closure(ex, E, name):
    """rtc of E; when E depends on enclosing iteration constants the closure symbol is indexed by exactly those constants."""
    L = ex.L
    if ex.binders:
        x, y = L.node("cx"), L.node("cy")
        body = E(x, y)
        ids = {b.get_id(): b for b in ex.binders}
        used = {}
        todo, seen = [body], set()
        while todo:
            t = todo.pop()
            if t.get_id() in seen:
                continue
            seen.add(t.get_id())
            if t.get_id() in ids:
                used[t.get_id()] = ids[t.get_id()]
            if z3.is_quantifier(t):
                todo.append(t.body())
            elif z3.is_app(t):
                todo.extend(t.children())
        bs = [b for b in ex.binders if b.get_id() in used]
        if bs:
            # the same relation up to the names of the iteration constants: one indexed closure symbol serves every
            # instance (its axioms are closed over the index)
            for nm0, F0, ps0, R0 in getattr(L, "param_closures", []):
                if len(ps0) == len(bs) and all(p.sort() == b.sort() for p, b in zip(ps0, bs)):
                    b0 = z3.substitute(R0(x, y), *zip(ps0, bs)) if not all(p.eq(b) for p, b in zip(ps0, bs)) else R0(x, y)
                    same = z3.eq(z3.simplify(b0), z3.simplify(body))
                    if not same:
                        # bound-variable names differ between two renderings of the same formula, or one side goes through named
                        # predicates: ask the solver (with the definitions in scope and the current path condition)
                        from .symexec import hard_check
                        sv = z3.Solver()
                        sv.set("timeout", 300)
                        sv.set("rlimit", 800000)
                        for ax in L.relevant_axioms([b0, body]):      # definitions of the named predicates occurring in either side
                            sv.add(ax)
                        for f in ex.pc:
                            sv.add(f)
                        sv.add(b0 != body)
                        same = hard_check(sv, 300) == "unsat"
                    if same:
                        return (lambda F0, bs: (lambda a, b: F0(*bs, a, b)))(F0, bs)
            return L.rtc(E, name, params=bs)
    return L.rtc(E, name)


def param_pred(ex, name, arity, axioms):
    """A fresh predicate that may depend on the enclosing iteration constants (it takes them as extra arguments), with
    its defining axioms closed over those constants."""
    L = ex.L
    bs = list(ex.binders)
    nm = L.fresh_name(name)
    F = z3.Function(nm, *([L.Node] * (len(bs) + arity)), L.B)
    o = lambda *xs: F(*bs, *xs)
    L.add_axioms({nm}, [L.forall_c(bs, ax(o)) if bs else ax(o) for ax in axioms])
    return o


def acyclic(ex, E):
    """No directed cycle: there are no u, v with E(u,v) and v ->* u."""
    L = ex.L
    C = ex.closure(E, "reach")
    return L.forall(2, lambda u, v: L.Not(L.And(E(u, v), C(v, u)))), C


# ------------------------------------------------------------------------------------------------ attributes
def get_attr(ex, base, attr):
    L = ex.L
    if isinstance(base, VExpr):
        return exprs.expr_attr(ex, base, attr)
    if isinstance(base, VESeq):
        return VFunc("boundlib", attr, self_val=base)
    if isinstance(base, VGraph):
        if attr == "__class__":
            return VFunc("class", ex.repo.resolve("y0.graph.NxMixedGraph"))
        if attr == "directed":
            return base.directed
        if attr == "undirected":
            return base.undirected
        return bound_method(ex, base, ex.repo.resolve("y0.graph.NxMixedGraph"), attr)
    if isinstance(base, VNx):
        if attr in ("nodes", "edges"):
            base = freeze(base)
            # attribute access of the view (graph.nodes / graph.edges), callable or iterable
            view = VSet(lambda x: base.N(x), owned=False) if attr == "nodes" else nx_edges_view(ex, base)
            view.nx_view = (base, attr)
            return view
        if attr == "graph":
            return VObj("gattrs", base.gattrs, owned=base.owned)
        return VFunc("boundlib", attr, self_val=base)
    if isinstance(base, VObj) and isinstance(base.cls, ClassInfo):
        if attr in base.fields:
            return base.fields[attr]
        return bound_method(ex, base, base.cls, attr)
    if isinstance(base, VObj):
        if attr in base.fields:
            return base.fields[attr]
        return VFunc("boundlib", attr, self_val=base)
    if isinstance(base, VModule):
        q = f"{base.name}.{attr}"
        r = ex.repo.resolve(q)
        from .extract import FuncInfo
        if isinstance(r, FuncInfo):
            return VFunc("y0", r)
        if isinstance(r, ClassInfo):
            return VFunc("class", r)
        if isinstance(r, tuple) and r[0] == "module":
            return VModule(r[1])
        # library module attribute: normalise a few aliases
        return VFunc("builtin", _norm_lib(q)) if not _is_submodule(q) else VModule(q)
    if isinstance(base, VFunc) and base.kind == "class":
        cls = base.target
        m = ex.repo.find_method(cls, attr)
        if m is not None:
            return VFunc("y0", m, self_val=base if m.is_classmethod else None)
        raise OutOfSubset(f"class attribute {cls.name}.{attr}")
    if isinstance(base, VFunc) and base.kind == "builtin":
        return VFunc("builtin", f"{base.target}.{attr}")
    if isinstance(base, VNode):
        if attr in ("name", "star"):
            return VOpaque((attr, base.t))
        if attr == "interventions":
            b_, ivs, _ = L.var_algebra()
            t0 = base.t
            v = VSet(lambda i: ivs(t0, i), kind="frozenset", owned=False)
            v.frozen = True
            return v
        return VFunc("boundlib", attr, self_val=base)
    if isinstance(base, (VSet, VSeq, VTuple, VDict, VFam, VComp, VStr)):
        if isinstance(base, VSet) and hasattr(base, "nx_view") and attr in ("items", "values"):
            return VFunc("boundlib", attr, self_val=base)
        return VFunc("boundlib", attr, self_val=base)
    if isinstance(base, VOpaque):
        return VFunc("boundlib", attr, self_val=base)
    raise OutOfSubset(f"attribute {attr} of {type(base).__name__}")


def _is_submodule(q):
    return q in ("networkx.algorithms", "networkx.algorithms.dag", "itertools.chain_") or q.endswith(".algorithms") \
        or q.endswith(".dag") or q in ("nx.algorithms",)


def _norm_lib(q):
    q = q.replace("networkx.algorithms.dag.", "networkx.").replace("networkx.algorithms.", "networkx.")
    return q


def bound_method(ex, obj, cls, attr):
    m = ex.repo.find_method(cls, attr)
    if m is None:
        raise OutOfSubset(f"no method {attr} on {cls.name}")
    if m.is_property:
        return ex.call_y0(m, [], {}, self_val=obj)
    if m.is_staticmethod:
        return VFunc("y0", m)
    if m.is_classmethod:
        return VFunc("y0", m, self_val=VFunc("class", cls))
    return VFunc("y0", m, self_val=obj)


def call_view(ex, view, args, kwargs):
    """graph.nodes(...) / graph.edges(...) called on the view object."""
    g, which = view.nx_view
    if not args and not kwargs:
        return view
    if which == "edges" and len(args) == 1 and not kwargs and isinstance(args[0], VNode):
        # G.edges(n): the edges incident to n (out-edges for a DiGraph), reported as (n, neighbour); a node that is not in the graph
        # makes networkx raise when the view is measured or iterated
        L = ex.L
        n = args[0]
        ex.require(g.N(n.t), "NetworkXError", "edges(nbunch)")
        E = g.curE
        return VSet(lambda a, b: L.And(a == n.t, E(a, b)), arity=2, kind="list", owned=False)
    raise OutOfSubset(f"networkx {which} view called with arguments")


def set_attr(ex, obj, attr, value):
    if isinstance(obj, VObj):
        check_owned(ex, obj, f"attribute write .{attr}")
        obj.fields[attr] = value
        return
    raise OutOfSubset(f"attribute write on {type(obj).__name__}")


def set_item(ex, obj, key, value):
    if isinstance(obj, VObj) and obj.cls == "gattrs" and isinstance(key, VStr):
        check_owned(ex, obj, "graph attribute write")
        obj.fields[key.s] = value
        return
    raise OutOfSubset(f"item write on {type(obj).__name__}")


def get_item(ex, base, key):
    L = ex.L
    if isinstance(base, VAttrs) and isinstance(key, VStr):
        h = base.nx.nattrs.get(key.s)
        if h is None:
            ex.require(L.F(), "KeyError", "node-attribute")
            raise OutOfSubset("unreachable")
        ex.require(h[0](base.node_t), "KeyError", "node-attribute")
        return VBool(h[1](base.node_t))
    if isinstance(base, VSet) and getattr(base, "nx_view", None) is not None and base.nx_view[1] == "nodes" and isinstance(key, VNode):
        g = base.nx_view[0]
        ex.require(g.N(key.t), "KeyError", "node-view")
        return VAttrs(g, key.t)
    if isinstance(base, VSeq) and isinstance(key, VInt) and key.const() in (0, -1):
        # first / last element of a duplicate-free sequence; IndexError when it is empty
        ex.require(L.exists(1, lambda x: base.mem(x)), "IndexError", "getitem")
        e = L.node("first" if key.const() == 0 else "last")
        if key.const() == 0:
            ex.assume(L.And(base.mem(e), L.Not(L.exists(1, lambda x: base.before(x, e)))))
        else:
            ex.assume(L.And(base.mem(e), L.Not(L.exists(1, lambda x: base.before(e, x)))))
        return VNode(e)
    if isinstance(base, VDict) and isinstance(key, VNode) and base.val is not None:
        ex.require(base.dom(key.t), "KeyError", "getitem")
        return base.val(key.t)
    if isinstance(base, VESeq) and isinstance(key, VInt) and key.const() == 0:
        T = exprs.theory(ex)
        ex.require(L.Not(T.is_nil(base.t)), "IndexError", "getitem")
        return VExpr(T.reg(T.head(base.t)))
    if isinstance(base, VTuple) and isinstance(key, VInt) and key.const() is not None:
        i = key.const()
        if -len(base.items) <= i < len(base.items):
            return base.items[i]
        raise OutOfSubset("constant index out of range")
    if isinstance(base, VObj) and base.cls == "gattrs" and isinstance(key, VStr):
        if key.s in base.fields:
            return base.fields[key.s]
    raise OutOfSubset(f"subscript of {type(base).__name__}")


def get_slice(ex, base, lo, hi):
    L = ex.L
    if isinstance(base, VSeq):
        mem, before = base.mem, base.before

        def bound(p, upper):
            # returns predicate on x: x is strictly before position p (upper) / at-or-after position p (lower)
            if isinstance(p, VPos) and p.seq is base:
                e, off = p.elem, p.offset
                if upper:
                    if off == 0:
                        return lambda x: before(x, e)
                    if off == 1:
                        return lambda x: L.Or(before(x, e), x == e)
                else:
                    if off == 0:
                        return lambda x: L.Or(x == e, before(e, x))
                    if off == 1:
                        return lambda x: before(e, x)
            raise OutOfSubset("slice bound is not an index()-derived position")
        lo_p = bound(lo, False) if lo is not None else (lambda x: L.T())
        hi_p = bound(hi, True) if hi is not None else (lambda x: L.T())
        return VSeq(lambda x: L.And(mem(x), lo_p(x), hi_p(x)), before)
    raise OutOfSubset(f"slice of {type(base).__name__}")


# ------------------------------------------------------------------------------------------------ operators
def aug_assign(ex, cur, op, rhs):
    L = ex.L
    if isinstance(cur, VSet) and isinstance(op, ast.Add) and cur.kind == "list":
        check_owned(ex, cur, "+=")
        r = ex.as_set(rhs)
        if r.arity != cur.arity and getattr(cur, "known_empty", False):
            cur.arity = r.arity
        cur.add_pred(lambda *xs: r.has(*xs))
        cur.known_empty = False
        cur.seq_view = None
        return None
    if isinstance(cur, VSet) and isinstance(op, ast.BitOr):
        check_owned(ex, cur, "|=")
        r = ex.as_set(rhs)
        cur.add_pred(lambda *xs: r.has(*xs))
        cur.known_empty = False
        return None
    if isinstance(cur, VSet) and isinstance(op, (ast.Sub, ast.BitAnd)):
        check_owned(ex, cur, "-=")
        r = ex.as_set(rhs)
        old = cur.pred
        if isinstance(op, ast.Sub):
            cur.set_pred(lambda *xs: L.And(old(*xs), L.Not(r.has(*xs))))
        else:
            cur.set_pred(lambda *xs: L.And(old(*xs), r.has(*xs)))
        return None
    if isinstance(cur, VInt) and isinstance(rhs, VInt):
        return binop(ex, cur, op, rhs)
    raise OutOfSubset(f"augmented assignment on {type(cur).__name__}")


def binop(ex, l, op, r):
    L = ex.L
    if isinstance(op, ast.Add) and isinstance(l, VStr) and l.s == "T_" and isinstance(r, VOpaque) and isinstance(r.what, tuple) and r.what[0] == "name":
        return VOpaque(("transport-name", r.what[1]))
    if isinstance(l, VExpr) or isinstance(r, VExpr):
        return exprs.expr_binop(ex, l, op, r)
    if isinstance(op, (ast.Sub, ast.BitOr, ast.BitAnd, ast.BitXor)) and _setlike(l) and _setlike(r):
        a, b = ex.as_set(l), ex.as_set(r)
        if a.arity != b.arity:
            raise OutOfSubset("set operation on different arities")
        if isinstance(op, ast.Sub):
            p = lambda *xs: L.And(a.has(*xs), L.Not(b.has(*xs)))
        elif isinstance(op, ast.BitOr):
            p = lambda *xs: L.Or(a.has(*xs), b.has(*xs))
        elif isinstance(op, ast.BitAnd):
            p = lambda *xs: L.And(a.has(*xs), b.has(*xs))
        else:
            p = lambda *xs: z3.Xor(a.has(*xs), b.has(*xs))
        return VSet(p, arity=a.arity)
    if isinstance(op, ast.Add) and _listlike(l) and _listlike(r):
        if isinstance(l, VTuple) and isinstance(r, VTuple):
            return VTuple(l.items + r.items)
        a, b = ex.as_set(l), ex.as_set(r)
        return VSet(lambda *xs: L.Or(a.has(*xs), b.has(*xs)), arity=a.arity, kind="list")
    if isinstance(l, VInt) and isinstance(r, VInt):
        if isinstance(op, ast.Add):
            return VInt(l.t + r.t)
        if isinstance(op, ast.Sub):
            return VInt(l.t - r.t)
        if isinstance(op, ast.Mult):
            return VInt(l.t * r.t)
        if isinstance(op, ast.FloorDiv) and r.const() and r.const() > 0:
            return VInt(l.t / r.t)
    if isinstance(l, VPos) and isinstance(r, VInt) and r.const() is not None and isinstance(op, (ast.Add, ast.Sub)):
        d = r.const() if isinstance(op, ast.Add) else -r.const()
        return VPos(l.seq, l.elem, l.offset + d)
    if isinstance(op, ast.MatMult) and isinstance(l, VNode):
        # node @ S is Variable.__matmul__ = self.intervene(S)
        return call_method(ex, l, "intervene", [r], {})
    if isinstance(op, ast.BitOr) and isinstance(l, VFunc) and isinstance(r, VFunc):
        return VTuple([l, r])     # type union in isinstance(x, A | B)
    if isinstance(op, ast.BitOr) and isinstance(l, VTuple) and isinstance(r, VFunc):
        return VTuple(l.items + [r])
    raise OutOfSubset(f"binary {type(op).__name__} on {type(l).__name__}, {type(r).__name__}")


def _setlike(v):
    return isinstance(v, (VSet, VSeq, VComp, VNx, VDict)) or (isinstance(v, VTuple) and all(isinstance(i, VNode) for i in v.items))


def _listlike(v):
    return isinstance(v, (VSet, VSeq, VTuple, VComp))


def unary(ex, op, v):
    if isinstance(v, VInt) and isinstance(op, ast.USub):
        return VInt(-v.t)
    if isinstance(v, VNode) and isinstance(op, (ast.USub, ast.UAdd)):
        # +node / -node: the Intervention objects with that name (star True / False)
        ex.L.intervene_axioms()
        f = ex.L.iv_plus if isinstance(op, ast.UAdd) else ex.L.iv_minus
        return VNode(f(v.t))
    raise OutOfSubset(f"unary {type(op).__name__} on {type(v).__name__}")


def compare(ex, l, op, r):
    L = ex.L
    if isinstance(op, (ast.Is, ast.IsNot)):
        if isinstance(l, VNone) or isinstance(r, VNone):
            same = isinstance(l, VNone) and isinstance(r, VNone)
            return z3.BoolVal(same if isinstance(op, ast.Is) else not same)
        if isinstance(l, VBool) and isinstance(r, VBool):
            t = l.t == r.t
            return t if isinstance(op, ast.Is) else L.Not(t)
        raise OutOfSubset("identity comparison of non-None values")
    if isinstance(op, (ast.In, ast.NotIn)):
        t = member(ex, l, r)
        return t if isinstance(op, ast.In) else L.Not(t)
    if isinstance(op, (ast.Eq, ast.NotEq)):
        t = equal(ex, l, r)
        return t if isinstance(op, ast.Eq) else L.Not(t)
    if isinstance(op, (ast.Lt, ast.LtE, ast.Gt, ast.GtE)):
        if isinstance(l, VInt) and isinstance(r, VInt):
            return {ast.Lt: l.t < r.t, ast.LtE: l.t <= r.t, ast.Gt: l.t > r.t, ast.GtE: l.t >= r.t}[type(op)]
        if _setlike(l) and _setlike(r) and not isinstance(l, VSeq):
            a, b = ex.as_set(l), ex.as_set(r)
            if isinstance(op, (ast.Gt, ast.GtE)):
                a, b = b, a
            sub = L.forall(a.arity, lambda *xs: L.Implies(a.has(*xs), b.has(*xs)))
            if isinstance(op, (ast.LtE, ast.GtE)):
                return sub
            return L.And(sub, L.exists(a.arity, lambda *xs: L.And(b.has(*xs), L.Not(a.has(*xs)))))
        if isinstance(l, VNode) and isinstance(r, VNode):
            lt = L.var_order()
            return {ast.Lt: lt(l.t, r.t), ast.Gt: lt(r.t, l.t), ast.LtE: L.Not(lt(r.t, l.t)),
                    ast.GtE: L.Not(lt(l.t, r.t))}[type(op)]
    raise OutOfSubset(f"comparison {type(op).__name__} on {type(l).__name__}, {type(r).__name__}")


def member(ex, l, r):
    L = ex.L
    if isinstance(r, VAttrs) and isinstance(l, VStr):
        h = r.nx.nattrs.get(l.s)
        return h[0](r.node_t) if h is not None else L.F()
    if isinstance(r, VGraph):
        # NxMixedGraph.__contains__ is y0 code
        m = ex.repo.find_method(ex.repo.resolve("y0.graph.NxMixedGraph"), "__contains__")
        return ex.truthy(ex.call_y0(m, [l], {}, self_val=r))
    if isinstance(l, VNode):
        if isinstance(r, VSet) and r.arity == 1:
            return r.has(l.t)
        if isinstance(r, VSeq):
            return r.mem(l.t)
        if isinstance(r, VNx):
            return r.N(l.t)
        if isinstance(r, VDict):
            return r.dom(l.t)
        if isinstance(r, (VComp, VTuple)):
            return ex.as_set(r).has(l.t)
    if isinstance(l, VTuple) and all(isinstance(i, VNode) for i in l.items):
        if isinstance(r, (VSet, VComp)):
            s = ex.as_set(r)
            if s.arity == len(l.items):
                return s.has(*[i.t for i in l.items])
    if isinstance(l, VSet) and isinstance(r, VFam):
        return L.exists(1, lambda q: L.And(r.idx(q), L.forall(1, lambda x: l.has(x) == r.mem(q, x))))
    if isinstance(l, VStr) and isinstance(r, VObj) and not isinstance(r.cls, ClassInfo):
        return z3.BoolVal(l.s in r.fields)
    raise OutOfSubset(f"membership {type(l).__name__} in {type(r).__name__}")


def equal(ex, l, r):
    L = ex.L
    if isinstance(l, VExpr) or isinstance(r, VExpr):
        return exprs.expr_equal(ex, l, r)
    if isinstance(l, VNode) and isinstance(r, VNode):
        return l.t == r.t
    if isinstance(l, VNone) or isinstance(r, VNone):
        return z3.BoolVal(isinstance(l, VNone) and isinstance(r, VNone))
    if isinstance(l, VBool) and isinstance(r, VBool):
        return l.t == r.t
    if isinstance(l, VInt) and isinstance(r, VInt):
        return l.t == r.t
    if isinstance(l, VStr) and isinstance(r, VStr):
        return z3.BoolVal(l.s == r.s)
    if isinstance(l, VOpaque) and isinstance(r, VOpaque) and isinstance(l.what, tuple) and isinstance(r.what, tuple) \
            and l.what[0] == "name" and r.what[0] == "name":
        # x.name == y.name  <=>  x.get_base() == y.get_base()   (get_base() is Variable(self.name); dataclass equality is field-wise)
        b_, _, _ = L.var_algebra()
        return b_(l.what[1]) == b_(r.what[1])
    if isinstance(l, VGraph) and isinstance(r, V):
        m = ex.repo.find_method(ex.repo.resolve("y0.graph.NxMixedGraph"), "__eq__")
        return ex.truthy(ex.call_y0(m, [r], {}, self_val=l))
    if isinstance(l, VSet) and isinstance(r, VSet) and hasattr(l, "nx_view") and hasattr(r, "nx_view"):
        # NodeView / EdgeView equality is set equality (undirected EdgeView: up to orientation)
        (g1, k1), (g2, k2) = l.nx_view, r.nx_view
        if k1 == "nodes" and k2 == "nodes":
            return L.eq_set(g1.N, g2.N)
        if k1 == "edges" and k2 == "edges":
            return L.eq_rel(g1.E, g2.E)
    if _setlike(l) and _setlike(r) and not isinstance(l, VSeq) and not isinstance(r, VSeq):
        a, b = ex.as_set(l), ex.as_set(r)
        if a.kind == "list" or b.kind == "list":
            raise OutOfSubset("equality of order-abstracted lists")
        if a.arity == b.arity:
            return L.forall(a.arity, lambda *xs: a.has(*xs) == b.has(*xs))
    if isinstance(l, VTuple) and isinstance(r, VTuple):
        if len(l.items) != len(r.items):
            return L.F()
        return L.And(*[equal(ex, a, b) for a, b in zip(l.items, r.items)])
    if isinstance(l, VFam) and isinstance(r, VFam):
        # equality of two sets of frozensets: every member of one is a member of the other
        same = lambda fa, a, fb, b: L.forall(1, lambda x: fa.mem(a, x) == fb.mem(b, x))
        return L.And(L.forall(1, lambda p: L.Implies(l.idx(p), L.exists(1, lambda q: L.And(r.idx(q), same(l, p, r, q))))),
                     L.forall(1, lambda q: L.Implies(r.idx(q), L.exists(1, lambda p: L.And(l.idx(p), same(l, p, r, q))))))
    if isinstance(l, VInt) and isinstance(r, VSet) or isinstance(l, VSet) and isinstance(r, VInt):
        raise OutOfSubset("int/set comparison")
    raise OutOfSubset(f"equality of {type(l).__name__} and {type(r).__name__}")


def count_cmp(ex, s, op, n):
    """len(s) <op> n for small constant n without a cardinality theory."""
    L = ex.L
    if isinstance(s, VESeq):
        T = exprs.theory(ex)
        nil, one = T.is_nil(s.t), T.is_len1(s.t)
        table = {("==", 0): nil, ("==", 1): one, ("<", 1): nil, ("<", 2): L.Or(nil, one), ("<=", 0): nil, ("<=", 1): L.Or(nil, one),
                 (">", 0): L.Not(nil), (">=", 1): L.Not(nil), (">", 1): L.Not(L.Or(nil, one)), (">=", 2): L.Not(L.Or(nil, one)),
                 ("!=", 0): L.Not(nil), ("!=", 1): L.Not(one)}
        if (op, n) in table:
            return table[(op, n)]
        raise OutOfSubset("length comparison of a sequence of expressions")
    st = ex.as_set(s) if not isinstance(s, VFam) else None
    if st is not None and st.kind == "list" and False:
        raise OutOfSubset("len of an order-abstracted list")

    def at_least(k):
        if k <= 0:
            return L.T()
        if st is not None:
            ar = st.arity
            if ar != 1:
                if k > 2:
                    raise OutOfSubset("cardinality of a set of tuples")
                # k pairwise different tuples (two tuples differ when some coordinate does)
                def body(*xs):
                    ts = [xs[i * ar:(i + 1) * ar] for i in range(k)]
                    return L.And(*[st.has(*t) for t in ts],
                                 *[L.Or(*[a != b for a, b in zip(ts[i], ts[j])]) for i in range(k) for j in range(i + 1, k)])
                return L.exists(k * ar, body)
            return L.exists(k, lambda *xs: L.And(*[st.has(x) for x in xs], *[xs[i] != xs[j] for i in range(k) for j in range(i + 1, k)]))
        # family: k pairwise different member sets
        fam = s
        diff = lambda a, b: L.exists(1, lambda x: fam.mem(a, x) != fam.mem(b, x))
        return L.exists(k, lambda *rs: L.And(*[fam.idx(r) for r in rs], *[diff(rs[i], rs[j]) for i in range(k) for j in range(i + 1, k)]))
    if n > 3:
        raise OutOfSubset("cardinality comparison with a large constant")
    if op == "==":
        return L.And(at_least(n), L.Not(at_least(n + 1)))
    if op == "!=":
        return L.Not(L.And(at_least(n), L.Not(at_least(n + 1))))
    if op == ">=":
        return at_least(n)
    if op == ">":
        return at_least(n + 1)
    if op == "<":
        return L.Not(at_least(n))
    if op == "<=":
        return L.Not(at_least(n + 1))
    raise OutOfSubset(op)


class VLen(VInt):
    """len(collection): kept symbolic so that comparisons with small constants become first-order formulas."""
    def __init__(self, coll):
        self.coll = coll
        self.t = None

    def const(self):
        return None


_real_compare = compare


def compare(ex, l, op, r):   # noqa: F811  (wraps the structural compare with len() handling)
    L = ex.L
    opname = {ast.Eq: "==", ast.NotEq: "!=", ast.Lt: "<", ast.LtE: "<=", ast.Gt: ">", ast.GtE: ">="}.get(type(op))
    if opname and isinstance(l, VLen) and isinstance(r, VInt) and r.const() is not None:
        return count_cmp(ex, l.coll, opname, r.const())
    if opname and isinstance(r, VLen) and isinstance(l, VInt) and l.const() is not None:
        flip = {"==": "==", "!=": "!=", "<": ">", "<=": ">=", ">": "<", ">=": "<="}[opname]
        return count_cmp(ex, r.coll, flip, l.const())
    if isinstance(l, VLen) or isinstance(r, VLen):
        raise OutOfSubset("comparison of two symbolic sizes")
    return _real_compare(ex, l, op, r)


# ------------------------------------------------------------------------------------------------ constructors
def construct(ex, cls: ClassInfo, args, kwargs):
    L = ex.L
    q = cls.qualname
    if q in ("y0.dsl.Variable", "y0.dsl.CounterfactualVariable") and not args and isinstance(kwargs.get("name"), VOpaque) \
            and isinstance(kwargs["name"].what, tuple) and kwargs["name"].what[0] == "name":
        # Variable(name=v.name, star=v.star) / CounterfactualVariable(name=v.name, star=v.star, interventions=S): same name and mark as v
        b_, ivs, plain = L.var_algebra()
        src = kwargs["name"].what[1]
        st = kwargs.get("star")
        if not (isinstance(st, VOpaque) and isinstance(st.what, tuple) and st.what[0] == "star" and st.what[1].eq(src)):
            raise OutOfSubset("Variable(...) with a name and a mark taken from different objects")
        if q == "y0.dsl.Variable":
            return VNode(plain(src))
        S = ex.as_set(kwargs["interventions"])
        ex.require(L.exists(1, lambda i: S.has(i)), "ValueError", "CounterfactualVariable.interventions")
        ex.require(L.forall(1, lambda i: L.Implies(S.has(i), L.is_intervention(i))), "TypeError", "CounterfactualVariable.interventions")
        bs = list(ex.binders)
        nm = L.fresh_name("cfvar")
        F = z3.Function(nm, *([c.sort() for c in bs] + [L.Node]))
        w = F(*bs)
        L.add_axioms({nm}, [L.forall_c(bs, L.And(L.is_cf(w), b_(w) == b_(src), L.forall(1, lambda i: ivs(w, i) == S.has(i))))] if False else [])
        ex.assume(L.And(L.is_cf(w), b_(w) == b_(src), L.forall(1, lambda i: ivs(w, i) == S.has(i))))
        return VNode(w)
    if q == "y0.dsl.Variable" and len(args) == 1 and not kwargs and isinstance(args[0], VOpaque) and isinstance(args[0].what, tuple) \
            and args[0].what[0] == "transport-name":
        _transport_axioms(L)
        return VNode(L.transport(args[0].what[1]))
    if q == "y0.dsl.Variable" and len(args) == 1 and not kwargs and isinstance(args[0], VFStr):
        ints = [p_ for p_ in args[0].parts if isinstance(p_, VInt)]
        if len(ints) == 1 and all(isinstance(p_, (str, VStr, VInt, VNone)) or p_ is None for p_ in args[0].parts):
            # Variable(f"{prefix}{i}"): distinct integers give distinct names.  Freshness w.r.t. the user's nodes is a precondition
            # stated by the contracts that use it.
            gen = z3.Function("generated_variable", z3.IntSort(), L.Node)
            L.add_axioms({"generated_variable"}, [z3.ForAll([z3.Int("gi"), z3.Int("gj")], z3.Implies(gen(z3.Int("gi")) == gen(z3.Int("gj")), z3.Int("gi") == z3.Int("gj"))),
                                                  z3.ForAll([z3.Int("gi")], z3.And(z3.Not(L.is_intervention(gen(z3.Int("gi")))), z3.Not(L.is_cf(gen(z3.Int("gi"))))))])
            ex.assumption_notes.add("Variable(f'{prefix}{i}') yields pairwise distinct variables for distinct integers i (string formatting of integers is injective)")
            return VNode(gen(ints[0].t))
        raise OutOfSubset("Variable() of a formatted string")
    if q.startswith("y0.dsl.") and ex.repo.is_subclass(cls, "y0.dsl.Expression"):
        return exprs.expr_construct(ex, cls, args, kwargs)
    if q == "y0.graph.NxMixedGraph":
        d = kwargs.get("directed", args[0] if args else None)
        u = kwargs.get("undirected", args[1] if len(args) > 1 else None)
        d = d if d is not None else new_nx(ex, True)
        u = u if u is not None else new_nx(ex, False)
        if not (isinstance(d, VNx) and isinstance(u, VNx)):
            raise OutOfSubset("NxMixedGraph(...) of non-graphs")
        g = VGraph(d, u, owned=True)
        post = ex.repo.find_method(cls, "__post_init__")
        if post is not None:
            ex.call_y0(post, [], {}, self_val=g)
        return g
    if cls.is_dataclass:
        fields = ex.repo.all_fields(cls)
        vals = {}
        names = [n for n, _ in fields]
        if len(args) > len(names):
            raise OutOfSubset("too many constructor arguments")
        for n, a in zip(names, args):
            vals[n] = a
        vals.update(kwargs)
        for n, d in fields:
            if n not in vals:
                if d is None:
                    raise OutOfSubset(f"missing field {n} constructing {cls.name}")
                vals[n] = ex.ev(d)
        obj = VObj(cls, vals, owned=True)
        post = ex.repo.find_method(cls, "__post_init__")
        if post is not None:
            ex.call_y0(post, [], {}, self_val=obj)
        return obj
    if not cls.is_dataclass:
        # plain class: a fresh owned record; __init__ (real code) fills it
        obj = VObj(cls, {}, owned=True)
        init = ex.repo.find_method(cls, "__init__")
        if init is not None:
            ex.call_y0(init, list(args), dict(kwargs), self_val=obj)
        elif args or kwargs:
            raise OutOfSubset(f"constructor {cls.qualname} with arguments but no __init__")
        return obj
    raise OutOfSubset(f"constructor {cls.qualname}")


# ------------------------------------------------------------------------------------------------ builtins and library functions
MUTATING_BUILTINS = ("networkx.set_node_attributes",)


def call_builtin(ex, name, args, kwargs):
    L = ex.L
    short = name.split(".")[-1]
    if name not in MUTATING_BUILTINS:
        args = [freeze(a) if isinstance(a, V) else a for a in args]
    if args and isinstance(args[0], VESeq) and name != "isinstance":
        T = exprs.theory(ex)
        sq = args[0]
        if name in ("tuple", "list", "iter"):
            return sq
        if name == "sorted" and not kwargs:
            ex.assumption_notes.add("sorted() of expressions is a permutation (Expression.__lt__ compares _get_key(); "
                                    "comparability of the keys is not modelled here)")
            return VESeq(T.regs(T.perm(sq.t)))
        if name == "len":
            return VLen(sq)
        if name == "bool":
            return VBool(L.Not(T.is_nil(sq.t)))
        raise OutOfSubset(f"{name}() of a sequence of expressions")
    if args and isinstance(args[0], VAnyZero):
        if name == "any":
            T = exprs.theory(ex)
            return VBool(T.has_zero(args[0].seq.t))
        raise OutOfSubset(f"{name}() over an expression test")
    if name == "map" and len(args) == 2 and isinstance(args[0], VFunc) and args[0].kind == "y0":
        # map(f, collection) for a y0 function f under contract: f's precondition and exceptions are checked for an arbitrary
        # element (the element constants are free, i.e. universally quantified); the results form a lazily described collection
        f, coll = args
        out = []
        for consts, guard, elt in ex.comp_alts(coll):
            ex.binders.extend(consts)
            n0 = len(ex.pc)
            ex.pc.append(guard)
            try:
                r = ex.apply(f, [elt], {})
            finally:
                del ex.pc[n0:]
                del ex.binders[len(ex.binders) - len(consts):]
            out.append((list(consts), guard, r))
        c = VComp(None, None, None, kind="gen")
        c.alts = out
        return c
    if name == "frozenset" and len(args) == 1 and isinstance(args[0], VSet) and getattr(args[0], "two_items", None) is not None:
        a_, b_ = args[0].two_items
        return VUPair(a_, b_)
    if name in ("tuple", "list") and len(args) == 1 and isinstance(args[0], VUPair):
        return VTuple([VNode(args[0].a), VNode(args[0].b)])
    if name in ("set", "frozenset", "list", "tuple"):
        if not args:
            s = empty_set(kind="list" if name in ("list", "tuple") else "set")
            s.known_empty = True
            return s
        a = args[0]
        if name in ("list", "tuple") and isinstance(a, (VSeq, VTuple)):
            return a
        if name in ("list", "tuple") and isinstance(a, VSet) and getattr(a, "seq_view", None) is not None:
            return a.seq_view
        if isinstance(a, VFam):
            return a
        if isinstance(a, VComp) and a.alts and all(isinstance(e, VSet) for _, _, e in a.alts):
            # a set of frozensets: indexed family (only the single-binder form is modelled)
            fam = as_family(ex, a)
            if fam is not None:
                return fam
            raise OutOfSubset("family with several binders")
        s = ex.as_set(a)
        kind = "list" if name in ("list", "tuple") else ("frozenset" if name == "frozenset" else "set")
        out = VSet(s.pred, arity=s.arity, kind=kind, owned=True)
        return out
    if name == "isinstance":
        return VBool(isinstance_(ex, args[0], args[1]))
    if name in ("any", "all"):
        alts = ex.comp_alts(args[0])
        parts = []
        for consts, g, e in alts:
            t = ex.truthy(e)
            parts.append(L.exists_c(consts, L.And(g, t)) if name == "any" else L.forall_c(consts, L.Implies(g, t)))
        return VBool(L.Or(*parts) if name == "any" else L.And(*parts))
    if name == "len":
        a = args[0]
        if isinstance(a, VTuple):
            return VInt(len(a.items))
        if isinstance(a, VGraph):
            m = ex.repo.find_method(ex.repo.resolve("y0.graph.NxMixedGraph"), "__len__")
            return ex.call_y0(m, [], {}, self_val=a)
        return VLen(a)
    if name == "enumerate":
        coll = args[0]
        start = kwargs.get("start", args[1] if len(args) > 1 else VInt(0))
        if not isinstance(start, VInt):
            raise OutOfSubset("enumerate with a non-integer start")
        out = []
        for consts, guard, elt in ex.comp_alts(coll):
            idx = z3.Function(L.fresh_name("position"), *([c.sort() for c in ex.binders] + [c.sort() for c in consts]), z3.IntSort())
            bs = list(ex.binders)
            # positions are pairwise distinct (injective on the enumerated elements) and non-negative
            if consts:
                other = [z3.Const(L.fresh_name("o"), c.sort()) for c in consts]
                L.add_axioms({idx.name()}, [L.forall_c(bs + list(consts) + other, L.Implies(idx(*bs, *consts) == idx(*bs, *other), L.And(*[a == b for a, b in zip(consts, other)]))),
                                            ])
            # `start` is a constant offset: position + start is again an injective function of the element, so the offset is folded
            # into the symbol (keeps the verification conditions free of arithmetic)
            out.append((list(consts), guard, VTuple([VInt(idx(*bs, *consts)), elt])))
        ex.assumption_notes.add("enumerate() over a collection without duplicates: positions are an injective function of the element (their order is not used)")
        c = VComp(None, None, None, kind="gen")
        c.alts = out
        return c
    if name == "sorted" and args and isinstance(args[0], VSet) and args[0].arity == 2 and not kwargs:
        ex.assumption_notes.add("sorted() of a list of pairs: a permutation (only membership and enumerate positions are used)")
        return args[0]
    if name == "sorted":
        key = kwargs.get("key")
        if key is not None and isinstance(key, VFunc) and key.kind == "y0" and key.target.qualname == "y0.dsl._variable_sort_key":
            a0 = args[0]
            if isinstance(a0, VTuple) and len(a0.items) == 2 and all(isinstance(i, VNode) for i in a0.items):
                # stable sort of two variables by (name, subscripts): an unspecified strict weak order on variables
                klt = z3.Function("variable_sort_key_lt", L.Node, L.Node, L.B)
                L.add_axioms({"variable_sort_key_lt"}, [L.forall(1, lambda a: L.Not(klt(a, a))),
                                                        L.forall(2, lambda a, b: L.Not(L.And(klt(a, b), klt(b, a))))])
                x, y = a0.items
                if ex.branch(klt(y.t, x.t)):
                    return VTuple([y, x])
                return VTuple([x, y])
            if _setlike(a0) and not isinstance(a0, VSeq):
                st = ex.as_set(a0)
                if st.arity == 1:
                    # sorting a set of variables by (name, subscripts): some strict total order on variables (unspecified)
                    klt = z3.Function("variable_sort_key_lt", L.Node, L.Node, L.B)
                    L.add_axioms({"variable_sort_key_lt"}, [L.forall(1, lambda a: L.Not(klt(a, a))),
                                                            L.forall(2, lambda a, b: L.Not(L.And(klt(a, b), klt(b, a)))),
                                                            L.forall(3, lambda a, b, c: L.Implies(L.And(klt(a, b), klt(b, c)), klt(a, c))),
                                                            L.forall(2, lambda a, b: L.Or(a == b, klt(a, b), klt(b, a)))])
                    ex.assumption_notes.add("sorted(key=_variable_sort_key) of a set of variables: an unspecified strict total order "
                                            "(distinct variables have distinct (name, subscripts) keys)")
                    return VSeq(lambda x: st.has(x), lambda a, b: klt(a, b))
            raise OutOfSubset("sorted by _variable_sort_key of a symbolic collection")
        if key is not None:
            if not (isinstance(key, VFunc) and key.kind == "builtin" and key.target == "str"):
                raise OutOfSubset("sorted with a key other than str")
            ex.assumption_notes.add("sorted(key=str) over plain Variables orders like Variable.__lt__ (both by name); "
                                    "graph nodes are assumed to be plain Variables (star=None)")
        if kwargs.get("reverse") is not None:
            raise OutOfSubset("sorted with reverse")
        a0 = args[0]
        if isinstance(a0, VTuple) and len(a0.items) == 2 and all(isinstance(i, VNode) for i in a0.items):
            x, y = a0.items
            lt0 = L.var_order()
            if ex.branch(L.Or(lt0(x.t, y.t), x.t == y.t)):
                return VTuple([x, y])
            return VTuple([y, x])
        s = ex.as_set(args[0])
        if s.arity != 1:
            raise OutOfSubset("sorted of tuples")
        lt = L.var_order()
        ex.assumption_notes.add("sorted() over Variables uses Variable.__lt__, modelled as one strict total order on nodes")
        return VSeq(lambda x: s.has(x), lambda a, b: L.And(s.has(a), s.has(b), lt(a, b)))
    if name == "iter":
        return args[0]
    if name in ("ValueError", "TypeError", "KeyError", "RuntimeError", "NotImplementedError"):
        return VOpaque(name)
    if name in ("str", "repr"):
        return VOpaque("str")
    if name == "bool":
        return VBool(ex.truthy(args[0]))
    # ---- itertools
    if name in ("itertools.chain.from_iterable", "chain.from_iterable", "itertools.chain_from_iterable"):
        return ex.union_of(args[0])
    if name in ("itertools.chain", "chain"):
        sets = [ex.as_set(a) for a in args]
        ar = sets[0].arity if sets else 1
        return VSet(lambda *xs: L.Or(*[s.has(*xs) for s in sets]), arity=ar, kind="list")
    if name in ("more_itertools.triplewise", "triplewise") and len(args) == 1 and not kwargs and isinstance(args[0], VSeq):
        # consecutive triples of a duplicate-free sequence
        sq = args[0]
        succ = lambda a, b: L.And(sq.before(a, b), L.Not(L.exists(1, lambda x: L.And(sq.before(a, x), sq.before(x, b)))))
        a_, b_, c_ = L.node("t1"), L.node("t2"), L.node("t3")
        c = VComp(None, None, None, kind="gen")
        c.alts = [([a_, b_, c_], L.And(sq.mem(a_), sq.mem(b_), sq.mem(c_), succ(a_, b_), succ(b_, c_)), VTuple([VNode(a_), VNode(b_), VNode(c_)]))]
        return c
    if name in ("itertools.combinations", "combinations"):
        n = args[1]
        if not (isinstance(n, VInt) and n.const() == 2):
            raise OutOfSubset("combinations with r != 2")
        return combinations2(ex, args[0])
    if name in ("itertools.product", "product") and len(args) == 1 and set(kwargs) == {"repeat"} \
            and isinstance(kwargs["repeat"], VInt) and kwargs["repeat"].const() == 2:
        # product(S, repeat=2): every ordered pair of elements of S (order of the pairs abstracted)
        alts = ex.comp_alts(args[0])
        out = []
        for cs1, g1, e1 in alts:
            for cs2, g2, e2 in alts:
                fresh = [z3.Const(L.fresh_name("p2"), c.sort()) for c in cs2]
                sub = list(zip(cs2, fresh))
                out.append((list(cs1) + fresh, L.And(g1, z3.substitute(g2, *sub) if sub else g2), VTuple([e1, _subst_value(e2, sub)])))
        c = VComp(None, None, None, kind="gen")
        c.alts = out
        return c
    if name in ("itertools.product", "product"):
        if len(args) != 2 or kwargs:
            raise OutOfSubset("product arity")
        a, b = ex.as_set(args[0]), ex.as_set(args[1])
        return VSet(lambda x, y: L.And(a.has(x), b.has(y)), arity=2, kind="list")
    if name in ("functools.partial", "partial"):
        return VFunc("partial", (args[0], args[1:], kwargs))
    # ---- networkx
    if name in ("networkx.DiGraph", "networkx.Graph"):
        g = new_nx(ex, name.endswith("DiGraph"))
        if args:
            nx_add_edges_from(ex, g, args[0])
        return g
    if name in ("networkx.ancestors", "networkx.descendants"):
        g, s = args
        if not (isinstance(g, VNx) and isinstance(s, VNode)):
            raise OutOfSubset(name)
        ex.require(g.N(s.t), "NetworkXError", short)
        C = ex.closure(lambda a, b: g.E(a, b), "anc")
        if short == "ancestors":
            return VSet(lambda x: L.And(C(x, s.t), x != s.t, g.N(x)))
        return VSet(lambda x: L.And(C(s.t, x), x != s.t, g.N(x)))
    if name == "networkx.connected_components":
        g = args[0]
        C = ex.closure(lambda a, b: g.E(a, b), "cc")
        comp = VComp(None, None, None, kind="gen")
        r = L.node("r")
        comp.alts = [([r], g.N(r), VSet(lambda x, r=r: L.And(g.N(x), C(r, x)), kind="set", owned=False))]
        return comp
    if name == "networkx.is_connected":
        g = args[0]
        ex.require(L.exists(1, lambda x: g.N(x)), "NetworkXPointlessConcept", "is_connected")
        C = ex.closure(lambda a, b: g.E(a, b), "cc")
        return VBool(L.forall(2, lambda a, b: L.Implies(L.And(g.N(a), g.N(b)), C(a, b))))
    if name == "networkx.has_path":
        g, a, b = args
        ex.require(g.N(a.t), "NodeNotFound", "has_path.source")
        ex.require(g.N(b.t), "NodeNotFound", "has_path.target")
        C = ex.closure(lambda x, y: g.E(x, y), "path")
        return VBool(C(a.t, b.t))
    if name == "networkx.topological_sort":
        g = args[0]
        ac, _ = acyclic(ex, lambda a, b: g.E(a, b))
        ex.require(ac, "NetworkXUnfeasible", "topological_sort")
        before = L.strict_total_order_on(lambda x: g.N(x), "topo")
        ex.assume(L.forall(2, lambda a, b: L.Implies(g.E(a, b), before(a, b))))
        return VSeq(lambda x: g.N(x), before)
    if name == "networkx.is_directed_acyclic_graph":
        g = args[0]
        ac, _ = acyclic(ex, lambda a, b: g.E(a, b))
        return VBool(ac)
    if name == "networkx.transitive_closure_dag":
        g = args[0]
        ac, C = acyclic(ex, lambda a, b: g.E(a, b))
        ex.require(ac, "NetworkXUnfeasible", "transitive_closure_dag")
        return VNx(True, lambda x: g.N(x), lambda a, b: L.And(C(a, b), a != b, g.N(a), g.N(b)), owned=True)
    if name == "networkx.set_node_attributes":
        g, val, tag = args
        if not (isinstance(val, VBool) and isinstance(tag, VStr)):
            raise OutOfSubset("set_node_attributes with non-constant value")
        check_owned(ex, g, "set_node_attributes")
        if g.tracked:
            raise OutOfSubset('set_node_attributes inside a loop')
        N0 = g._N
        old = g.nattrs.get(tag.s)
        v = val.t
        if old is None:
            g.nattrs[tag.s] = (lambda x: N0(x), lambda x: v)
        else:
            oh, ov = old
            g.nattrs[tag.s] = (lambda x: L.Or(oh(x), N0(x)), lambda x: z3.If(N0(x), v, ov(x)))
        return NONE
    raise OutOfSubset(f"library function {name}")


def _subst_value(v, sub):
    """Rename iteration constants inside an element value (nodes, tuples, sets)."""
    if not sub:
        return v
    if isinstance(v, VNode):
        return VNode(z3.substitute(v.t, *sub))
    if isinstance(v, VTuple):
        return VTuple([_subst_value(i, sub) for i in v.items])
    if isinstance(v, VSet):
        p0 = v.pred
        r = VSet(lambda *xs: z3.substitute(p0(*xs), *sub), arity=v.arity, kind=v.kind, owned=False)
        return r
    raise OutOfSubset(f"renaming inside a {type(v).__name__}")


def combinations2(ex, src):
    """combinations(S, 2): each unordered pair of distinct elements exactly once, in an unspecified orientation
    (the iteration order of S); for a sequence the orientation is the sequence order."""
    L = ex.L
    if isinstance(src, VFam):
        # a set of frozensets: pairs of different member sets (members are indexed; two indices may name the same set, which
        # a Python set holds once -- hence `different as sets`), each unordered pair once in an unspecified orientation
        fam = src
        diff = lambda a, b: L.exists(1, lambda x: fam.mem(a, x) != fam.mem(b, x))
        o = param_pred(ex, "famcomb", 2, [
            lambda o: L.forall(2, lambda a, b: L.Implies(o(a, b), L.And(fam.idx(a), fam.idx(b), diff(a, b)))),
            lambda o: L.forall(2, lambda a, b: L.Implies(L.And(fam.idx(a), fam.idx(b), diff(a, b)),
                                                         L.exists(2, lambda c, d: L.And(L.Or(L.And(o(c, d)), L.F()), L.Or(
                                                             L.And(L.Not(diff(a, c)), L.Not(diff(b, d))), L.And(L.Not(diff(a, d)), L.Not(diff(b, c)))))))),
        ])
        r1, r2 = L.node("w1"), L.node("w2")
        c = VComp(None, None, None, kind="gen")
        c.alts = [([r1, r2], o(r1, r2), VTuple([VSet(lambda x, r=r1: fam.mem(r, x), kind="frozenset", owned=False),
                                                  VSet(lambda x, r=r2: fam.mem(r, x), kind="frozenset", owned=False)]))]
        ex.assumption_notes.add("combinations(F, 2) over a set of frozensets: every unordered pair of different member sets at least once, in an unspecified orientation "
                                "(multiplicity is not modelled: the consumers build sets)")
        return c
    if isinstance(src, VSeq):
        return VSet(lambda a, b: L.And(src.mem(a), src.mem(b), src.before(a, b)), arity=2, kind="list")
    s = ex.as_set(src)
    if s.kind == "list" and False:
        raise OutOfSubset("combinations over a list with possible duplicates")
    S = s.pred
    o = param_pred(ex, "comb", 2, [
        lambda o: L.forall(2, lambda a, b: L.Implies(o(a, b), L.And(S(a), S(b), a != b))),
        lambda o: L.forall(2, lambda a, b: L.Implies(L.And(S(a), S(b), a != b), L.Or(o(a, b), o(b, a)))),
        lambda o: L.forall(2, lambda a, b: L.Not(L.And(o(a, b), o(b, a)))),
    ])
    if s.kind == "list":
        ex.assumption_notes.add("combinations() over an iterator of distinct elements (predecessors/successors views)")
    return VSet(lambda a, b: o(a, b), arity=2, kind="list")


def isinstance_(ex, v, t):
    L = ex.L
    if isinstance(t, VTuple):
        return L.Or(*[isinstance_(ex, v, x) for x in t.items])
    if not isinstance(t, VFunc):
        raise OutOfSubset("isinstance against a non-class")
    tn = t.target.qualname if t.kind == "class" else t.target
    if isinstance(v, VExpr):
        return exprs.expr_isinstance(ex, v, tn)
    if isinstance(v, (VESeq, VDist, exprs.VAnyZero)):
        return z3.BoolVal(tn in ("tuple",) and isinstance(v, VESeq))
    if isinstance(v, VNode):
        if tn == "y0.dsl.Variable":
            return L.T()
        if tn == "y0.dsl.Intervention":
            return L.is_intervention(v.t)
        if tn == "y0.dsl.CounterfactualVariable":
            return L.is_cf(v.t)
        if tn in ("str", "list", "tuple", "set", "frozenset", "dict", "y0.graph.NxMixedGraph"):
            return L.F()
        raise OutOfSubset(f"isinstance(node, {tn})")
    if isinstance(v, VGraph):
        return z3.BoolVal(tn == "y0.graph.NxMixedGraph")
    if isinstance(v, (VSet, VSeq, VTuple, VComp, VFam, VDict)):
        if tn in ("str", "y0.graph.NxMixedGraph") or tn.startswith("y0.dsl."):
            return L.F()
        if tn in ("frozenset", "set") and isinstance(v, VSet) and v.kind in ("set", "frozenset"):
            # the container kind is tracked for sets built by set(...) / frozenset(...) / comprehensions / frozen fields
            return z3.BoolVal(v.kind == tn)
        raise OutOfSubset(f"isinstance(collection, {tn})")
    if isinstance(v, VObj) and isinstance(v.cls, ClassInfo) and t.kind == "class":
        return z3.BoolVal(ex.repo.is_subclass(v.cls, tn))
    if isinstance(v, VNone):
        return L.F()
    if isinstance(v, VStr):
        return z3.BoolVal(tn == "str")
    raise OutOfSubset(f"isinstance({type(v).__name__}, {tn})")


# ------------------------------------------------------------------------------------------------ methods on symbolic values
def nx_add_edges_from(ex, g: VNx, coll):
    s = ex.as_set(coll)
    if s.arity != 2:
        raise OutOfSubset("add_edges_from of non-pairs")
    check_owned(ex, g, "add_edges_from")
    g.add_E(lambda a, b: s.has(a, b))
    L = ex.L
    g.add_N(lambda x: L.exists(1, lambda w: L.Or(s.has(x, w), s.has(w, x))))


MUTATING_METHODS = {"add_node", "add_edge", "add_nodes_from", "add_edges_from", "remove_node", "remove_nodes_from",
                    "add", "append", "update", "extend", "pop", "remove", "discard", "clear"}


def call_method(ex, obj, name, args, kwargs):
    L = ex.L
    args = [freeze(a) if isinstance(a, V) else a for a in args]
    if name not in MUTATING_METHODS:
        obj = freeze(obj)
    # ---------------- networkx graph objects
    if isinstance(obj, VNx):
        if name == "add_node":
            check_owned(ex, obj, "add_node")
            n = args[0]
            if not isinstance(n, VNode):
                raise OutOfSubset("add_node of a non-node")
            obj.add_N(lambda x: x == n.t)
            if kwargs:
                for tag, val in kwargs.items():
                    _set_nattr(ex, obj, tag, n.t, val)
            return NONE
        if name == "add_edge":
            check_owned(ex, obj, "add_edge")
            u, v = args[:2]
            if not (isinstance(u, VNode) and isinstance(v, VNode)):
                raise OutOfSubset("add_edge of non-nodes")
            if kwargs and any(True for _ in kwargs):
                ex.assumption_notes.add("edge attributes are not modelled (they do not affect node / edge sets)")
            obj.add_E(lambda a, b: L.And(a == u.t, b == v.t))
            obj.add_N(lambda x: L.Or(x == u.t, x == v.t))
            return NONE
        if name == "add_nodes_from":
            check_owned(ex, obj, "add_nodes_from")
            s = ex.as_set(args[0]) if not (isinstance(args[0], VSet) and args[0].arity == 2) else None
            if s is None:
                p = args[0]
                obj.add_N(lambda x: L.exists(1, lambda w: L.Or(p.has(x, w), p.has(w, x))))
                raise OutOfSubset("add_nodes_from of pairs")
            if s.arity != 1:
                raise OutOfSubset("add_nodes_from of tuples")
            obj.add_N(lambda x: s.has(x))
            return NONE
        if name == "add_edges_from":
            nx_add_edges_from(ex, obj, args[0])
            return NONE
        if name == "nodes" and not args and not kwargs:
            v = VSet(lambda x: obj.N(x), owned=False)
            v.nx_view = (obj, "nodes")
            return v
        if name == "edges" and not args and not kwargs:
            v = nx_edges_view(ex, obj)
            v.nx_view = (obj, "edges")
            return v
        if name == "predecessors":
            n = args[0]
            if not obj.directed:
                raise OutOfSubset("predecessors of an undirected graph")
            ex.require(obj.N(n.t), "NetworkXError", "predecessors")
            return VSet(lambda x: obj.E(x, n.t), kind="list", owned=False)
        if name in ("successors", "neighbors"):
            n = args[0]
            ex.require(obj.N(n.t), "NetworkXError", name)
            return VSet(lambda x: obj.E(n.t, x), kind="list", owned=False)
        if name in ("out_edges", "in_edges", "out_degree", "in_degree") and len(args) == 1 and not kwargs \
                and isinstance(args[0], VNode):
            if not obj.directed:
                raise OutOfSubset(f"{name} of an undirected graph")
            n = args[0]
            E = obj.curE
            if name == "out_edges":
                # networkx returns an empty view for a node that is not in the graph only via nbunch filtering; a single missing
                # node raises NetworkXError when the view is iterated / measured
                ex.require(obj.N(n.t), "NetworkXError", name)
                return VSet(lambda a, b: L.And(a == n.t, E(a, b)), arity=2, kind="list", owned=False)
            if name == "in_edges":
                ex.require(obj.N(n.t), "NetworkXError", name)
                return VSet(lambda a, b: L.And(b == n.t, E(a, b)), arity=2, kind="list", owned=False)
            ex.require(obj.N(n.t), "KeyError", name)
            if name == "out_degree":
                return VLen(VSet(lambda x: E(n.t, x), kind="list", owned=False))
            return VLen(VSet(lambda x: E(x, n.t), kind="list", owned=False))
        if name == "has_edge":
            u, v = args
            return VBool(obj.E(u.t, v.t))
        if name == "has_node":
            return VBool(obj.N(args[0].t))
        if name == "copy":
            N, E = obj.curN, obj.curE
            return VNx(obj.directed, N, E, owned=True, nattrs=obj.nattrs, gattrs=obj.gattrs)
        if name == "subgraph":
            s = ex.as_set(args[0])
            return VNx(obj.directed, lambda x: L.And(obj.N(x), s.has(x)),
                       lambda a, b: L.And(obj.E(a, b), s.has(a), s.has(b)), owned=False, nattrs=obj.nattrs)
        if name == "number_of_nodes":
            return call_builtin(ex, "len", [obj], {})
        if name in ("remove_node", "remove_nodes_from"):
            check_owned(ex, obj, name)
            s = ex.as_set(args[0]) if name == "remove_nodes_from" else VSet(lambda x: x == args[0].t)
            if name == "remove_node":
                ex.require(obj.N(args[0].t), "NetworkXError", "remove_node")
            if obj.tracked:
                raise OutOfSubset("node removal inside a loop (needs a sidecar invariant)")
            oN, oE = obj._N, obj._E
            obj._N = lambda x: L.And(oN(x), L.Not(s.has(x)))
            obj._E = lambda a, b: L.And(oE(a, b), L.Not(s.has(a)), L.Not(s.has(b)))
            return NONE
        raise OutOfSubset(f"networkx method {name}")
    # ---------------- sets / lists
    if isinstance(obj, VSet):
        if name in ("add", "append"):
            check_owned(ex, obj, name)
            it = args[0]
            if isinstance(it, VNode) and obj.arity == 1:
                obj.add_pred(lambda x: x == it.t)
                if hasattr(obj, "appended") and obj.tracked:
                    obj.appended.append(it.t)
            elif isinstance(it, VTuple) and all(isinstance(i, VNode) for i in it.items):
                ts = [i.t for i in it.items]
                if getattr(obj, "known_empty", False) and obj.arity == 1:
                    obj.arity = len(ts)
                if obj.arity != len(ts):
                    raise OutOfSubset("arity mismatch in add/append")
                obj.add_pred(lambda *xs: L.And(*[x == t for x, t in zip(xs, ts)]))
            else:
                raise OutOfSubset(f"add/append of {type(it).__name__}")
            if not obj.tracked:
                obj.known_empty = False
            return NONE
        if name in ("update", "extend"):
            check_owned(ex, obj, name)
            for a in args:
                s = ex.as_set(a)
                obj.add_pred(lambda *xs, s=s: s.has(*xs))
            if not obj.tracked:
                obj.known_empty = False
            return NONE
        if name in ("union", "intersection", "difference", "symmetric_difference"):
            cur = VSet(obj.pred, arity=obj.arity)
            op = {"union": ast.BitOr(), "intersection": ast.BitAnd(), "difference": ast.Sub(),
                  "symmetric_difference": ast.BitXor()}[name]
            for a in args:
                cur = binop(ex, cur, op, a if _setlike(a) else ex.as_set(a))
            return cur
        if name in ("issubset", "issuperset", "isdisjoint"):
            o = ex.as_set(args[0])
            if name == "issubset":
                return VBool(L.forall(obj.arity, lambda *xs: L.Implies(obj.has(*xs), o.has(*xs))))
            if name == "issuperset":
                return VBool(L.forall(obj.arity, lambda *xs: L.Implies(o.has(*xs), obj.has(*xs))))
            return VBool(L.forall(obj.arity, lambda *xs: L.Not(L.And(o.has(*xs), obj.has(*xs)))))
        if name == "copy":
            return VSet(obj.pred, arity=obj.arity, kind=obj.kind)
        if name == "pop" and not args:
            # an arbitrary element (set.pop) -- raises KeyError on the empty set
            if obj.arity != 1:
                raise OutOfSubset("pop of tuples")
            check_owned(ex, obj, "pop")
            ex.require(L.exists(1, lambda x: obj.has(x)), "KeyError" if obj.kind != "list" else "IndexError", "pop")
            e = L.node("popped")
            ex.assume(obj.has(e))
            old = obj.pred
            obj.set_pred(lambda x: L.And(old(x), x != e))
            return VNode(e)
        if name in ("remove", "discard"):
            check_owned(ex, obj, name)
            it = args[0]
            if name == "remove":
                ex.require(obj.has(it.t), "KeyError" if obj.kind != "list" else "ValueError", "remove")
            old = obj.pred
            obj.set_pred(lambda x: L.And(old(x), x != it.t))
            return NONE
        if name in ("items", "values") and hasattr(obj, "nx_view") and obj.nx_view[1] == "nodes":
            g = obj.nx_view[0]
            n = L.node("nd")
            c = VComp(None, None, None, kind="gen")
            elt = VAttrs(g, n) if name == "values" else VTuple([VNode(n), VAttrs(g, n)])
            c.alts = [([n], g.N(n), elt)]
            return c
        raise OutOfSubset(f"set method {name}")
    if isinstance(obj, VSeq):
        if name == "index":
            it = args[0]
            ex.require(obj.mem(it.t), "ValueError", "index")
            return VPos(obj, it.t, 0)
        if name == "copy":
            return obj
        raise OutOfSubset(f"sequence method {name}")
    if isinstance(obj, VNode) and name == "intervene" and len(args) == 1:
        # Variable.intervene(S) on a plain variable with a set of Intervention objects (CounterfactualVariable's constructor
        # rejects an empty set with ValueError).  Members that are not Intervention objects are *converted* by the real code
        # (Intervention(name, star=False)); that conversion is outside the model: the side condition below is a model limit
        at = L.intervene_axioms()
        S = ex.as_set(args[0])
        ex.require(L.And(L.Not(L.is_cf(obj.t)), L.Not(L.is_intervention(obj.t))), "ModelLimit", "model.intervene.receiver")
        ex.require(L.forall(1, lambda i: L.Implies(S.has(i), L.is_intervention(i))), "ModelLimit", "model.intervene.members")
        ex.require(L.exists(1, lambda i: S.has(i)), "ValueError", "intervene.empty")
        from . import exprs
        T = exprs.theory(ex)
        return VNode(at(T.set_to_array(S, binders=ex.binders), obj.t))
    if isinstance(obj, VNode):
        if name == "get_base":
            b_, _, _ = L.var_algebra()
            return VNode(b_(obj.t))
        raise OutOfSubset(f"Variable method {name}")
    if isinstance(obj, VObj) and obj.cls == "gattrs":
        if name == "get":
            k = args[0]
            if isinstance(k, VStr):
                return obj.fields.get(k.s, args[1] if len(args) > 1 else NONE)
    if isinstance(obj, VOpaque) and isinstance(obj.what, tuple) and obj.what[0] == "name" and name == "startswith" \
            and len(args) == 1 and isinstance(args[0], VStr) and args[0].s == "T_":
        ex.assumption_notes.add("v.name.startswith('T_') is read as the predicate is_transport_node(v); transport_variable(v) = Variable('T_' + v.name) "
                                "is an injective function into transport nodes (string concatenation with a fixed prefix is injective)")
        _transport_axioms(L)
        return VBool(L.is_transport(obj.what[1]))
    if isinstance(obj, VDict) and name in ("items", "keys", "values") and not args and obj.val is not None:
        obj._check_read()
        k = L.node("key")
        c = VComp(None, None, None, kind="gen")
        elt = VNode(k) if name == "keys" else (obj.val(k) if name == "values" else VTuple([VNode(k), obj.val(k)]))
        c.alts = [([k], obj.dom(k), elt)]
        return c
    if isinstance(obj, VFam):
        if name == "pop" and not args:
            # an arbitrary member of a set of frozensets (the set itself is a temporary here: removal is not tracked)
            ex.require(L.exists(1, lambda r: obj.idx(r)), "KeyError", "pop")
            r0 = L.node("member")
            ex.assume(obj.idx(r0))
            ex.assumption_notes.add("set.pop() on a set of frozensets returns an arbitrary member (no order assumed)")
            return VSet(lambda x: obj.mem(r0, x), kind="frozenset", owned=False)
    raise OutOfSubset(f"method {name} on {type(obj).__name__}")


def _transport_axioms(L):
    if not getattr(L, "_transport_axioms_added", False):
        L._transport_axioms_added = True
        T, ist = L.transport, L.is_transport
        L.add_axioms(set(), [L.forall(1, lambda v: L.And(ist(T(v)), L.Not(L.is_intervention(T(v))), L.Not(L.is_cf(T(v))))),
                             L.forall(2, lambda u, v: L.Implies(T(u) == T(v), u == v))])


def _set_nattr(ex, g, tag, node_t, val):
    L = ex.L
    if not isinstance(val, VBool):
        raise OutOfSubset("non-boolean node attribute")
    if g.tracked:
        # inside a loop body: recorded as a delta (tag, node, value); applied by the loop summary
        v0 = z3.simplify(val.t)
        if not (z3.is_true(v0) or z3.is_false(v0)):
            raise OutOfSubset("node attribute set to a non-constant value inside a loop")
        g.nattr_delta = getattr(g, "nattr_delta", []) + [(tag, node_t, z3.is_true(v0))]
        return
    old = g.nattrs.get(tag)
    v = val.t
    if old is None:
        g.nattrs[tag] = (lambda x: x == node_t, lambda x: v)
    else:
        oh, ov = old
        g.nattrs[tag] = (lambda x: L.Or(oh(x), x == node_t), lambda x: z3.If(x == node_t, v, ov(x)))
