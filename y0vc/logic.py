"""Logic layer: sorts, fresh symbols, quantifiers, closures, orders.

One `Logic` object per verification-condition set.  Two modes:

* unbounded: `Node` is an uninterpreted sort; quantifiers are real quantifiers; the
  reflexive-transitive closure of a relation is an uninterpreted predicate with the
  axioms listed in `Logic.rtc` (every one a theorem about `Relation.ReflTransGen`,
  see lemmas/Y0Lemmas.lean).  A `sat` answer over closures is only a candidate.
* finite exact (`k` given): `Node` is an enumeration of `k` constants, every quantifier
  created through this class is expanded, and a closure is *defined* by the rank
  axiomatisation, which is exact on a finite universe.  A `sat` answer is a genuine
  counter-model and is concretised into a real input.
"""
from __future__ import annotations

import itertools

import z3


_SYM_CACHE: dict = {}
_ENUMS: dict = {}


def symbols_of(f):
    """Names of the uninterpreted symbols occurring in a formula."""
    key = f.get_id()
    hit = _SYM_CACHE.get(key)
    if hit is not None and hit[0].eq(f):
        return hit[1]
    out, seen, todo = set(), set(), [f]
    while todo:
        t = todo.pop()
        i = t.get_id()
        if i in seen:
            continue
        seen.add(i)
        if z3.is_quantifier(t):
            todo.append(t.body())
        elif z3.is_app(t):
            if t.decl().kind() == z3.Z3_OP_UNINTERPRETED:
                out.add(t.decl().name())
            todo.extend(t.children())
    _SYM_CACHE[key] = (f, out)
    return out


class Logic:
    def __init__(self, k: int | None = None, tag: str = ""):
        self.k = k
        self.tag = tag
        self._n = 0
        self.axioms: list = []          # (needs: frozenset of symbol names, formula): definitional axioms of fresh symbols
        self.lemma_uses: list[str] = []  # names of Lean lemmas whose instances were added
        self.closures: list = []        # (name, R, rtc) triples, for pairwise simulation lemmas
        self.defs: dict = {}            # name of a defined predicate -> (formal parameters, body)
        self._closure_pairs_done: set = set()
        if k is None:
            self.Node = z3.DeclareSort("Node")
            self.universe = None
        else:
            if k not in _ENUMS:
                _ENUMS[k] = z3.EnumSort(f"Node{k}", [f"n{i}" for i in range(k)])
            self.Node, consts = _ENUMS[k]
            self.universe = list(consts)
        self.B = z3.BoolSort()
        # global symbols about nodes-as-Variables
        self.is_intervention = z3.Function("is_intervention", self.Node, self.B)
        self.is_cf = z3.Function("is_counterfactual", self.Node, self.B)
        # total order of Variables (Variable.__lt__ compares str()): strict total order on Node
        self.vlt = z3.Function("var_lt", self.Node, self.Node, self.B)
        self._vlt_axioms_added = False
        # a small algebra of Variable objects (DESIGN §2.2): base variable, subscript relation, the plain variable with the same
        # name and mark, the counterfactual variable with the same name / mark and a given subscript set
        self.base = z3.Function("get_base", self.Node, self.Node)
        self.ivs = z3.Function("has_subscript", self.Node, self.Node, self.B)
        self.plain = z3.Function("plain_variable_like", self.Node, self.Node)
        self._var_axioms_added = False
        # selection (transport) nodes: transport_variable(v) = Variable("T_" + v.name) is injective and yields a transport node
        self.NodeSetSort = z3.ArraySort(self.Node, self.B)
        self.at = z3.Function("intervene_with", self.NodeSetSort, self.Node, self.Node)      # x.intervene(S)
        self.iv_plus = z3.Function("iv_plus", self.Node, self.Node)                           # +x
        self.iv_minus = z3.Function("iv_minus", self.Node, self.Node)                         # -x
        self._at_axioms_added = False
        self.is_transport = z3.Function("is_transport_node", self.Node, self.B)
        self.transport = z3.Function("transport_variable", self.Node, self.Node)

    def intervene_axioms(self):
        """x.intervene(S) for a plain variable x and a set S of Intervention objects: the counterfactual variable with x's name
        and mark and exactly the subscripts S; +x / -x are Intervention objects of x."""
        b, ivs, plain = self.var_algebra()
        if not self._at_axioms_added:
            self._at_axioms_added = True
            A = z3.Const("A_iv", self.NodeSetSort)
            x, y, i = z3.Const("x_iv", self.Node), z3.Const("y_iv", self.Node), z3.Const("i_iv", self.Node)
            plainvar = lambda v: z3.And(z3.Not(self.is_cf(v)), z3.Not(self.is_intervention(v)))
            if self.k is None:
                fa = lambda vs, body: z3.ForAll(vs, body)
            else:
                fa = None
            axs = []
            if fa is not None:
                j = z3.Const("j_iv", self.Node)
                axs = [fa([A, x], z3.Implies(plainvar(x), z3.And(
                           self.is_cf(self.at(A, x)) == z3.Exists([j], z3.And(z3.Select(A, j), self.is_intervention(j))),
                           z3.Not(self.is_intervention(self.at(A, x))), b(self.at(A, x)) == b(x)))),
                       fa([A, x, i], z3.Implies(plainvar(x), ivs(self.at(A, x), i) == z3.And(z3.Select(A, i), self.is_intervention(i)))),
                       fa([A, x, y], z3.Implies(z3.And(plainvar(x), plainvar(y), self.at(A, x) == self.at(A, y)), x == y)),
                       fa([x], z3.And(self.is_intervention(self.iv_plus(x)), self.is_intervention(self.iv_minus(x)),
                                      b(self.iv_plus(x)) == b(x), b(self.iv_minus(x)) == b(x), self.iv_plus(x) != self.iv_minus(x)))]
            self.add_axioms(set(), axs)
        return self.at

    def var_algebra(self):
        """Axioms of the Variable algebra (data invariants of y0.dsl.Variable / Intervention / CounterfactualVariable)."""
        if not self._var_axioms_added:
            self._var_axioms_added = True
            b, ivs, plain = self.base, self.ivs, self.plain
            self.add_axioms(set(), [
                self.forall(1, lambda x: self.And(self.Not(self.is_cf(b(x))), self.Not(self.is_intervention(b(x))), b(b(x)) == b(x))),
                self.forall(2, lambda x, i: self.Implies(ivs(x, i), self.And(self.is_cf(x), self.is_intervention(i)))),
                self.forall(1, lambda x: self.Implies(self.is_cf(x), self.exists(1, lambda i: ivs(x, i)))),
                self.forall(1, lambda x: self.Not(self.And(self.is_cf(x), self.is_intervention(x)))),
                self.forall(1, lambda x: self.And(self.Not(self.is_cf(plain(x))), b(plain(x)) == b(x))),
                self.forall(1, lambda x: self.Implies(self.is_intervention(x), self.is_intervention(plain(x)))),
                self.forall(1, lambda x: self.Implies(self.And(self.Not(self.is_cf(x)), self.Not(self.is_intervention(x))), self.Not(self.is_intervention(plain(x))))),
            ])
        return self.base, self.ivs, self.plain

    # ---------------------------------------------------------------- axioms with relevance
    def add_axioms(self, needs, formulas):
        needs = frozenset(needs)
        for f in formulas:
            self.axioms.append((needs, f))

    def relevant_axioms(self, formulas):
        """Axioms whose defined symbols occur (transitively) in `formulas`.  Dropping the others only weakens the
        hypotheses, so this is sound; it keeps each query small."""
        self.closure_lemmas()
        ground = self.E.ground() if getattr(self, "E", None) is not None else []
        formulas = list(formulas) + ground
        syms = set()
        for f in formulas:
            syms |= symbols_of(f)
        chosen, rest = [], list(self.axioms)
        changed = True
        while changed:
            changed = False
            keep = []
            for needs, f in rest:
                if needs <= syms:
                    chosen.append(f)
                    new = symbols_of(f) - syms
                    if new:
                        syms |= new
                    changed = True
                else:
                    keep.append((needs, f))
            rest = keep
        return chosen + ground

    # ---------------------------------------------------------------- fresh symbols
    def fresh_name(self, prefix: str) -> str:
        self._n += 1
        return f"{prefix}!{self._n}"

    def node(self, prefix: str = "x"):
        return z3.Const(self.fresh_name(prefix), self.Node)

    def named_node(self, name: str):
        return z3.Const(name, self.Node)

    def bool(self, prefix: str = "b"):
        return z3.Const(self.fresh_name(prefix), self.B)

    def int(self, prefix: str = "i"):
        return z3.Const(self.fresh_name(prefix), z3.IntSort())

    def pred(self, name: str, arity: int = 1, fresh: bool = True):
        nm = self.fresh_name(name) if fresh else name
        return z3.Function(nm, *([self.Node] * arity), self.B)

    # ---------------------------------------------------------------- connectives
    T = staticmethod(lambda: z3.BoolVal(True))
    F = staticmethod(lambda: z3.BoolVal(False))

    @staticmethod
    def And(*xs):
        xs = [x for x in xs if not z3.is_true(x)]
        if any(z3.is_false(x) for x in xs):
            return z3.BoolVal(False)
        if not xs:
            return z3.BoolVal(True)
        return xs[0] if len(xs) == 1 else z3.And(*xs)

    @staticmethod
    def Or(*xs):
        xs = [x for x in xs if not z3.is_false(x)]
        if any(z3.is_true(x) for x in xs):
            return z3.BoolVal(True)
        if not xs:
            return z3.BoolVal(False)
        return xs[0] if len(xs) == 1 else z3.Or(*xs)

    @staticmethod
    def Not(x):
        if z3.is_true(x):
            return z3.BoolVal(False)
        if z3.is_false(x):
            return z3.BoolVal(True)
        return z3.Not(x)

    @staticmethod
    def Implies(a, b):
        if z3.is_true(a):
            return b
        if z3.is_false(a) or z3.is_true(b):
            return z3.BoolVal(True)
        return z3.Implies(a, b)

    # ---------------------------------------------------------------- quantifiers
    def _q(self, consts, body, universal: bool):
        consts = list(consts)
        if not consts or z3.is_true(body) or z3.is_false(body):
            return body
        if self.k is None:
            return z3.ForAll(consts, body) if universal else z3.Exists(consts, body)
        parts = []
        for combo in itertools.product(self.universe, repeat=len(consts)):
            parts.append(z3.substitute(body, *zip(consts, combo)))
        return self.And(*parts) if universal else self.Or(*parts)

    def forall_c(self, consts, body):
        """Universal closure over the given (fresh) constants."""
        return self._q(consts, body, True)

    def exists_c(self, consts, body):
        return self._q(consts, body, False)

    def forall(self, n: int, fn):
        xs = [self.node("q") for _ in range(n)]
        return self.forall_c(xs, fn(*xs))

    def exists(self, n: int, fn):
        xs = [self.node("e") for _ in range(n)]
        return self.exists_c(xs, fn(*xs))

    # ---------------------------------------------------------------- set / relation helpers
    def eq_set(self, a, b):
        """a, b: callables Node -> Bool."""
        return self.forall(1, lambda x: a(x) == b(x))

    def subset(self, a, b):
        return self.forall(1, lambda x: self.Implies(a(x), b(x)))

    def eq_rel(self, a, b):
        return self.forall(2, lambda x, y: a(x, y) == b(x, y))

    def empty(self, a):
        return self.forall(1, lambda x: self.Not(a(x)))

    def nonempty(self, a):
        return self.exists(1, lambda x: a(x))

    # ---------------------------------------------------------------- variable order
    def var_order(self):
        """The total order of Variable objects (by printed name).  Axioms added on first use."""
        if not self._vlt_axioms_added:
            self._vlt_axioms_added = True
            lt = self.vlt
            self.add_axioms({"var_lt"}, [
                self.forall(1, lambda a: self.Not(lt(a, a))),
                self.forall(3, lambda a, b, c: self.Implies(self.And(lt(a, b), lt(b, c)), lt(a, c))),
                self.forall(2, lambda a, b: self.Or(a == b, lt(a, b), lt(b, a))),
            ])
        return self.vlt

    def strict_total_order_on(self, mem, name="before"):
        """A fresh strict total order on the members of `mem` (relates only members)."""
        lt = self.pred(name, 2)
        self.add_axioms({lt.name()}, [
            self.forall(2, lambda a, b: self.Implies(lt(a, b), self.And(mem(a), mem(b)))),
            self.forall(1, lambda a: self.Not(lt(a, a))),
            self.forall(3, lambda a, b, c: self.Implies(self.And(lt(a, b), lt(b, c)), lt(a, c))),
            self.forall(2, lambda a, b: self.Implies(self.And(mem(a), mem(b)), self.Or(a == b, lt(a, b), lt(b, a)))),
        ])
        return lambda a, b: lt(a, b)

    # ---------------------------------------------------------------- closures
    def rtc(self, R, name="rtc", params=()):
        """Reflexive-transitive closure of the binary relation R (callable).

        unbounded mode: fresh predicate with axioms
          refl   : rtc(a,a)                                  [ReflTransGen.refl]
          step   : R(a,b) -> rtc(a,b)                        [ReflTransGen.single]
          trans  : rtc(a,b) & rtc(b,c) -> rtc(a,c)           [ReflTransGen.trans]
          cases_h: rtc(a,b) -> a=b | exists c. R(a,c) & rtc(c,b)   [ReflTransGen.cases_head]
          cases_t: rtc(a,b) -> a=b | exists c. rtc(a,c) & R(c,b)   [ReflTransGen.cases_tail]
          lift   : for every other closure rtc' of R':  (R <= rtc') -> (rtc <= rtc')   [y0_rtc_lift]
        finite mode: the same plus the rank axiom which makes rtc exactly reachability.
        """
        nm = self.fresh_name(name)
        params = list(params)
        if params:
            # the relation depends on enclosing iteration constants: the closure symbol takes them as extra arguments and its
            # axioms are closed over them
            F = z3.Function(nm, *([p.sort() for p in params] + [self.Node, self.Node]), self.B)
            C = lambda a, b: F(*params, a, b)
            if not hasattr(self, "param_closures"):
                self.param_closures = []
            self.param_closures.append((nm, F, params, R))
        else:
            C = z3.Function(nm, self.Node, self.Node, self.B)
        ax = [
            self.forall(1, lambda a: C(a, a)),
            self.forall(2, lambda a, b: self.Implies(R(a, b), C(a, b))),
            self.forall(3, lambda a, b, c: self.Implies(self.And(C(a, b), C(b, c)), C(a, c))),
        ]
        if self.k is None:
            ax.append(self.forall(2, lambda a, b: self.Implies(
                C(a, b), self.Or(a == b, self.exists(1, lambda c: self.And(R(a, c), C(c, b)))))))
            ax.append(self.forall(2, lambda a, b: self.Implies(
                C(a, b), self.Or(a == b, self.exists(1, lambda c: self.And(C(a, c), R(c, b)))))))
            # the closure of a symmetric relation is symmetric   [y0_rtc_symm = ReflTransGen.symmetric]
            ax.append(self.Implies(self.forall(2, lambda a, b: self.Implies(R(a, b), R(b, a))),
                                   self.forall(2, lambda a, b: self.Implies(C(a, b), C(b, a)))))
            if "y0_rtc_symm" not in self.lemma_uses:
                self.lemma_uses.append("y0_rtc_symm")
        else:
            d0 = z3.Function(nm + "_rank", *([p.sort() for p in params] + [self.Node, self.Node]), z3.IntSort())
            d = lambda a, b: d0(*params, a, b)
            ax.append(self.forall(2, lambda a, b: d(a, b) >= 0))
            ax.append(self.forall(2, lambda a, b: self.Implies(
                self.And(C(a, b), a != b),
                self.exists(1, lambda c: self.And(R(a, c), C(c, b), d(c, b) < d(a, b))))))
        if params:
            ax = [self.forall_c(params, a) for a in ax]
        self.add_axioms({nm}, ax)
        fn = lambda a, b: C(a, b)
        self.closures.append((nm, R, fn))
        return fn

    def closure_lemmas(self):
        """Pairwise instances of y0_rtc_lift (simulation): R_i <= rtc_j  ->  rtc_i <= rtc_j.

        Called once before obligations are emitted; only needed in unbounded mode (finite mode is exact).
        """
        if self.k is not None:
            return []
        out = []
        for (ni, Ri, Ci), (nj, Rj, Cj) in itertools.permutations(self.closures, 2):
            if (ni, nj) in self._closure_pairs_done:
                continue
            self._closure_pairs_done.add((ni, nj))
            f = self.Implies(
                self.forall(2, lambda a, b: self.Implies(Ri(a, b), Cj(a, b))),
                self.forall(2, lambda a, b: self.Implies(Ci(a, b), Cj(a, b))))
            out.append(f)
            self.add_axioms({ni, nj}, [f])
        if out and "y0_rtc_lift" not in self.lemma_uses:
            self.lemma_uses.append("y0_rtc_lift")
        return out

    def rtc_induction(self, C_pair, P, name="y0_rtc_induct"):
        """Instance of head induction for closure C of R at predicate P(a):
        (forall a b. R(a,b) & P(b) -> P(a)) -> (forall a b. C(a,b) & P(b) -> P(a)).
        C_pair = (R, C)."""
        R, C = C_pair
        inst = self.Implies(
            self.forall(2, lambda a, b: self.Implies(self.And(R(a, b), P(b)), P(a))),
            self.forall(2, lambda a, b: self.Implies(self.And(C(a, b), P(b)), P(a))))
        if self.k is None:
            self.add_axioms(set(), [inst])
            if name not in self.lemma_uses:
                self.lemma_uses.append(name)
        return inst

    def rtc_induction_fwd(self, C_pair, P, name="y0_rtc_induct_fwd"):
        """(forall a b. R(a,b) & P(a) -> P(b)) -> (forall a b. C(a,b) & P(a) -> P(b))."""
        R, C = C_pair
        inst = self.Implies(
            self.forall(2, lambda a, b: self.Implies(self.And(R(a, b), P(a)), P(b))),
            self.forall(2, lambda a, b: self.Implies(self.And(C(a, b), P(a)), P(b))))
        if self.k is None:
            self.add_axioms(set(), [inst])
            if name not in self.lemma_uses:
                self.lemma_uses.append(name)
        return inst


def split_cases(L: "Logic", f, depth=3, cap=48):
    """Case analysis of a *hypothesis*: a list of conjunctions (lists of formulas) whose disjunction is equivalent to f.
    Distributes And over Or, skolemises existentials (fresh constants), and unfolds defined predicates `depth` levels."""
    def go(t, d):
        if z3.is_quantifier(t) and t.is_exists():
            n = t.num_vars()
            fresh = [z3.Const(L.fresh_name("sk"), t.var_sort(i)) for i in range(n)]
            body = z3.substitute_vars(t.body(), *reversed(fresh))
            return go(body, d)
        if z3.is_and(t):
            out = [[]]
            for c in t.children():
                cs = go(c, d)
                if len(out) * len(cs) > cap:
                    cs = [[c]]          # too many combinations: keep this conjunct unsplit
                out = [a + b for a in out for b in cs]
            return out
        if z3.is_or(t):
            out = []
            for c in t.children():
                out += go(c, d)
            return out if len(out) <= cap else [[t]]
        if z3.is_app(t) and t.decl().kind() == z3.Z3_OP_UNINTERPRETED and d > 0 and t.decl().name() in L.defs:
            params, body = L.defs[t.decl().name()]
            return go(z3.substitute(body, *zip(params, t.children())), d - 1)
        return [[t]]
    return go(z3.simplify(f) if False else f, depth)
