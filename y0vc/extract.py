"""Mechanical extraction of the functions under contract from /repo's current working tree.

Nothing is copied by hand: every run parses the files with `ast`, indexes functions, classes, module
constants and imports, and records `sha256(ast.unparse(func))` for each function that is executed
symbolically.  What the extraction drops is listed in DROPPED and echoed into every evidence file.
"""
from __future__ import annotations

import ast
import hashlib
import os
import pathlib

REPO = pathlib.Path(os.environ.get("Y0_REPO", "/repo"))
SRC = REPO / "src"

DROPPED = [
    "docstrings, comments, type annotations (annotations are not executed)",
    "logger.*(...) and warnings.warn(...) statements, including evaluation of their arguments (assumed total and pure)",
    "typing.cast(T, e) is read as e; tqdm(it, ...) is read as it",
    "decorators are interpreted (dataclass field lists, classmethod/staticmethod/property binding), not executed",
]


class FuncInfo:
    def __init__(self, module, qualname, node, cls=None):
        self.module = module
        self.qualname = qualname          # e.g. y0.graph.NxMixedGraph.subgraph
        self.node = node
        self.cls = cls
        decos = [ast.unparse(d) for d in node.decorator_list]
        self.is_classmethod = "classmethod" in decos
        self.is_staticmethod = "staticmethod" in decos
        self.is_property = "property" in decos or any(d.endswith("cached_property") for d in decos)
        # decorators Python *executes* and the extraction does not interpret (memoisation, wrappers, ...): a function carrying one is
        # outside the subset -- dropping e.g. @lru_cache silently would verify a body that is not what runs on the second call
        known = ("classmethod", "staticmethod", "property", "abstractmethod", "abc.abstractmethod", "overload", "typing.overload",
                 "override", "typing.override", "final", "typing.final")
        self.unmodelled_decorators = [d for d in decos if d not in known and not d.endswith(".setter")
                                      and not d.split("(")[0].endswith("dataclass")]
        a = node.args
        self.params = [x.arg for x in a.posonlyargs + a.args]
        self.kwonly = [x.arg for x in a.kwonlyargs]
        self.vararg = a.vararg.arg if a.vararg else None
        self.kwarg = a.kwarg.arg if a.kwarg else None
        nd = len(a.defaults)
        self.defaults = dict(zip(self.params[len(self.params) - nd:], a.defaults)) if nd else {}
        for k, d in zip(a.kwonlyargs, a.kw_defaults):
            if d is not None:
                self.defaults[k.arg] = d
        self.is_generator = any(isinstance(n, (ast.Yield, ast.YieldFrom)) for n in ast.walk(node))

    @property
    def sha(self):
        return hashlib.sha256(ast.unparse(self.node).encode()).hexdigest()[:16]


class ClassInfo:
    def __init__(self, module, name, node):
        self.module = module
        self.name = name
        self.qualname = f"{module.name}.{name}"
        self.node = node
        self.bases = [ast.unparse(b) for b in node.bases]
        self.methods: dict[str, FuncInfo] = {}
        self.fields: list[tuple[str, ast.expr | None]] = []   # dataclass fields in order (own only)
        self.is_dataclass = any("dataclass" in ast.unparse(d) for d in node.decorator_list)
        self.frozen = any("frozen=True" in ast.unparse(d) for d in node.decorator_list)
        self.class_consts: dict[str, ast.expr] = {}
        for st in node.body:
            if isinstance(st, (ast.FunctionDef,)):
                self.methods[st.name] = FuncInfo(module, f"{self.qualname}.{st.name}", st, cls=self)
            elif isinstance(st, ast.AnnAssign) and isinstance(st.target, ast.Name):
                self.fields.append((st.target.id, st.value))
            elif isinstance(st, ast.Assign) and len(st.targets) == 1 and isinstance(st.targets[0], ast.Name):
                self.class_consts[st.targets[0].id] = st.value


class ModuleInfo:
    def __init__(self, name, path):
        self.name = name
        self.path = path
        self.tree = ast.parse(path.read_text())
        self.funcs: dict[str, FuncInfo] = {}
        self.classes: dict[str, ClassInfo] = {}
        self.consts: dict[str, ast.expr] = {}
        self.imports: dict[str, str] = {}      # local name -> qualified target
        pkg = name if path.name == "__init__.py" else name.rsplit(".", 1)[0]
        for st in self.tree.body:
            self._index(st, pkg)

    def _index(self, st, pkg):
        if isinstance(st, ast.FunctionDef):
            self.funcs[st.name] = FuncInfo(self, f"{self.name}.{st.name}", st)
        elif isinstance(st, ast.ClassDef):
            self.classes[st.name] = ClassInfo(self, st.name, st)
        elif isinstance(st, ast.Assign) and len(st.targets) == 1 and isinstance(st.targets[0], ast.Name):
            self.consts[st.targets[0].id] = st.value
        elif isinstance(st, ast.AnnAssign) and isinstance(st.target, ast.Name) and st.value is not None:
            self.consts[st.target.id] = st.value
        elif isinstance(st, ast.Import):
            for a in st.names:
                self.imports[a.asname or a.name.split(".")[0]] = a.name if a.asname else a.name.split(".")[0]
        elif isinstance(st, ast.ImportFrom):
            if st.level:
                parts = pkg.split(".")
                base = ".".join(parts[: len(parts) - (st.level - 1)])
                mod = f"{base}.{st.module}" if st.module else base
            else:
                mod = st.module
            for a in st.names:
                self.imports[a.asname or a.name] = f"{mod}.{a.name}"
        elif isinstance(st, ast.If):   # TYPE_CHECKING blocks etc.
            for s in st.body + st.orelse:
                self._index(s, pkg)


class Repo:
    def __init__(self, src: pathlib.Path = SRC):
        self.src = src
        self.modules: dict[str, ModuleInfo] = {}
        for p in sorted((src / "y0").rglob("*.py")):
            rel = p.relative_to(src).with_suffix("")
            parts = list(rel.parts)
            if parts[-1] == "__init__":
                parts = parts[:-1]
            name = ".".join(parts)
            try:
                self.modules[name] = ModuleInfo(name, p)
            except SyntaxError as e:   # a syntactically broken tree is a checker error upstream
                raise RuntimeError(f"cannot parse {p}: {e}")

    # ---- lookup
    def resolve(self, qual: str, _depth=0):
        """Resolve a qualified name to FuncInfo | ClassInfo | ('const', module, expr) | ('module', name) | None,
        following re-exports."""
        if _depth > 8:
            return None
        if qual in self.modules:
            return ("module", qual)
        if "." not in qual:
            return None
        mod, _, attr = qual.rpartition(".")
        if mod in self.modules:
            m = self.modules[mod]
            if attr in m.funcs:
                return m.funcs[attr]
            if attr in m.classes:
                return m.classes[attr]
            if attr in m.consts:
                return ("const", m, m.consts[attr])
            if attr in m.imports:
                return self.resolve(m.imports[attr], _depth + 1)
            return None
        # Class.method
        owner = self.resolve(mod, _depth + 1)
        if isinstance(owner, ClassInfo):
            return self.find_method(owner, attr)
        return None

    def func(self, qual: str) -> FuncInfo:
        r = self.resolve(qual)
        if not isinstance(r, FuncInfo):
            raise KeyError(f"function not found in working tree: {qual}")
        return r

    def class_of(self, module: ModuleInfo, base_expr: str):
        """Resolve a base-class expression as written in `module`."""
        name = base_expr.split("[")[0]
        if name in module.classes:
            return module.classes[name]
        if name in module.imports:
            r = self.resolve(module.imports[name])
            if isinstance(r, ClassInfo):
                return r
        return None

    def mro(self, cls: ClassInfo) -> list[ClassInfo]:
        out, seen, todo = [], set(), [cls]
        while todo:
            c = todo.pop(0)
            if c.qualname in seen:
                continue
            seen.add(c.qualname)
            out.append(c)
            for b in c.bases:
                bc = self.class_of(c.module, b)
                if bc is not None:
                    todo.append(bc)
        return out

    def find_method(self, cls: ClassInfo, name: str):
        for c in self.mro(cls):
            if name in c.methods:
                return c.methods[name]
        return None

    def is_subclass(self, cls: ClassInfo, other_qual: str) -> bool:
        return any(c.qualname == other_qual for c in self.mro(cls))

    def all_fields(self, cls: ClassInfo):
        """Dataclass fields in definition order, base classes first."""
        out: list[tuple[str, ast.expr | None]] = []
        for c in reversed(self.mro(cls)):
            if c.is_dataclass:
                for f, d in c.fields:
                    out = [(n, dd) for n, dd in out if n != f] + [(f, d)]
        return out

    def subclasses(self, qual: str) -> list[ClassInfo]:
        out = []
        for m in self.modules.values():
            for c in m.classes.values():
                if self.is_subclass(c, qual):
                    out.append(c)
        return out
