"""Command line of the checks registered in MANIFEST.json."""
from __future__ import annotations

import argparse
import importlib
import json
import os
import sys


def main():
    ap = argparse.ArgumentParser()
    ap.add_argument("pid")
    ap.add_argument("--tier", default=os.environ.get("VERIF_TIER", "quick"), choices=["quick", "thorough"])
    ap.add_argument("--replay")
    ap.add_argument("--freeze-baseline", action="store_true",
                    help="developer: record the obligations discharged by this run in baseline/obligations.json")
    ap.add_argument("--freeze-add", action="store_true",
                    help="developer: add the obligations discharged by this (ordinary) run to baseline/obligations.json, keeping the rest")
    a = ap.parse_args()
    seed = int(os.environ.get("VERIF_SEED", "0") or 0)
    os.environ["Y0VC_TIER"] = a.tier
    if a.freeze_baseline:
        os.environ["Y0VC_IGNORE_HARD"] = "1"
    from . import pipeline
    if a.replay:
        return replay(a.pid, a.replay)
    extra = None
    try:
        mod = importlib.import_module(f"props.{a.pid}")
        extra = getattr(mod, "extra", None)
    except ModuleNotFoundError:
        pass
    rc = pipeline.run(a.pid, a.tier, seed, extra=extra)
    if a.freeze_baseline:
        ev = json.load(open(pipeline.EVID / f"{a.pid}.json"))
        base = pipeline.load_baseline()
        base[a.pid] = sorted(o["id"] for o in ev["coverage"]["obligation_table"] if o["status"] == "discharged")
        base[a.pid + ".undecided"] = sorted(o["id"] for o in ev["coverage"]["obligation_table"]
                                            if o["status"] == "undecided" and not o["id"].endswith("/*"))
        pipeline.BASELINE.parent.mkdir(exist_ok=True)
        pipeline.BASELINE.write_text(json.dumps(base, indent=1))
        print(f"baseline for {a.pid}: {len(base[a.pid])} obligations")
    if a.freeze_add and rc == 0:
        ev = json.load(open(pipeline.EVID / f"{a.pid}.json"))
        base = pipeline.load_baseline()
        new = {o["id"] for o in ev["coverage"]["obligation_table"] if o["status"] == "discharged"}
        old = set(base.get(a.pid, []))
        base[a.pid] = sorted(old | new)
        pipeline.BASELINE.write_text(json.dumps(base, indent=1))
        print(f"baseline for {a.pid}: {len(old)} -> {len(base[a.pid])} obligations")
    return rc


def replay(pid, path):
    """Re-run the input of a replay file against the current tree; exit 1 if the contract clause is still false."""
    from . import pipeline, concrete
    from .extract import Repo
    payload = json.load(open(path))
    registry = pipeline.load_contracts()
    repo = Repo()
    case = payload.get("case") or (payload.get("replay") if isinstance(payload.get("replay"), dict) and "pickle" in payload.get("replay", {}) else None)
    if case and "pickle" in case:
        import base64, pickle, random
        from . import exproracle as xo
        concrete.y0mod("y0.dsl")
        con = registry[case["function"]]
        args = pickle.loads(base64.b64decode(case["pickle"]))
        xo.NAMES[:] = case.get("names") or ["A", "B", "C"]
        try:
            out = ("return", con.call_real(args))
        except Exception as e:
            out = ("raise", type(e).__name__, str(e))
        models = [xo.Model(xo.NAMES, s) for s in (1, 2, 3)]
        why = con.judge(args, out, models)
        print(json.dumps({"args": {k: str(v) for k, v in args.items()}, "outcome": [out[0], str(out[1])], "now": why}, indent=1))
        if why and why != "pre":
            print(f"VIOLATION property={pid} replay={path}")
            return 1
        return 0
    if isinstance(payload.get("replay"), dict) and "history" in payload["replay"]:
        con = registry[payload["function"]]
        h = payload["replay"]["history"]
        vi = h["variant_index"]
        import random
        r = pipeline.history_probe(repo, con, vi, con.variants()[vi], _fix(h["model"]), registry, random.Random(0), edge=h["edge_added_in_place"])
        print(json.dumps(r, indent=1, default=str))
        if r:
            print(f"VIOLATION property={pid} replay={path}")
            return 1
        print("replay: the second call on the mutated object agrees with a call on a fresh graph now")
        return 0
    if "replay" in payload and "model" in payload["replay"]:
        con = registry[payload["function"]]
        r = payload["replay"]
        variants = con.variants()
        vi = next(i for i, v in enumerate(variants)
                  if {p: (k if isinstance(k, str) else "const") for p, k in v.items()} == r["variant"])
        rep = pipeline.replay_model(repo, con, vi, _fix(r["model"]), registry)
        print(json.dumps({"inputs": rep["inputs"], "outcome": rep["outcome"], "contract": rep["contract"]}, indent=1, default=str))
        if str(payload.get("obligation", "")).endswith(("/frame", "/bounded.frame")) or "frame_probe" in payload or "frame_probe" in r:
            m = _fix(r["model"])
            world = concrete.World(m["k"], m.get("order"), m.get("interventions", ()))
            why = concrete.frame_probe(con.qual, world, variants[vi], {p_: m[p_] for p_ in variants[vi] if p_ in m})
            print(json.dumps({"frame_probe": why}))
            if why:
                print(f"VIOLATION property={pid} replay={path}")
                return 1
        ev = rep["contract"]
        bad = (not ev["pre"]) is False and (any(v is False for v in ev["clauses"].values()) or ev["raise_allowed"] is False
                                            or any(v is False for v in ev["must_raise"].values()))
        if bad:
            print(f"VIOLATION property={pid} replay={path}")
            return 1
        print("replay: contract holds on this input now")
        return 0
    try:
        mod = importlib.import_module(f"props.{pid}")
        if hasattr(mod, "replay"):
            return mod.replay(payload, path)
    except ModuleNotFoundError:
        pass
    print("replay file carries no concrete input (no-failing-input-found); obligation:", payload.get("obligation"))
    return 0


def _fix(model):
    """JSON turns tuples into lists; restore the pair lists."""
    def fx(v):
        if isinstance(v, dict):
            return {k: fx(x) for k, x in v.items()}
        if isinstance(v, list):
            return [tuple(x) if isinstance(x, list) and len(x) == 2 and all(isinstance(y, int) for y in x) else fx(x) for x in v]
        return v
    return fx(model)


if __name__ == "__main__":
    sys.exit(main())
