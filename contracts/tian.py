"""Contracts for y0/algorithm/tian_id.py (C17): the marginalisation steps (Tian & Pearl Lemma 3 and the partial sums of
Lemma 4) are proved to sum over exactly the published variable sets; the recursion of IDENTIFY is left to the bounded stand-in."""
from __future__ import annotations

import z3

import contracts.dsl_bounded  # noqa: F401
from y0vc.contract import Contract, contract
from y0vc.exprs import VExpr, theory
from y0vc.values import VNone, VSeq, VSet

TI = "y0.algorithm.tian_id"


def _seq(v):
    if isinstance(v, VSet) and getattr(v, "seq_view", None) is not None:
        return v.seq_view
    return v


@contract(f"{TI}.compute_ancestral_set_q_value", props=["C17"])
class _(Contract):
    """Lemma 3: Q[A] = sum over (T - A) of Q[T] (the variables of T - A that occur in the topological order)."""
    domain = "graph+expr"
    params = {"ancestral_set": "nodeset", "subgraph_variables": "nodeset", "subgraph_probability": "expr", "graph_topo": "seq"}

    def pre(self, ex, a):
        L = ex.L
        return [("plain-variables", L.forall(1, lambda v: L.Implies(a.subgraph_variables.has(v), L.And(L.Not(L.is_intervention(v)), L.Not(L.is_cf(v))))))]

    def post(self, ex, a, res):
        T = theory(ex)
        L = ex.L
        if not isinstance(res, VExpr):
            return {"type": L.F()}
        topo = _seq(a.graph_topo)
        R = VSet(lambda v: L.And(topo.mem(v), a.subgraph_variables.has(v), L.Not(a.ancestral_set.has(v))))
        sv, oks = T.sumv(T.set_to_array(R), a.subgraph_probability.t)
        return {"ranges": z3.Implies(oks, z3.And(T.ok(res.t), T.den(res.t) == sv))}


@contract(f"{TI}.compute_q_value_of_variables_with_low_topological_ordering_indices", props=["C17"])
class _(Contract):
    """Lemma 4: Q[H^(i)] = sum over the variables after v_i in the order of Q[H]; One() for the empty prefix (vertex None)."""
    domain = "graph+expr"
    params = {"vertex": ("node", "none"), "graph_probability": "expr", "topo": "seq"}
    allowed_raises = ("KeyError",)

    def raises(self, ex, a):
        if isinstance(a.vertex, VNone):
            return {"KeyError": ex.L.F()}
        return {"KeyError": ex.L.Not(_seq(a.topo).mem(a.vertex.t))}

    def pre(self, ex, a):
        L = ex.L
        topo = _seq(a.topo)
        return [("plain-variables", L.forall(1, lambda v: L.Implies(topo.mem(v), L.And(L.Not(L.is_intervention(v)), L.Not(L.is_cf(v))))))]

    def post(self, ex, a, res):
        T = theory(ex)
        L = ex.L
        if not isinstance(res, VExpr):
            return {"type": L.F()}
        if isinstance(a.vertex, VNone):
            return {"one": T.cls(res.t) == T.CL["One"]}
        topo = _seq(a.topo)
        R = VSet(lambda v: L.And(topo.mem(v), topo.before(a.vertex.t, v)))
        sv, oks = T.sumv(T.set_to_array(R), a.graph_probability.t)
        return {"ranges": z3.Implies(oks, z3.And(T.ok(res.t), T.den(res.t) == sv))}


# ---- concrete interpretation (bounded stand-in when the body leaves the subset; CPython cross-check otherwise)
def _sum_judge(expr_key, ranges_fn):
    def judge(self, args, out, models):
        from contracts.dsl_bounded import _cmp, _sum_over
        if out[0] == "raise":
            return f"raised {out[1]}"
        names = ranges_fn(args)
        return _cmp(lambda m, env: _sum_over(args[expr_key], names, m, env), out[1], models)
    return judge


def _s_anc(self, pool, rng):
    from y0vc import exproracle as xo
    from y0vc.concrete import y0mod
    V = y0mod("y0.dsl").Variable
    q = pool.gen(rng.randint(1, 3))
    if not xo.well_scoped(q):
        return None
    T = [n for n in xo.NAMES if rng.random() < 0.8]
    A = [n for n in T if rng.random() < 0.5]
    topo = rng.sample(xo.NAMES, len(xo.NAMES))
    return {"ancestral_set": frozenset(V(n) for n in A), "subgraph_variables": frozenset(V(n) for n in T), "subgraph_probability": q,
            "graph_topo": [V(n) for n in topo]}


def _c_anc(self, args):
    from y0vc.concrete import y0mod
    return y0mod(TI).compute_ancestral_set_q_value(**args)


from y0vc.contract import REGISTRY  # noqa: E402
_c1 = type(REGISTRY[f"{TI}.compute_ancestral_set_q_value"])
_c1.sample_args, _c1.call_real = _s_anc, _c_anc
_c1.judge = _sum_judge("subgraph_probability", lambda a: sorted({v.name for v in a["subgraph_variables"]} - {v.name for v in a["ancestral_set"]}))


def _s_low(self, pool, rng):
    from y0vc import exproracle as xo
    from y0vc.concrete import y0mod
    V = y0mod("y0.dsl").Variable
    q = pool.gen(rng.randint(1, 3))
    if not xo.well_scoped(q):
        return None
    topo = rng.sample(xo.NAMES, len(xo.NAMES))
    return {"vertex": V(rng.choice(topo)), "graph_probability": q, "topo": [V(n) for n in topo]}


def _c_low(self, args):
    from y0vc.concrete import y0mod
    return y0mod(TI).compute_q_value_of_variables_with_low_topological_ordering_indices(**args)


_c2 = type(REGISTRY[f"{TI}.compute_q_value_of_variables_with_low_topological_ordering_indices"])
_c2.sample_args, _c2.call_real = _s_low, _c_low
_c2.judge = _sum_judge("graph_probability", lambda a: [v.name for v in a["topo"][a["topo"].index(a["vertex"]) + 1:]])
