"""Contracts for y0/algorithm/conditional_independencies.py (C04, C15; reused by C03).

The postcondition of `are_d_separated` is the sentence of property C04 in the form of the augmentation criterion
(Richardson 2003; for DAGs the moralisation criterion of Lauritzen et al. 1990): a and b are m-separated given C iff they
are disconnected in the augmented graph of the ancestral subgraph An({a,b} | C) after deleting C, where two nodes are
adjacent iff they are joined by a collider path.  That this equals d-separation in the canonical DAG (one latent parent
per bidirected edge) is the cited, trusted theorem; the contract decides that the *code* computes that relation.
"""
from __future__ import annotations

import z3

from y0vc.contract import Contract, as_nodes, contract
from y0vc.values import NONE, VBool, VNode, VNone, VObj, VSeq, VSet

CI = "y0.algorithm.conditional_independencies"


def msep_spec(ex, g, a, b, C):
    """(separated?, closure of the augmented graph).  a, b: z3 node terms; C: VSet."""
    L = ex.L
    named = lambda x: L.Or(x == a, x == b, C.has(x))
    rD = ex.closure(lambda p, q: g.D(p, q), "rtcD")
    A = ex.define(1, lambda x: L.exists(1, lambda s: L.And(named(s), rD(x, s))), "An") if L.k is None else (
        lambda x: L.exists(1, lambda s: L.And(named(s), rD(x, s))))
    rU = ex.closure(lambda p, q: L.And(g.U(p, q), A(p), A(q)), "rtcUA")
    touch = lambda u, c: L.Or(u == c, g.D(u, c))
    adj = lambda u, v: L.And(A(u), A(v), L.Not(C.has(u)), L.Not(C.has(v)),
                             L.exists(2, lambda c, d: L.And(A(c), A(d), touch(u, c), rU(c, d), touch(v, d))))
    H = ex.closure(adj, "rtcH")
    return L.Not(H(a, b)), H


@contract(f"{CI}.are_d_separated", props=["C04", "C15", "C03"])
class _(Contract):
    params = {"graph": "graph", "a": "node", "b": "node", "conditions": ("nodeset", "none")}
    allowed_raises = ("KeyError", "NodeNotFound")
    theory = "axiomatic (closure lemmas)"
    expensive = True

    def adapt(self, ex, env):
        a = super().adapt(ex, env)
        L = ex.L
        c = getattr(a, "conditions", None)
        a.C = VSet(lambda x: L.F()) if c is None or isinstance(c, VNone) else as_nodes(ex, c)
        return a

    def raises(self, ex, a):
        L, g = ex.L, a.graph
        missing = L.Or(L.Not(g.N(a.a.t)), L.Not(g.N(a.b.t)), L.exists(1, lambda c: L.And(a.C.has(c), L.Not(g.N(c)))))
        return {"KeyError": missing,
                # an endpoint that is also conditioned on is deleted before the path query (outside the property's quantifier)
                "NodeNotFound": L.And(L.Not(missing), L.Or(a.C.has(a.a.t), a.C.has(a.b.t)))}

    def post(self, ex, a, res):
        L, g = ex.L, a.graph
        if not (isinstance(res, VObj) and getattr(res.cls, "name", "") == "DSeparationJudgement"):
            return {"type": L.F()}
        sep, H = msep_spec(ex, g, a.a.t, a.b.t, a.C)
        lt = L.var_order()
        x, y = a.a.t, a.b.t
        lo = z3.If(L.Or(lt(x, y), x == y), x, y)
        hi = z3.If(L.Or(lt(x, y), x == y), y, x)
        f = res.fields
        got = f["separated"].t if isinstance(f.get("separated"), VBool) else None
        out = {"separated": (got == sep) if got is not None else L.F(),
               "left": f["left"].t == lo if isinstance(f.get("left"), VNode) else L.F(),
               "right": f["right"].t == hi if isinstance(f.get("right"), VNode) else L.F(),
               "symmetric": H(x, y) == H(y, x)}
        c = f.get("conditions")
        if isinstance(c, VSet) and getattr(c, "seq_view", None) is not None:
            c = c.seq_view
        if isinstance(c, VSeq):
            out["conditions.members"] = L.eq_set(c.mem, a.C.has)
            out["conditions.sorted"] = L.forall(2, lambda p, q: L.Implies(L.And(c.mem(p), c.mem(q)), c.before(p, q) == lt(p, q)))
        else:
            out["conditions.members"] = L.F()
        return out

    def result(self, ex, a):
        L, g = ex.L, a.graph
        sep, H = msep_spec(ex, g, a.a.t, a.b.t, a.C)
        lt = L.var_order()
        x, y = a.a.t, a.b.t
        lo = z3.If(L.Or(lt(x, y), x == y), x, y)
        hi = z3.If(L.Or(lt(x, y), x == y), y, x)
        cls = ex.repo.resolve("y0.struct.DSeparationJudgement")
        C = a.C
        return VObj(cls, {"separated": VBool(sep), "left": VNode(lo), "right": VNode(hi),
                          "conditions": VSeq(lambda p: C.has(p), lambda p, q: L.And(C.has(p), C.has(q), lt(p, q)))})


@contract("y0.struct.DSeparationJudgement.create", props=["C15", "C04"])
class _(Contract):
    """Canonical form: left <= right in the variable order, conditions without duplicates in increasing order."""
    params = {"cls": ("const", None), "left": "node", "right": "node", "conditions": ("nodeset", "none"), "separated": ("bool", "omit")}

    def make_inputs(self, L, variant):
        env, wf, probes = super().make_inputs(L, variant)
        env["cls"] = "CLS"
        return env, wf, probes

    def adapt(self, ex, env):
        from y0vc.values import VFunc
        if env.get("cls") == "CLS":
            env["cls"] = VFunc("class", ex.repo.resolve("y0.struct.DSeparationJudgement"))
        a = super().adapt(ex, env)
        L = ex.L
        c = getattr(a, "conditions", None)
        a.C = VSet(lambda x: L.F()) if c is None or isinstance(c, VNone) else as_nodes(ex, c)
        a.sep = a.separated.t if isinstance(getattr(a, "separated", None), VBool) else L.T()
        return a

    def _parts(self, ex, a):
        L = ex.L
        lt = L.var_order()
        x, y = a.left.t, a.right.t
        first = L.Or(lt(x, y), x == y)
        return lt, z3.If(first, x, y), z3.If(first, y, x)

    def post(self, ex, a, res):
        L = ex.L
        if not (isinstance(res, VObj) and getattr(res.cls, "name", "") == "DSeparationJudgement"):
            return {"type": L.F()}
        lt, lo, hi = self._parts(ex, a)
        f = res.fields
        out = {"separated": f["separated"].t == a.sep if isinstance(f.get("separated"), VBool) else L.F(),
               "left": f["left"].t == lo if isinstance(f.get("left"), VNode) else L.F(),
               "right": f["right"].t == hi if isinstance(f.get("right"), VNode) else L.F(),
               "canonical.ends": L.Not(lt(f["right"].t, f["left"].t)) if isinstance(f.get("left"), VNode) and isinstance(f.get("right"), VNode) else L.F()}
        c = f.get("conditions")
        if isinstance(c, VSet) and getattr(c, "seq_view", None) is not None:
            c = c.seq_view
        if isinstance(c, VSeq):
            out["conditions.members"] = L.eq_set(c.mem, a.C.has)
            out["canonical.conditions"] = L.forall(2, lambda p, q: L.Implies(L.And(c.mem(p), c.mem(q)), c.before(p, q) == lt(p, q)))
        else:
            out["conditions.members"] = L.F()
        return out

    def result(self, ex, a):
        L = ex.L
        lt, lo, hi = self._parts(ex, a)
        C = a.C
        return VObj(ex.repo.resolve("y0.struct.DSeparationJudgement"),
                    {"separated": VBool(a.sep), "left": VNode(lo), "right": VNode(hi),
                     "conditions": VSeq(lambda p: C.has(p), lambda p, q: L.And(C.has(p), C.has(q), lt(p, q)))})
