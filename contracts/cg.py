"""Contracts for y0/algorithm/identify/cg.py (C18): merging two parallel-world copies of a variable (Lemma 25)."""
from __future__ import annotations

import z3

from y0vc.contract import Contract, contract, mk_graph, same_value
from y0vc.values import VGraph, VNode, VTuple

CG = "y0.algorithm.identify.cg"


@contract(f"{CG}.merge_pw", props=["C18"])
class _(Contract):
    """(graph', kept, eliminated): the factual node is preferred (else the variable sort order decides); every edge not touching
    the eliminated node survives; the eliminated node's children become children of the kept node; its bidirected neighbours
    become neighbours of the kept node; the eliminated node disappears."""
    params = {"graph": "graph", "node1": "node", "node2": "node"}

    def pre(self, ex, a):
        L, g = ex.L, a.graph
        return [("distinct", a.node1.t != a.node2.t), ("nodes", L.And(g.N(a.node1.t), g.N(a.node2.t))),
                ("no-bidirected-self-loops", L.forall(1, lambda x: L.Not(g.U(x, x)))),
                # the two nodes are copies of one variable in different worlds: never joined by a directed edge; the graph is acyclic
                ("not-adjacent", L.And(L.Not(g.D(a.node1.t, a.node2.t)), L.Not(g.D(a.node2.t, a.node1.t)))),
                ("no-directed-self-loops", L.forall(1, lambda x: L.Not(g.D(x, x))))]

    def post(self, ex, a, res):
        L, g = ex.L, a.graph
        if not (isinstance(res, VTuple) and len(res.items) == 3 and isinstance(res.items[0], VGraph)
                and isinstance(res.items[1], VNode) and isinstance(res.items[2], VNode)):
            return {"type": L.F()}
        r, kept, elim = res.items[0], res.items[1].t, res.items[2].t
        n1, n2 = a.node1.t, a.node2.t
        cf1, cf2 = L.is_cf(n1), L.is_cf(n2)
        out = {
            "pair": L.Or(L.And(kept == n1, elim == n2), L.And(kept == n2, elim == n1)),
            "prefers-factual": L.And(L.Implies(L.And(cf1, L.Not(cf2)), kept == n2), L.Implies(L.And(L.Not(cf1), cf2), kept == n1)),
        }
        D = lambda p, q: L.Or(L.And(g.D(p, q), p != elim, q != elim), L.And(p == kept, g.D(elim, q), q != elim))
        # note: an edge elim -> kept would become a self-loop kept -> kept; the eliminated node's own in-edges are dropped
        U = lambda p, q: L.Or(L.And(g.U(p, q), p != elim, q != elim), L.And(p == kept, g.U(elim, q), q != kept, q != elim),
                              L.And(q == kept, g.U(elim, p), p != kept, p != elim))
        spec = mk_graph(lambda x: L.F(), D, U)
        cl = same_value(L, r, spec, "graph.")
        out["directed"] = cl["graph.di"]
        out["bidirected"] = cl["graph.bi"]
        out["eliminated-gone"] = L.Not(r.N(elim))
        out["kept-present"] = r.N(kept)
        # Lemma 25 removes only the eliminated copy: every other node stays
        out["other-nodes-kept"] = L.forall(1, lambda x: L.Implies(L.And(g.N(x), x != elim), r.N(x)))
        # residual of the known finding on `other-nodes-kept`: only parents of the eliminated copy that are not parents of the
        # kept copy can disappear, and only when no surviving edge mentions them
        dropped = lambda x: L.And(g.D(x, elim), L.Not(g.D(x, kept)))
        out["other-nodes-kept-except-dropped-parents"] = L.forall(1, lambda x: L.Implies(L.And(g.N(x), x != elim, L.Not(dropped(x))), r.N(x)))
        out["no-new-nodes"] = L.forall(1, lambda x: L.Implies(r.N(x), g.N(x)))
        return out


# ------------------------------------------------------------------------------------------------ Lemma 24 tests (structural parts)
def _nsi(L, v):
    """v is not intervened on itself: not counterfactual, or neither +base(v) nor -base(v) among its subscripts"""
    b, ivs, _ = L.var_algebra()
    L.intervene_axioms()
    return L.Or(L.Not(L.is_cf(v)), L.And(L.Not(ivs(v, L.iv_plus(b(v)))), L.Not(ivs(v, L.iv_minus(b(v))))))


@contract(f"{CG}.is_not_self_intervened", props=["C18"])
class _(Contract):
    params = {"node": "node"}

    def spec(self, ex, a):
        from y0vc.values import VBool
        return VBool(_nsi(ex.L, a.node.t))


@contract(f"{CG}.has_same_function", props=["C18"])
class _(Contract):
    """Same structural function: copies of one variable that are both, or neither, fixed by their own world's intervention."""
    params = {"node1": "node", "node2": "node"}

    def spec(self, ex, a):
        from y0vc.values import VBool
        L = ex.L
        b, _, _ = L.var_algebra()
        return VBool(L.And(b(a.node1.t) == b(a.node2.t), _nsi(L, a.node1.t) == _nsi(L, a.node2.t)))


@contract(f"{CG}.has_same_confounders", props=["C18"])
class _(Contract):
    """The two nodes are joined by a bidirected edge, or neither has any bidirected edge."""
    params = {"graph": "graph", "a": "node", "b": "node"}
    allowed_raises = ("NetworkXError", "KeyError")
    raises_exact = False

    def raises(self, ex, a):
        L, g = ex.L, a.graph
        bad = L.Or(L.Not(g.N(a.a.t)), L.Not(g.N(a.b.t)))
        return {"NetworkXError": bad, "KeyError": bad}

    def spec(self, ex, a):
        from y0vc.values import VBool
        L, g = ex.L, a.graph
        x, y = a.a.t, a.b.t
        return VBool(L.Or(g.U(x, y), L.And(L.Not(L.exists(1, lambda w: g.U(x, w))), L.Not(L.exists(1, lambda w: g.U(y, w))))))
