"""Contracts for y0/algorithm/identify/id_std.py and utils.py (C02, C01, C06).

Shape layer (DESIGN §2.5): each line of the ID algorithm is checked, in the exact theory of sets and relations, to build
exactly the recursive arguments / ranges of the published line (Shpitser & Pearl 2006, Fig. 3).  Expressions are opaque
terms with a denotation; the products over a district are not interpreted here."""
from __future__ import annotations

import z3

import contracts.dsl_bounded  # noqa: F401
import contracts.graph  # noqa: F401
from y0vc.contract import BUILDERS, REGISTRY, Contract, Probe, contract, mk_graph, sym_graph, sym_nodeset
from y0vc.exprs import VExpr, theory
from y0vc.values import NONE, VBool, VGraph, VNone, VObj, VSeq, VSet

IDS = "y0.algorithm.identify.id_std"
UT = "y0.algorithm.identify.utils"


def sym_identification(L, name):
    """An Identification record: query (outcomes, treatments, conditions), graph, estimand."""
    from y0vc.contract import _REPO, sym_expr
    g, wf, pg = sym_graph(L, f"{name}.graph")
    Y, _, py = sym_nodeset(L, f"{name}.outcomes")
    X, _, px = sym_nodeset(L, f"{name}.treatments")
    C, _, pc = sym_nodeset(L, f"{name}.conditions")
    e, _, pe = sym_expr(L, f"{name}.estimand")
    q = VObj(_REPO[0].resolve(f"{UT}.Query"), {"outcomes": Y, "treatments": X, "conditions": C}, owned=False)
    obj = VObj(_REPO[0].resolve(f"{UT}.Identification"), {"query": q, "graph": g, "estimand": e}, owned=False)
    pr = Probe(name, "identification", (pg, py, px, pc))
    return obj, wf, pr


BUILDERS["identification"] = sym_identification


def parts(a_ident):
    q = a_ident.fields["query"]
    return a_ident.fields["graph"], q.fields["outcomes"], q.fields["treatments"], a_ident.fields["estimand"]


def wf_query(ex, g, Y, X, C=None):
    """valid ID query: X, Y inside the graph and disjoint, Y non-empty, no Intervention objects"""
    L = ex.L
    return [("outcomes-in-graph", L.forall(1, lambda v: L.Implies(Y.has(v), g.N(v)))),
            ("treatments-in-graph", L.forall(1, lambda v: L.Implies(X.has(v), g.N(v)))),
            ("disjoint", L.forall(1, lambda v: L.Not(L.And(X.has(v), Y.has(v))))),
            ("outcomes-nonempty", L.exists(1, lambda v: Y.has(v))),
            # nodes of an ID query are plain variables: a counterfactual variable cannot be summed over (Sum.__post_init__: TypeError)
            ("plain-nodes", L.forall(1, lambda v: L.Implies(g.N(v), L.Not(L.is_cf(v)))))] + (
        [("conditions-in-graph", L.forall(1, lambda v: L.Implies(C.has(v), g.N(v))))] if C is not None else [])


def ident_clauses(ex, res, *, outcomes=None, treatments=None, graph=None, conditions=None, prefix=""):
    """clauses comparing the fields of a returned Identification with the specified sets / graph"""
    from y0vc.contract import same_value
    L = ex.L
    if not (isinstance(res, VObj) and getattr(res.cls, "name", "") == "Identification"):
        return {prefix + "type": L.F()}
    q = res.fields.get("query")
    out = {}
    if outcomes is not None:
        out.update(same_value(L, q.fields["outcomes"], outcomes, prefix + "outcomes."))
    if treatments is not None:
        out.update(same_value(L, q.fields["treatments"], treatments, prefix + "treatments."))
    if graph is not None:
        out.update(same_value(L, res.fields["graph"], graph, prefix + "graph."))
    if conditions is not None:
        out.update(same_value(L, q.fields["conditions"], conditions, prefix + "conditions."))
    return out


class _Line(Contract):
    params = {"identification": "identification"}
    domain = "graph+expr"

    def adapt(self, ex, env):
        a = super().adapt(ex, env)
        a.g, a.Y, a.X, a.e = parts(a.identification)
        a.C = a.identification.fields["query"].fields["conditions"]
        return a

    def pre(self, ex, a):
        return wf_query(ex, a.g, a.Y, a.X, a.C)

    def audit(self, ex, callee, ac, a0):
        """C06 ('ID builds terms only via P(child | predecessors) and sums'): whatever identify puts into a summation range or into a
        conditional P(v | predecessors) is a plain node of the graph it was called with -- and by `decreases` that graph's nodes are
        nodes of the caller's graph, so inductively of the user's graph."""
        L, g = ex.L, a0.g
        plain_node = lambda v: L.And(g.N(v), L.Not(L.is_intervention(v)))
        if callee == "y0.dsl.Sum.safe":
            R = ex.as_set(ac.ranges)
            return [("ranges-are-graph-nodes", L.forall(1, lambda v: L.Implies(R.has(v), plain_node(v))))]
        if callee == f"{IDS}.p_conditional":
            o = ac.ordering
            if isinstance(o, VSet) and getattr(o, "seq_view", None) is not None:
                o = o.seq_view
            mem = o.mem if isinstance(o, VSeq) else ex.as_set(o).has
            return [("conditional-over-graph-nodes", L.And(plain_node(ac.child.t), L.forall(1, lambda v: L.Implies(mem(v), plain_node(v)))))]
        return []

    returns = "identification"

    def result(self, ex, a):
        """havoc + assume post: a fresh value of the result shape constrained by every postcondition clause"""
        L = ex.L
        if ex.binders:
            from y0vc.values import OutOfSubset
            raise OutOfSubset("contract result with fresh graph symbols under a loop / comprehension variable")
        if self.returns == "expr":
            res = VExpr(theory(ex).fresh("line"))
        else:
            res, wf, _ = sym_identification(L, L.fresh_name("ident"))
            for f in wf:
                ex.assume(f)
        for name, cl in self.post(ex, a, res).items():
            ex.assume(cl)
        return res


def _anY(ex, g, Y, name="rtcD"):
    L = ex.L
    C = ex.closure(lambda p, q: g.D(p, q), name)
    return lambda u: L.exists(1, lambda s: L.And(Y.has(s), C(u, s)))


@contract(f"{IDS}.line_1", props=["C01", "C02", "C06"])
class _(_Line):
    """line 1: sum the distribution over V minus Y"""
    returns = "expr"
    def post(self, ex, a, res):
        T = theory(ex)
        L = ex.L
        if not isinstance(res, VExpr):
            return {"type": L.F()}
        R = VSet(lambda v: L.And(a.g.N(v), L.Not(a.Y.has(v))))
        sv, oks = T.sumv(T.set_to_array(R), a.e.t)
        return {"ranges": z3.Implies(oks, z3.And(T.ok(res.t), T.den(res.t) == sv)),
                # C06: the variables summed over are nodes of the user's graph (plain variables: no Intervention objects)
                "ranges-are-graph-nodes": L.forall(1, lambda v: L.Implies(R.has(v), L.And(a.g.N(v), L.Not(L.is_intervention(v)))))}


@contract(f"{IDS}.line_2", props=["C01", "C02", "C06"])
class _(_Line):
    """line 2: restrict to An(Y): ID(y, x & An(Y), sum_{V - An(Y)} P, G[An(Y)])"""
    allowed_raises = ("ValueError",)

    def raises(self, ex, a):
        L = ex.L
        A = _anY(ex, a.g, a.Y)
        return {"ValueError": L.Not(L.exists(1, lambda v: L.And(a.g.N(v), L.Not(A(v)))))}

    def post(self, ex, a, res):
        L, g = ex.L, a.g
        T = theory(ex)
        A = _anY(ex, g, a.Y)
        out = ident_clauses(ex, res, outcomes=a.Y, treatments=VSet(lambda v: L.And(a.X.has(v), A(v))), conditions=VSet(lambda v: L.F()),
                            graph=mk_graph(lambda v: A(v), lambda p, q: L.And(g.D(p, q), A(p), A(q)), lambda p, q: L.And(g.U(p, q), A(p), A(q))))
        if isinstance(res, VObj) and isinstance(res.fields.get("estimand"), VExpr):
            R = VSet(lambda v: L.And(g.N(v), L.Not(A(v))))
            sv, oks = T.sumv(T.set_to_array(R), a.e.t)
            e2 = res.fields["estimand"].t
            out["estimand.ranges"] = z3.Implies(oks, z3.And(T.ok(e2), T.den(e2) == sv))
            out["ranges-are-graph-nodes"] = L.forall(1, lambda v: L.Implies(R.has(v), L.And(g.N(v), L.Not(L.is_intervention(v)))))
        else:
            out["estimand.type"] = L.F()
        return out


@contract(f"{IDS}.line_3", props=["C01", "C02"])
class _(_Line):
    """line 3: add W = (V - X) - An(Y) in G with the edges into X removed to the treatments; graph and distribution unchanged"""
    allowed_raises = ("ValueError",)

    def _W(self, ex, a):
        L, g = ex.L, a.g
        C = ex.closure(lambda p, q: L.And(g.D(p, q), L.Not(a.X.has(q))), "rtcDx")
        anc = lambda u: L.exists(1, lambda s: L.And(a.Y.has(s), C(u, s)))
        return lambda v: L.And(g.N(v), L.Not(a.X.has(v)), L.Not(anc(v)))

    def raises(self, ex, a):
        L = ex.L
        W = self._W(ex, a)
        return {"ValueError": L.Not(L.exists(1, lambda v: W(v)))}

    def post(self, ex, a, res):
        L, g = ex.L, a.g
        T = theory(ex)
        W = self._W(ex, a)
        out = ident_clauses(ex, res, outcomes=a.Y, treatments=VSet(lambda v: L.Or(a.X.has(v), W(v))), conditions=a.C,
                            graph=mk_graph(lambda v: g.N(v), lambda p, q: g.D(p, q), lambda p, q: g.U(p, q)))
        if isinstance(res, VObj) and isinstance(res.fields.get("estimand"), VExpr):
            out["estimand.same"] = res.fields["estimand"].t == a.e.t
        else:
            out["estimand.type"] = L.F()
        return out


@contract(f"{IDS}.line_7", props=["C01", "C02", "C06"])
class _(_Line):
    """line 7: the single district S of G - X is strictly inside a district S' of G: ID(y, x & S', prod_{S'} P(v | pred), G[S'])"""
    allowed_raises = ("ValueError", "RuntimeError", "NetworkXUnfeasible")
    expensive = True       # verified under C01 (its owner); C02 uses the contract modularly

    def _S(self, ex, a):
        """(S membership given a representative, S' membership) -- in terms of closures of the bidirected relations"""
        L, g = ex.L, a.g
        keep = lambda v: L.And(g.N(v), L.Not(a.X.has(v)))
        CU = ex.closure(lambda p, q: g.U(p, q), "rtcU")
        CUx = ex.closure(lambda p, q: L.And(g.U(p, q), keep(p), keep(q)), "rtcUx")
        return keep, CU, CUx

    def raises(self, ex, a):
        L, g = ex.L, a.g
        keep, CU, CUx = self._S(ex, a)
        one = L.And(L.exists(1, lambda v: keep(v)), L.forall(2, lambda p, q: L.Implies(L.And(keep(p), keep(q)), CUx(p, q))))
        # some district of G strictly contains S  <=>  some node outside S (necessarily a treatment) is U-connected to S
        strict = L.exists(2, lambda s, t: L.And(keep(s), g.N(t), L.Not(keep(t)), CU(s, t)))
        from y0vc.libspec import acyclic
        ac, _ = acyclic(ex, lambda p, q: g.D(p, q))
        return {"RuntimeError": L.Not(one), "ValueError": L.And(one, L.Not(strict)), "NetworkXUnfeasible": L.And(one, strict, L.Not(ac))}

    def audit(self, ex, callee, ac, a0):
        """the new distribution is a product of conditionals of nodes of S' (the enclosing district)"""
        L, g = ex.L, a0.g
        out = list(super().audit(ex, callee, ac, a0))
        if callee == f"{IDS}.p_conditional":
            keep, CU, CUx = self._S(ex, a0)
            out.append(("conditional-of-a-node-of-the-enclosing-district", L.And(g.N(ac.child.t), L.exists(1, lambda s: L.And(keep(s), CU(s, ac.child.t))))))
        return out

    def post(self, ex, a, res):
        L, g = ex.L, a.g
        keep, CU, CUx = self._S(ex, a)
        Sp = lambda v: L.And(g.N(v), L.exists(1, lambda s: L.And(keep(s), CU(s, v))))
        return ident_clauses(ex, res, outcomes=a.Y, treatments=VSet(lambda v: L.And(a.X.has(v), Sp(v))), conditions=VSet(lambda v: L.F()),
                             graph=mk_graph(lambda v: Sp(v), lambda p, q: L.And(g.D(p, q), Sp(p), Sp(q)), lambda p, q: L.And(g.U(p, q), Sp(p), Sp(q))))


@contract(f"{IDS}.p_conditional", props=["C01", "C02"])
class _(Contract):
    """The conditional of `child` given its predecessors in the current distribution: an opaque expression here (its
    meaning is checked by the bounded SCM oracle); the only failure is a child missing from the ordering."""
    domain = "graph+expr"
    assumed = True
    params = {"child": "node", "ordering": "seq", "estimand": "expr"}
    allowed_raises = ("ValueError",)

    def raises(self, ex, a):
        o = a.ordering
        if isinstance(o, VSet) and getattr(o, "seq_view", None) is not None:
            o = o.seq_view
        mem = o.mem if isinstance(o, VSeq) else ex.as_set(o).has
        return {"ValueError": ex.L.Not(mem(a.child.t))}

    def post(self, ex, a, res):
        return {}

    def result(self, ex, a):
        T = theory(ex)
        r = T.fresh("pcond")
        ex.assume(T.is_cls(r, ["Probability", "Fraction"]))
        return VExpr(r)


@contract(f"{IDS}.identify", props=["C02", "C01", "C06"])
class _(_Line):
    """Totality and refusal discipline of ID: on a valid query over an acyclic graph the only exception is Unidentifiable; the
    function's own `raise Unidentifiable` is reachable only under the published line-5 condition (G - X has a single
    district and G is a single district); every recursive call is made on a valid query over an acyclic graph."""
    allowed_raises = ("Unidentifiable",)
    raises_exact = False
    expensive = True       # verified under C02 (its owner); C01 uses the contract modularly

    def pre(self, ex, a):
        from y0vc.libspec import acyclic
        ac, _ = acyclic(ex, lambda p, q: a.g.D(p, q))
        return wf_query(ex, a.g, a.Y, a.X, a.C) + [("acyclic", ac)]

    def raises(self, ex, a):
        return {"Unidentifiable": ex.L.T()}

    def audit(self, ex, callee, ac, a0):
        """Besides the vocabulary audit: both sums that identify() builds itself (line 4 over the product of the sub-problems, line 6 over
        the product of conditionals) range over exactly V - X - Y (for line 6: S - Y with S = V - X the single district)."""
        L = ex.L
        out = list(super().audit(ex, callee, ac, a0))
        if callee == "y0.dsl.Sum.safe":
            R = ex.as_set(ac.ranges)
            out.append(("ranges-are-V-minus-X-minus-Y", L.forall(1, lambda v: R.has(v) == L.And(a0.g.N(v), L.Not(a0.X.has(v)), L.Not(a0.Y.has(v))))))
        return out

    def decreases(self, ex, a0, a1):
        """Termination (C02 'terminates'): every recursive call is on a graph whose node set is a subset of the caller's, and either
        that subset is strict (lines 2, 7) or the node set is the same and the set of non-treatment nodes shrinks strictly (lines 3,
        4).  Both orders are strict-subset orders on finite sets, so their lexicographic product is well-founded."""
        L = ex.L
        # cut (emitted as its own obligation, then used): when G - X is a single district S, any two nodes of the district S' of G
        # that contains S are bidirected-connected -- so a graph that is not one district has a node outside S' (line 7 shrinks it)
        g0 = a0.g
        keep = lambda v: L.And(g0.N(v), L.Not(a0.X.has(v)))
        CU = ex.closure(lambda p, q: g0.U(p, q), "rtcU")
        CUx = ex.closure(lambda p, q: L.And(g0.U(p, q), keep(p), keep(q)), "rtcUx")
        one = L.forall(2, lambda p, q: L.Implies(L.And(keep(p), keep(q)), CUx(p, q)))
        Sp = lambda v: L.exists(1, lambda s_: L.And(keep(s_), CU(s_, v)))
        lemma = L.Implies(one, L.forall(2, lambda p, q: L.Implies(L.And(Sp(p), Sp(q)), CU(p, q))))
        if not getattr(ex, "_cut_enclosing_done", False):
            # proved once, from the entry hypotheses only (it does not depend on the path)
            ex._cut_enclosing_done = bool(ex.emit("lemma.enclosing-district-is-connected@identify", lemma,
                                                  note="cut used by the termination obligations", hyps=getattr(ex, "entry_hyps", None)))
        ex.assume(lemma)
        sub = L.forall(1, lambda v: L.Implies(a1.g.N(v), a0.g.N(v)))
        strict_nodes = L.exists(1, lambda v: L.And(a0.g.N(v), L.Not(a1.g.N(v))))
        free0 = lambda v: L.And(a0.g.N(v), L.Not(a0.X.has(v)))
        free1 = lambda v: L.And(a1.g.N(v), L.Not(a1.X.has(v)))
        fewer_free = L.And(L.forall(1, lambda v: L.Implies(free1(v), free0(v))), L.exists(1, lambda v: L.And(free0(v), L.Not(free1(v)))))
        return L.And(sub, L.Or(strict_nodes, fewer_free))

    def raises_direct(self, ex, a):
        L, g = ex.L, a.g
        keep = lambda v: L.And(g.N(v), L.Not(a.X.has(v)))
        CU = ex.closure(lambda p, q: g.U(p, q), "rtcU")
        CUx = ex.closure(lambda p, q: L.And(g.U(p, q), keep(p), keep(q)), "rtcUx")
        single_wo = L.forall(2, lambda p, q: L.Implies(L.And(keep(p), keep(q)), CUx(p, q)))
        single = L.forall(2, lambda p, q: L.Implies(L.And(g.N(p), g.N(q)), CU(p, q)))
        return {"Unidentifiable": L.And(single_wo, single, L.exists(1, lambda v: a.X.has(v)))}

    def post(self, ex, a, res):
        return {"type": z3.BoolVal(isinstance(res, VExpr))}

    def result(self, ex, a):
        return VExpr(theory(ex).fresh("id"))


@contract(f"{UT}.str_nodes_to_variable_nodes", props=["C02"])
class _(Contract):
    """A fresh graph with the same (Variable) nodes and edges: the caller's graph object is never shared with the result."""
    params = {"graph": "graph"}

    def spec(self, ex, a):
        g = a.graph
        return mk_graph(lambda v: g.N(v), lambda p, q: g.D(p, q), lambda p, q: g.U(p, q))


@contract(f"{IDS}.line_4", props=["C01"])
class _(_Line):
    """line 4 (c-component factorisation): one sub-problem per district S_i of G - X, namely ID(s_i, v - s_i, P, G) -- the same graph
    and distribution, the district as outcomes, every other node as treatments; ValueError unless G - X has at least two districts."""
    allowed_raises = ("ValueError",)
    inline_only = True            # identify() reads line_4's body (its recursive calls are checked there); this pins the line itself
    finite_ok = False

    def _keep(self, ex, a):
        L, g = ex.L, a.g
        keep = lambda v: L.And(g.N(v), L.Not(a.X.has(v)))
        CUx = ex.closure(lambda p, q: L.And(g.U(p, q), keep(p), keep(q)), "rtcUx")
        return keep, CUx

    def raises(self, ex, a):
        L = ex.L
        keep, CUx = self._keep(ex, a)
        return {"ValueError": L.Not(L.exists(2, lambda p, q: L.And(keep(p), keep(q), L.Not(CUx(p, q)))))}

    def post(self, ex, a, res):
        from y0vc.values import VComp
        L, g = ex.L, a.g
        alts = getattr(res, "alts", None)
        if not isinstance(res, VComp) or not alts or len(alts) != 1 or len(alts[0][0]) != 1:
            return {"type": L.F()}
        (r,), guard, elt = alts[0]
        if not (isinstance(elt, VObj) and getattr(elt.cls, "name", "") == "Identification"):
            return {"type": L.F()}
        keep, CUx = self._keep(ex, a)
        q = elt.fields["query"]
        O, Tr = q.fields["outcomes"], q.fields["treatments"]
        fa = lambda body: L.forall_c([r], L.Implies(guard, body))
        out = {
            "outcomes-are-a-district": fa(L.exists(1, lambda w: L.And(keep(w), L.forall(1, lambda v: O.has(v) == L.And(keep(v), CUx(w, v)))))),
            "every-district-occurs": L.forall(1, lambda w: L.Implies(keep(w), L.exists_c([r], L.And(guard, O.has(w))))),
            "treatments-are-the-rest": fa(L.forall(1, lambda v: Tr.has(v) == L.And(g.N(v), L.Not(O.has(v))))),
        }
        from y0vc.contract import same_value
        out.update({"graph." + k: fa(c) for k, c in same_value(L, elt.fields["graph"], mk_graph(lambda v: g.N(v), lambda p, q_: g.D(p, q_), lambda p, q_: g.U(p, q_))).items()})
        if isinstance(elt.fields.get("estimand"), VExpr):
            out["estimand.same"] = fa(elt.fields["estimand"].t == a.e.t)
        else:
            out["estimand.type"] = L.F()
        return out


@contract(f"{IDS}.line_5", props=["C02"])
class _(_Line):
    """line 5 (the function; identify() has its own inline copy, checked there): Unidentifiable exactly when the whole graph is a single
    district, otherwise nothing happens."""
    allowed_raises = ("Unidentifiable",)
    inline_only = True

    def raises(self, ex, a):
        L, g = ex.L, a.g
        CU = ex.closure(lambda p, q: g.U(p, q), "rtcU")
        return {"Unidentifiable": L.And(L.exists(1, lambda v: g.N(v)), L.forall(2, lambda p, q: L.Implies(L.And(g.N(p), g.N(q)), CU(p, q))))}

    def post(self, ex, a, res):
        return {"none": z3.BoolVal(isinstance(res, VNone))}


@contract("y0.algorithm.identify.api.identify_outcomes", props=["C02"])
class _(Contract):
    """The public wrapper: on a valid query over an acyclic graph it never raises -- the refusal of ID / IDC (Unidentifiable) is
    translated into None, everything else is returned as is."""
    params = {"graph": "graph", "treatments": "nodeset", "outcomes": "nodeset", "conditions": ("none", "nodeset")}
    domain = "graph+expr"
    finite_ok = False

    def pre(self, ex, a):
        from y0vc.libspec import acyclic
        L = ex.L
        ac, _ = acyclic(ex, lambda p, q: a.graph.D(p, q))
        C = a.conditions if isinstance(a.conditions, VSet) else None
        out = wf_query(ex, a.graph, a.outcomes, a.treatments, C) + [("acyclic", ac)]
        plain = lambda S: L.forall(1, lambda v: L.Implies(S.has(v), L.Not(L.is_intervention(v))))
        out += [("no-interventions", L.And(plain(a.outcomes), plain(a.treatments), plain(C) if C is not None else L.T()))]
        if C is not None:
            out += [("conditions-disjoint", L.forall(1, lambda v: L.Not(L.And(C.has(v), L.Or(a.outcomes.has(v), a.treatments.has(v)))))),
                    ("conditions-nonempty", L.exists(1, lambda v: C.has(v)))]
        return out

    def post(self, ex, a, res):
        return {"none-or-expression": z3.BoolVal(isinstance(res, (VNone, VExpr)))}


@contract(f"{IDS}.line_6", props=["C01"])
class _(_Line):
    """line 6 (the function; identify() has its own inline copy): when G - X is a single district S that is also a district of G, return
    sum_{S - Y} prod_{v in S} P(v | predecessors).  Checked here: the guards, and -- as `audit.*` obligations at the two call sites -- that
    the sum ranges over exactly S - Y and that every conditional is taken for a node of S over an ordering of the graph's nodes."""
    allowed_raises = ("ValueError", "RuntimeError", "NetworkXUnfeasible")
    inline_only = True
    returns = "expr"

    def _S(self, ex, a):
        L, g = ex.L, a.g
        keep = lambda v: L.And(g.N(v), L.Not(a.X.has(v)))
        CU = ex.closure(lambda p, q: g.U(p, q), "rtcU")
        CUx = ex.closure(lambda p, q: L.And(g.U(p, q), keep(p), keep(q)), "rtcUx")
        one = L.And(L.exists(1, lambda v: keep(v)), L.forall(2, lambda p, q: L.Implies(L.And(keep(p), keep(q)), CUx(p, q))))
        strict = L.exists(2, lambda s, t: L.And(keep(s), g.N(t), L.Not(keep(t)), CU(s, t)))
        return keep, one, strict

    def raises(self, ex, a):
        from y0vc.libspec import acyclic
        L = ex.L
        keep, one, strict = self._S(ex, a)
        ac, _ = acyclic(ex, lambda p, q: a.g.D(p, q))
        return {"RuntimeError": L.Not(one), "ValueError": L.And(one, strict), "NetworkXUnfeasible": L.And(one, L.Not(strict), L.Not(ac))}

    def audit(self, ex, callee, ac, a0):
        L = ex.L
        out = list(super().audit(ex, callee, ac, a0))
        keep, one, strict = self._S(ex, a0)
        if callee == "y0.dsl.Sum.safe":
            R = ex.as_set(ac.ranges)
            out.append(("ranges-are-S-minus-Y", L.forall(1, lambda v: R.has(v) == L.And(keep(v), L.Not(a0.Y.has(v))))))
        if callee == f"{IDS}.p_conditional":
            out.append(("conditional-of-a-district-node", keep(ac.child.t)))
        return out

    def post(self, ex, a, res):
        return {"type": z3.BoolVal(isinstance(res, VExpr))}
