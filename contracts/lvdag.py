"""Contracts for the latent-variable DAG conversion in y0/graph.py (C16, round-trip clause)."""
from __future__ import annotations

import z3

from contracts.graph import G
from y0vc.contract import Contract, contract, mk_graph, same_value
from y0vc.values import VGraph, VNx, VStr

HID = "hidden"


@contract(f"{G}.from_latent_variable_dag", props=["C16"])
class _(Contract):
    """The mixed graph read off a tagged DAG: its nodes are the untagged (observed) nodes together with every child of a node;
    a directed edge for every edge leaving an observed node; a bidirected edge between every two distinct children of a
    latent node.  ValueError iff some node lacks the tag."""
    params = {"cls": ("const", None), "graph": "tagged_dag"}
    allowed_raises = ("ValueError",)

    def make_inputs(self, L, variant):
        env, wf, probes = super().make_inputs(L, variant)
        env["cls"] = "CLS"
        return env, wf, probes

    def adapt(self, ex, env):
        from y0vc.values import VFunc
        if env.get("cls") == "CLS":
            env["cls"] = VFunc("class", ex.repo.resolve(G))
        return super().adapt(ex, env)

    def _tag(self, a):
        return a.graph.nattrs[HID]

    def pre(self, ex, a):
        from y0vc.libspec import acyclic
        ac, _ = acyclic(ex, lambda p, q: a.graph.E(p, q))
        return [("acyclic", ac)]

    def raises(self, ex, a):
        L, g = ex.L, a.graph
        has, _ = self._tag(a)
        return {"ValueError": L.exists(1, lambda x: L.And(g.N(x), L.Not(has(x))))}

    def spec(self, ex, a):
        L, g = ex.L, a.graph
        has, hid = self._tag(a)
        obs = lambda x: L.And(g.N(x), L.Not(hid(x)))
        lat = lambda x: L.And(g.N(x), hid(x))
        D = lambda p, q: L.And(obs(p), g.E(p, q))
        U = lambda p, q: L.And(p != q, L.exists(1, lambda h: L.And(lat(h), g.E(h, p), g.E(h, q))))
        N = lambda x: L.Or(obs(x), L.exists(1, lambda w: L.Or(D(x, w), D(w, x), U(x, w))))
        return mk_graph(N, D, U)


@contract(f"{G}.to_latent_variable_dag", props=["C16"])
class _(Contract):
    """A tagged DAG: the observed (untagged-false... i.e. hidden=False) nodes are exactly the graph's nodes with exactly its
    directed edges among them; every hidden node has no parents and its children are the two end points of a bidirected edge;
    every bidirected edge has such a hidden node.  Clause `roundtrip`: reading the result back with the contract of
    from_latent_variable_dag gives the original graph (nodes without edges included)."""
    params = {"self": "graph"}
    allowed_raises = ("ValueError",)
    finite_ok = False     # infinitely many fresh latent names: the precondition has no finite model

    def pre(self, ex, a):
        L, g = ex.L, a.self
        gen = z3.Function("generated_variable", z3.IntSort(), L.Node)
        i = z3.Int("fi")
        return [("latent-names-fresh", z3.ForAll([i], L.Not(g.N(gen(i))))),
                ("no-bidirected-self-loops", L.forall(1, lambda x: L.Not(g.U(x, x))))]

    def raises(self, ex, a):
        L, g = ex.L, a.self
        return {"ValueError": L.exists(1, lambda x: L.And(g.N(x), L.is_cf(x)))}

    def post(self, ex, a, res):
        L, g = ex.L, a.self
        if not (isinstance(res, VNx) and res.directed and HID in res.nattrs):
            return {"type": L.F()}
        has, hid = res.nattrs[HID]
        obs = lambda x: L.And(res.N(x), L.Not(hid(x)))
        lat = lambda x: L.And(res.N(x), hid(x))
        out = {
            "all-tagged": L.forall(1, lambda x: has(x) == res.N(x)),
            "observed-nodes": L.forall(1, lambda x: obs(x) == g.N(x)),
            "observed-edges": L.forall(2, lambda p, q: L.Implies(obs(p), res.E(p, q) == g.D(p, q))),
            "latents-are-roots": L.forall(2, lambda p, q: L.Implies(res.E(p, q), obs(q))),
            "latent-children": L.forall(1, lambda h: L.Implies(lat(h), L.exists(2, lambda u, v: L.And(
                g.U(u, v), L.forall(1, lambda q: res.E(h, q) == L.Or(q == u, q == v)))))),
            "every-bidirected-edge": L.forall(2, lambda u, v: L.Implies(g.U(u, v), L.exists(1, lambda h: L.And(lat(h), res.E(h, u), res.E(h, v))))),
        }
        # round trip through the *contract* of from_latent_variable_dag
        from y0vc.contract import REGISTRY
        import types
        back = REGISTRY[f"{G}.from_latent_variable_dag"].spec(ex, types.SimpleNamespace(graph=res))
        me = mk_graph(lambda x: g.N(x), lambda p, q: g.D(p, q), lambda p, q: g.U(p, q))
        for k, v in same_value(L, back, me, "roundtrip.").items():
            out[k] = v
        return out
