"""Contracts for y0/graph.py (C14; reused by C02, C03, C04, C15, C16, ...).

Top-level postconditions are the sentences of property C14; helper contracts are derived from the code and its call sites.
Every postcondition is over the whole view (node set and both edge relations).
"""
from __future__ import annotations

import z3

from y0vc.contract import Contract, as_nodes, contract, mk_graph
from y0vc.values import NONE, VBool, VFam, VGraph, VNode, VNone, VNx, VSeq, VSet

G = "y0.graph.NxMixedGraph"
NODES_ARG = ("nodeset", "node")      # `Variable | Iterable[Variable]`


def no_interventions(ex, S):
    L = ex.L
    return L.forall(1, lambda x: L.Implies(S.has(x), L.Not(L.is_intervention(x))))


class _Surgery(Contract):
    """Common shape: (self, vertices) -> new graph; TypeError iff some vertex is an Intervention."""
    params = {"self": "graph", "vertices": NODES_ARG}
    allowed_raises = ("TypeError",)

    def adapt(self, ex, env):
        a = super().adapt(ex, env)
        a.S = as_nodes(ex, a.vertices)
        return a

    def raises(self, ex, a):
        return {"TypeError": ex.L.Not(no_interventions(ex, a.S))}


@contract(f"{G}.from_edges", props=["C14", "C02", "C16"])
class _(Contract):
    params = {"cls": ("const", None), "nodes": ("nodeset", "none"), "directed": ("pairs", "none"),
              "undirected": ("pairs", "none")}
    allowed_raises = ("ValueError",)

    def make_inputs(self, L, variant):
        env, wf, probes = super().make_inputs(L, variant)
        from y0vc.values import VFunc
        env["cls"] = "CLS"
        return env, wf, probes

    def adapt(self, ex, env):
        from y0vc.values import VFunc
        if env.get("cls") == "CLS":
            env["cls"] = VFunc("class", ex.repo.resolve(G))
        a = super().adapt(ex, env)
        L = ex.L
        none = lambda v: v is None or isinstance(v, VNone)
        a.nodes_none, a.d_none, a.u_none = none(getattr(a, "nodes", None)), none(getattr(a, "directed", None)), none(
            getattr(a, "undirected", None))
        a.Ns = ex.as_set(a.nodes) if not a.nodes_none else VSet(lambda x: L.F())
        a.Ds = ex.as_set(a.directed) if not a.d_none else VSet(lambda x, y: L.F(), arity=2)
        a.Us = ex.as_set(a.undirected) if not a.u_none else VSet(lambda x, y: L.F(), arity=2)
        return a

    def raises(self, ex, a):
        return {"ValueError": z3.BoolVal(a.d_none and a.u_none)}

    def spec(self, ex, a):
        L = ex.L
        D, U, Ns = a.Ds, a.Us, a.Ns
        N = lambda x: L.Or(Ns.has(x), L.exists(1, lambda w: L.Or(D.has(x, w), D.has(w, x), U.has(x, w), U.has(w, x))))
        return mk_graph(N, lambda p, q: D.has(p, q), lambda p, q: U.has(p, q))


@contract(f"{G}.subgraph", props=["C14", "C02", "C04"])
class _(_Surgery):
    def spec(self, ex, a):
        L, g, S = ex.L, a.self, a.S
        return mk_graph(lambda x: S.has(x),
                        lambda p, q: L.And(g.D(p, q), S.has(p), S.has(q)),
                        lambda p, q: L.And(g.U(p, q), S.has(p), S.has(q)))


@contract(f"{G}.remove_in_edges", props=["C14", "C02", "C03"])
class _(_Surgery):
    def spec(self, ex, a):
        L, g, S = ex.L, a.self, a.S
        return mk_graph(lambda x: g.N(x),
                        lambda p, q: L.And(g.D(p, q), L.Not(S.has(q))),
                        lambda p, q: L.And(g.U(p, q), L.Not(S.has(p)), L.Not(S.has(q))))


@contract(f"{G}.remove_out_edges", props=["C14", "C03"])
class _(_Surgery):
    def spec(self, ex, a):
        L, g, S = ex.L, a.self, a.S
        return mk_graph(lambda x: g.N(x),
                        lambda p, q: L.And(g.D(p, q), L.Not(S.has(p))),
                        lambda p, q: g.U(p, q))


@contract(f"{G}.remove_nodes_from", props=["C14", "C02"])
class _(_Surgery):
    def spec(self, ex, a):
        L, g, S = ex.L, a.self, a.S
        keep = lambda x: L.Not(S.has(x))
        return mk_graph(lambda x: L.And(g.N(x), keep(x)),
                        lambda p, q: L.And(g.D(p, q), keep(p), keep(q)),
                        lambda p, q: L.And(g.U(p, q), keep(p), keep(q)))
