"""Contracts for y0/graph.py (C14; reused by C02, C03, C04, C15, C16, ...).

Top-level postconditions are the sentences of property C14; helper contracts are derived from the code and its call sites.
Every postcondition is over the whole view (node set and both edge relations).
"""
from __future__ import annotations

import z3

from y0vc.contract import Contract, as_nodes, contract, mk_graph
from y0vc.values import NONE, VBool, VFam, VGraph, VNode, VNone, VNx, VSeq, VSet

G = "y0.graph.NxMixedGraph"
NODES_ARG = ("nodeset", "node")      # `Variable | Iterable[Variable]`


def no_interventions(ex, S):
    L = ex.L
    return L.forall(1, lambda x: L.Implies(S.has(x), L.Not(L.is_intervention(x))))


class _Surgery(Contract):
    """Common shape: (self, vertices) -> new graph; TypeError iff some vertex is an Intervention."""
    params = {"self": "graph", "vertices": NODES_ARG}
    allowed_raises = ("TypeError",)

    def adapt(self, ex, env):
        a = super().adapt(ex, env)
        a.S = as_nodes(ex, a.vertices)
        return a

    def raises(self, ex, a):
        return {"TypeError": ex.L.Not(no_interventions(ex, a.S))}


@contract(f"{G}.from_edges", props=["C14", "C02", "C16"])
class _(Contract):
    params = {"cls": ("const", None), "nodes": ("nodeset", "none"), "directed": ("pairs", "none"),
              "undirected": ("pairs", "none")}
    allowed_raises = ("ValueError",)

    def make_inputs(self, L, variant):
        env, wf, probes = super().make_inputs(L, variant)
        from y0vc.values import VFunc
        env["cls"] = "CLS"
        return env, wf, probes

    def adapt(self, ex, env):
        from y0vc.values import VFunc
        if env.get("cls") == "CLS":
            env["cls"] = VFunc("class", ex.repo.resolve(G))
        a = super().adapt(ex, env)
        L = ex.L
        none = lambda v: v is None or isinstance(v, VNone)
        a.nodes_none, a.d_none, a.u_none = none(getattr(a, "nodes", None)), none(getattr(a, "directed", None)), none(
            getattr(a, "undirected", None))
        a.Ns = ex.as_set(a.nodes) if not a.nodes_none else VSet(lambda x: L.F())
        a.Ds = ex.as_set(a.directed) if not a.d_none else VSet(lambda x, y: L.F(), arity=2)
        a.Us = ex.as_set(a.undirected) if not a.u_none else VSet(lambda x, y: L.F(), arity=2)
        return a

    def raises(self, ex, a):
        return {"ValueError": z3.BoolVal(a.d_none and a.u_none)}

    def spec(self, ex, a):
        L = ex.L
        D, U, Ns = a.Ds, a.Us, a.Ns
        N = lambda x: L.Or(Ns.has(x), L.exists(1, lambda w: L.Or(D.has(x, w), D.has(w, x), U.has(x, w), U.has(w, x))))
        return mk_graph(N, lambda p, q: D.has(p, q), lambda p, q: U.has(p, q))


@contract(f"{G}.subgraph", props=["C14", "C02", "C04"])
class _(_Surgery):
    def spec(self, ex, a):
        L, g, S = ex.L, a.self, a.S
        return mk_graph(lambda x: S.has(x),
                        lambda p, q: L.And(g.D(p, q), S.has(p), S.has(q)),
                        lambda p, q: L.And(g.U(p, q), S.has(p), S.has(q)))


@contract(f"{G}.remove_in_edges", props=["C14", "C02", "C03"])
class _(_Surgery):
    def spec(self, ex, a):
        L, g, S = ex.L, a.self, a.S
        return mk_graph(lambda x: g.N(x),
                        lambda p, q: L.And(g.D(p, q), L.Not(S.has(q))),
                        lambda p, q: L.And(g.U(p, q), L.Not(S.has(p)), L.Not(S.has(q))))


@contract(f"{G}.remove_out_edges", props=["C14", "C03"])
class _(_Surgery):
    def spec(self, ex, a):
        L, g, S = ex.L, a.self, a.S
        return mk_graph(lambda x: g.N(x),
                        lambda p, q: L.And(g.D(p, q), L.Not(S.has(p))),
                        lambda p, q: g.U(p, q))


@contract(f"{G}.remove_nodes_from", props=["C14", "C02"])
class _(_Surgery):
    def spec(self, ex, a):
        L, g, S = ex.L, a.self, a.S
        keep = lambda x: L.Not(S.has(x))
        return mk_graph(lambda x: L.And(g.N(x), keep(x)),
                        lambda p, q: L.And(g.D(p, q), keep(p), keep(q)),
                        lambda p, q: L.And(g.U(p, q), keep(p), keep(q)))


# ------------------------------------------------------------------------------------------------ closures
def _closure(ex, E, name):
    return ex.closure(E, name)


def _acyclic(ex, g):
    from y0vc.libspec import acyclic
    return acyclic(ex, lambda a, b: g.D(a, b))


class _Reach(Contract):
    """ancestors_inclusive / descendants_inclusive: reflexive-transitive closure over directed edges."""
    params = {"self": "graph", "sources": NODES_ARG}
    allowed_raises = ("TypeError", "NetworkXError")
    forward = False

    def adapt(self, ex, env):
        a = super().adapt(ex, env)
        a.S = as_nodes(ex, a.sources)
        return a

    def raises(self, ex, a):
        L = ex.L
        ok = no_interventions(ex, a.S)
        return {"TypeError": L.Not(ok),
                # nx.ancestors / nx.descendants raise on a source that is not a node
                "NetworkXError": L.And(ok, L.exists(1, lambda s: L.And(a.S.has(s), L.Not(a.self.N(s)))))}

    def spec(self, ex, a):
        L, g, S = ex.L, a.self, a.S
        C = _closure(ex, lambda p, q: g.D(p, q), "rtcD")
        if self.forward:
            return VSet(lambda u: L.exists(1, lambda s: L.And(S.has(s), C(s, u))))
        return VSet(lambda u: L.exists(1, lambda s: L.And(S.has(s), C(u, s))))


@contract(f"{G}.ancestors_inclusive", props=["C14", "C02", "C04"])
class _(_Reach):
    forward = False


@contract(f"{G}.descendants_inclusive", props=["C14"])
class _(_Reach):
    forward = True


@contract(f"{G}.topological_sort", props=["C14", "C02"])
class _(Contract):
    """A permutation of the nodes in which every directed edge points forward; NetworkXUnfeasible iff cyclic."""
    params = {"self": "graph"}
    allowed_raises = ("NetworkXUnfeasible",)

    def raises(self, ex, a):
        ac, _ = _acyclic(ex, a.self)
        return {"NetworkXUnfeasible": ex.L.Not(ac)}

    def post(self, ex, a, res):
        L, g = ex.L, a.self
        if isinstance(res, VSet) and getattr(res, "seq_view", None) is not None:
            res = res.seq_view
        if not isinstance(res, VSeq):
            return {"type": L.F()}
        return {"members": L.eq_set(res.mem, g.N),
                "order": L.forall(2, lambda p, q: L.Implies(g.D(p, q), res.before(p, q))),
                "total": L.forall(2, lambda p, q: L.Implies(L.And(res.mem(p), res.mem(q)), L.Or(p == q, res.before(p, q), res.before(q, p)))),
                "strict": L.forall(2, lambda p, q: L.Not(L.And(res.before(p, q), res.before(q, p))))}

    def result(self, ex, a):
        L, g = ex.L, a.self
        before = L.strict_total_order_on(lambda x: g.N(x), "topo")
        ex.assume(L.forall(2, lambda p, q: L.Implies(g.D(p, q), before(p, q))))
        return VSeq(lambda x: g.N(x), before)


@contract(f"{G}.districts", props=["C14", "C02"])
class _(Contract):
    """The classes of the reflexive-transitive closure of the bidirected edge relation (a partition of the nodes)."""
    params = {"self": "graph"}

    def spec(self, ex, a):
        L, g = ex.L, a.self
        C = _closure(ex, lambda p, q: g.U(p, q), "rtcU")
        return VFam(lambda r: g.N(r), lambda r, x: L.And(g.N(x), C(r, x)))


@contract(f"{G}.get_district", props=["C14"])
class _(Contract):
    params = {"self": "graph", "node": "node"}
    allowed_raises = ("KeyError",)

    def raises(self, ex, a):
        return {"KeyError": ex.L.Not(a.self.N(a.node.t))}

    def spec(self, ex, a):
        L, g = ex.L, a.self
        C = _closure(ex, lambda p, q: g.U(p, q), "rtcU")
        return VSet(lambda x: L.And(g.N(x), C(a.node.t, x)))


@contract(f"{G}.is_connected", props=["C14", "C02"])
class _(Contract):
    params = {"self": "graph"}
    allowed_raises = ("NetworkXPointlessConcept",)

    def raises(self, ex, a):
        return {"NetworkXPointlessConcept": ex.L.Not(ex.L.exists(1, lambda x: a.self.N(x)))}

    def spec(self, ex, a):
        L, g = ex.L, a.self
        C = _closure(ex, lambda p, q: g.U(p, q), "rtcU")
        return VBool(L.forall(2, lambda p, q: L.Implies(L.And(g.N(p), g.N(q)), C(p, q))))


@contract(f"{G}.get_markov_pillow", props=["C14"])
class _(Contract):
    """Pa(S) minus S.  networkx raises on a member that is not a node."""
    params = {"self": "graph", "nodes": "nodeset"}
    allowed_raises = ("NetworkXError",)

    def adapt(self, ex, env):
        a = super().adapt(ex, env)
        a.S = as_nodes(ex, a.nodes)
        return a

    def raises(self, ex, a):
        L = ex.L
        return {"NetworkXError": L.exists(1, lambda s: L.And(a.S.has(s), L.Not(a.self.N(s))))}

    def spec(self, ex, a):
        L, g, S = ex.L, a.self, a.S
        return VSet(lambda p: L.And(L.Not(S.has(p)), L.exists(1, lambda n: L.And(S.has(n), g.D(p, n)))))


@contract(f"{G}.get_markov_blanket", props=["C14"])
class _(Contract):
    """(Pa(S) | Ch(S) | Pa(Ch(S))) minus S."""
    params = {"self": "graph", "nodes": NODES_ARG}
    allowed_raises = ("NetworkXError",)

    def adapt(self, ex, env):
        a = super().adapt(ex, env)
        a.S = as_nodes(ex, a.nodes)
        return a

    def raises(self, ex, a):
        L = ex.L
        return {"NetworkXError": L.exists(1, lambda s: L.And(a.S.has(s), L.Not(a.self.N(s))))}

    def spec(self, ex, a):
        L, g, S = ex.L, a.self, a.S
        pa = lambda p: L.exists(1, lambda n: L.And(S.has(n), g.D(p, n)))
        ch = lambda c: L.exists(1, lambda n: L.And(S.has(n), g.D(n, c)))
        pach = lambda p: L.exists(2, lambda n, c: L.And(S.has(n), g.D(n, c), g.D(p, c)))
        return VSet(lambda x: L.And(L.Not(S.has(x)), L.Or(pa(x), ch(x), pach(x))))


@contract(f"{G}.moralize", props=["C14", "C04"])
class _(Contract):
    """Same nodes and directed edges; bidirected edges plus a link between every two distinct co-parents."""
    params = {"self": "graph"}

    def spec(self, ex, a):
        L, g = ex.L, a.self
        co = lambda p, q: L.And(p != q, L.exists(1, lambda n: L.And(g.D(p, n), g.D(q, n))))
        return mk_graph(lambda x: g.N(x), lambda p, q: g.D(p, q), lambda p, q: L.Or(g.U(p, q), co(p, q)))


@contract(f"{G}.disorient", props=["C14", "C04"])
class _(Contract):
    """The undirected graph on the same nodes with an edge wherever there is a directed (either way) or bidirected edge."""
    params = {"self": "graph"}

    def spec(self, ex, a):
        L, g = ex.L, a.self
        return VNx(False, lambda x: g.N(x), lambda p, q: L.Or(g.D(p, q), g.D(q, p), g.U(p, q)), owned=True)


@contract(f"{G}.copy", props=["C14"])
class _(Contract):
    params = {"self": "graph"}

    def spec(self, ex, a):
        g = a.self
        return mk_graph(lambda x: g.N(x), lambda p, q: g.D(p, q), lambda p, q: g.U(p, q))


@contract(f"{G}.pre", props=["C14"])
class _(Contract):
    """The maximal prefix of the order that is disjoint from the node set (explicit order), in the same order."""
    params = {"self": "graph", "nodes": NODES_ARG, "topological_sort_order": ("seq", "none")}
    allowed_raises = ("TypeError", "NetworkXUnfeasible")

    def adapt(self, ex, env):
        a = super().adapt(ex, env)
        a.S = as_nodes(ex, a.nodes)
        a.explicit = isinstance(getattr(a, "topological_sort_order", None), VSeq)
        return a

    def raises(self, ex, a):
        L = ex.L
        out = {"TypeError": L.Not(no_interventions(ex, a.S))}
        if a.explicit:
            o = a.topological_sort_order
            # an empty explicit order is replaced by the graph's own order, which raises on a cyclic graph
            ac, _ = _acyclic(ex, a.self)
            out["NetworkXUnfeasible"] = L.And(L.Not(L.exists(1, lambda x: o.mem(x))), L.Not(ac))
        else:
            ac, _ = _acyclic(ex, a.self)
            out["NetworkXUnfeasible"] = L.Not(ac)
        return out

    def post(self, ex, a, res):
        L, g, S = ex.L, a.self, a.S
        if isinstance(res, VSet) and getattr(res, "seq_view", None) is not None:
            res = res.seq_view
        if not isinstance(res, VSeq):
            return {"type": L.F()}
        out = {"disjoint": L.forall(1, lambda x: L.Not(L.And(res.mem(x), S.has(x))))}
        if a.explicit:
            o = a.topological_sort_order
            nonempty = L.exists(1, lambda x: o.mem(x))
            blocked = lambda x: L.exists(1, lambda s: L.And(S.has(s), o.mem(s), L.Or(s == x, o.before(s, x))))
            out["members"] = L.Implies(nonempty, L.forall(1, lambda x: res.mem(x) == L.And(o.mem(x), L.Not(blocked(x)))))
            out["order"] = L.Implies(nonempty, L.forall(2, lambda p, q: L.Implies(L.And(res.mem(p), res.mem(q)),
                                                                              res.before(p, q) == o.before(p, q))))
        out["nodes"] = L.Implies(L.T() if not a.explicit else L.Not(L.exists(1, lambda x: a.topological_sort_order.mem(x))),
                                 L.forall(1, lambda x: L.Implies(res.mem(x), g.N(x))))
        out["ancestral"] = L.Implies(L.T() if not a.explicit else L.Not(L.exists(1, lambda x: a.topological_sort_order.mem(x))),
                                     L.forall(2, lambda p, q: L.Implies(L.And(res.mem(q), g.D(p, q)), L.And(res.mem(p), res.before(p, q)))))
        return out


@contract("y0.graph.get_nodes_in_directed_paths", props=["C14"])
class _(Contract):
    """On an acyclic graph: the nodes on directed paths from a source to a different target."""
    params = {"graph": "graph", "sources": NODES_ARG, "targets": NODES_ARG}
    allowed_raises = ("TypeError",)

    def adapt(self, ex, env):
        a = super().adapt(ex, env)
        a.S, a.T = as_nodes(ex, a.sources), as_nodes(ex, a.targets)
        return a

    def pre(self, ex, a):
        ac, _ = _acyclic(ex, a.graph)
        return [("acyclic", ac)]

    def raises(self, ex, a):
        L = ex.L
        return {"TypeError": L.Or(L.Not(no_interventions(ex, a.S)), L.Not(no_interventions(ex, a.T)))}

    def spec(self, ex, a):
        L, g = ex.L, a.graph
        C = _closure(ex, lambda p, q: g.D(p, q), "rtcD")
        return VSet(lambda n: L.exists(2, lambda s, t: L.And(a.S.has(s), a.T.has(t), s != t, g.N(s), g.N(t), C(s, n), C(n, t))))


@contract(f"{G}.get_intervened_ancestors", props=["C02"])
class _(Contract):
    """An(outcomes) in the graph with the edges into the interventions removed."""
    params = {"self": "graph", "interventions": NODES_ARG, "outcomes": NODES_ARG}
    allowed_raises = ("TypeError", "NetworkXError")

    def adapt(self, ex, env):
        a = super().adapt(ex, env)
        a.X, a.Y = as_nodes(ex, a.interventions), as_nodes(ex, a.outcomes)
        return a

    def raises(self, ex, a):
        L = ex.L
        ok = L.And(no_interventions(ex, a.X), no_interventions(ex, a.Y))
        return {"TypeError": L.Not(ok),
                "NetworkXError": L.And(ok, L.exists(1, lambda s: L.And(a.Y.has(s), L.Not(a.self.N(s)))))}

    def spec(self, ex, a):
        L, g = ex.L, a.self
        C = _closure(ex, lambda p, q: L.And(g.D(p, q), L.Not(a.X.has(q))), "rtcDx")
        return VSet(lambda u: L.exists(1, lambda s: L.And(a.Y.has(s), C(u, s))))


@contract(f"{G}.intervene", props=["C14"])
class _(Contract):
    """The image of the graph under v -> v.intervene(S), with the edges into intervened nodes dropped: a directed edge survives
    unless its head is intervened on (+head or -head in S), a bidirected edge unless either end is."""
    params = {"self": "graph", "variables": "nodeset"}
    allowed_raises = ("ValueError",)
    finite_ok = False      # creates nodes outside any fixed finite universe

    def raises(self, ex, a):
        L, g, S = ex.L, a.self, a.variables
        nonempty_graph = L.exists(1, lambda v: g.N(v))
        return {"ValueError": L.And(nonempty_graph, L.Not(L.exists(1, lambda i: S.has(i))))}

    def pre(self, ex, a):
        # the declared type of `variables` is set[Intervention]; plain Variables would be converted by Variable.intervene (to
        # Intervention(name, star=False)), which is outside the model of the Variable algebra -- hence a precondition, not a clause
        L, g, S = ex.L, a.self, a.variables
        return [("plain-nodes", L.forall(1, lambda v: L.Implies(g.N(v), L.And(L.Not(L.is_cf(v)), L.Not(L.is_intervention(v)))))),
                ("members-are-interventions", L.forall(1, lambda i: L.Implies(S.has(i), L.is_intervention(i))))]

    def spec(self, ex, a):
        from y0vc import exprs
        L, g, S = ex.L, a.self, a.variables
        at = L.intervene_axioms()
        A = exprs.theory(ex).set_to_array(S)
        f = lambda v: at(A, v)
        free = lambda v: L.And(L.Not(S.has(L.iv_plus(v))), L.Not(S.has(L.iv_minus(v))))
        return mk_graph(lambda x: L.exists(1, lambda v: L.And(g.N(v), x == f(v))),
                        lambda p, q: L.exists(2, lambda u, v: L.And(g.D(u, v), free(v), p == f(u), q == f(v))),
                        lambda p, q: L.exists(2, lambda u, v: L.And(g.U(u, v), free(u), free(v), p == f(u), q == f(v))))


@contract(f"{G}.__eq__", props=["C14"])
class _(Contract):
    """Graph equality (the relation every C14 clause and every round-trip claim is stated in): equal node sets, equal directed edge
    sets, equal bidirected edge sets (unordered)."""
    params = {"self": "graph", "other": "graph"}

    def spec(self, ex, a):
        L, g, h = ex.L, a.self, a.other
        return VBool(L.And(L.forall(1, lambda x: g.N(x) == h.N(x)),
                           L.forall(2, lambda p, q: g.D(p, q) == h.D(p, q)),
                           L.forall(2, lambda p, q: g.U(p, q) == h.U(p, q))))
