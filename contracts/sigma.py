"""Contracts for y0/algorithm/separation/sigma_separation.py (C20): the per-triple predicates and the sigma classes, in the
exact theory of relations.  The symmetry of the verdict reduces to the mirror symmetry of the triple predicate (proved
here); the path enumeration itself (networkx.all_simple_paths, more_itertools.triplewise) is outside the subset."""
from __future__ import annotations

import z3

from y0vc.contract import Contract, contract, same_value
from y0vc.values import VBool, VDict, VSet

SS = "y0.algorithm.separation.sigma_separation"


def either(g, u, v):
    return z3.Or(g.D(u, v), g.U(u, v))


def open_collider(ex, g, C, l, m, r):
    L = ex.L
    rD = ex.closure(lambda p, q: g.D(p, q), "rtcD")
    return L.And(either(g, l, m), either(g, r, m), L.exists(1, lambda c: L.And(C.has(c), rD(m, c))))


def sg(sigma, n, x):
    return sigma.val(n).has(x)


def left_chain(ex, g, C, sigma, l, m, r):
    L = ex.L
    return L.And(g.D(m, l), either(g, r, m), L.Or(L.Not(C.has(m)), sg(sigma, l, m)))


def right_chain(ex, g, C, sigma, l, m, r):
    L = ex.L
    return L.And(either(g, l, m), g.D(m, r), L.Or(L.Not(C.has(m)), sg(sigma, r, m)))


def fork(ex, g, C, sigma, l, m, r):
    L = ex.L
    return L.And(g.D(m, l), g.D(m, r), L.Or(L.Not(C.has(m)), L.And(sg(sigma, l, m), sg(sigma, r, m))))


def helper(ex, g, C, sigma, l, m, r):
    return ex.L.Or(open_collider(ex, g, C, l, m, r), left_chain(ex, g, C, sigma, l, m, r), right_chain(ex, g, C, sigma, l, m, r),
                   fork(ex, g, C, sigma, l, m, r))


class _Triple(Contract):
    params = {"graph": "graph", "left": "node", "middle": "node", "right": "node", "conditions": "nodeset", "sigma": "nodemap"}
    allowed_raises = ("KeyError", "NetworkXError")
    raises_exact = False
    with_sigma = True

    def pre(self, ex, a):
        L, g = ex.L, a.graph
        return [("nodes", L.And(g.N(a.left.t), g.N(a.middle.t), g.N(a.right.t))),
                ("sigma-total", L.forall(1, lambda v: L.Implies(g.N(v), a.sigma.dom(v))))] if self.with_sigma else \
               [("nodes", L.And(g.N(a.left.t), g.N(a.middle.t), g.N(a.right.t)))]

    def raises(self, ex, a):
        return {"KeyError": ex.L.F(), "NetworkXError": ex.L.F()}

    def spec_formula(self, ex, a):
        raise NotImplementedError

    def spec(self, ex, a):
        return VBool(self.spec_formula(ex, a))


def _triple(name, fn, with_sigma=True, extra_clause=None):
    @contract(f"{SS}.{name}", props=["C20"])
    class _(_Triple):
        pass
    from y0vc.contract import REGISTRY
    c = REGISTRY[f"{SS}.{name}"]
    c.with_sigma = with_sigma
    if not with_sigma:
        c.params = {k: v for k, v in _Triple.params.items() if k != "sigma"}
    c.spec_formula = lambda ex, a: fn(ex, a)
    if extra_clause:
        base_post = c.post

        def post(ex, a, res):
            out = Contract.post(c, ex, a, res)
            out.update(extra_clause(ex, a))
            return out
        c.post = post
    return c


_triple("is_collider", lambda ex, a: open_collider(ex, a.graph, a.conditions, a.left.t, a.middle.t, a.right.t), with_sigma=False)
_triple("is_non_collider_left_chain", lambda ex, a: left_chain(ex, a.graph, a.conditions, a.sigma, a.left.t, a.middle.t, a.right.t))
_triple("is_non_collider_right_chain", lambda ex, a: right_chain(ex, a.graph, a.conditions, a.sigma, a.left.t, a.middle.t, a.right.t))
_triple("is_non_collider_fork", lambda ex, a: fork(ex, a.graph, a.conditions, a.sigma, a.left.t, a.middle.t, a.right.t))
_triple("_triple_helper", lambda ex, a: helper(ex, a.graph, a.conditions, a.sigma, a.left.t, a.middle.t, a.right.t),
        extra_clause=lambda ex, a: {"mirror-symmetric": helper(ex, a.graph, a.conditions, a.sigma, a.left.t, a.middle.t, a.right.t)
                                    == helper(ex, a.graph, a.conditions, a.sigma, a.right.t, a.middle.t, a.left.t)})


@contract(f"{SS}.get_equivalence_classes", props=["C20"])
class _(Contract):
    """sigma(v) = the strongly connected component of v in the directed part (ancestors & descendants of v)"""
    params = {"graph": "graph"}

    def post(self, ex, a, res):
        L, g = ex.L, a.graph
        if not isinstance(res, VDict):
            return {"type": L.F()}
        rD = ex.closure(lambda p, q: g.D(p, q), "rtcD")
        return {"domain": L.forall(1, lambda v: res.dom(v) == g.N(v)),
                "classes": L.forall(2, lambda v, x: L.Implies(g.N(v), res.val(v).has(x) == L.And(rD(x, v), rD(v, x)))),
                "singletons-when-acyclic": L.Implies(L.forall(2, lambda p, q: L.Not(L.And(g.D(p, q), rD(q, p)))),
                                                     L.forall(2, lambda v, x: L.Implies(L.And(g.N(v), res.val(v).has(x)), x == v)))}


def augmented(ex, g, C, sigma, l, m, r):
    """the triple test with the one-step backtrack: the plain test, or through some neighbour n != m of the middle node:
    (l, m, n), (m, n, m) and (n, m, r) all pass"""
    L = ex.L
    nb = lambda n: L.And(n != m, L.Or(g.D(m, n), g.D(n, m), g.U(m, n)))
    return L.Or(helper(ex, g, C, sigma, l, m, r),
                L.exists(1, lambda n: L.And(nb(n), helper(ex, g, C, sigma, l, m, n), helper(ex, g, C, sigma, m, n, m),
                                            helper(ex, g, C, sigma, n, m, r))))


_triple("_triple_has_correct_form", lambda ex, a: augmented(ex, a.graph, a.conditions, a.sigma, a.left.t, a.middle.t, a.right.t),
        extra_clause=lambda ex, a: {"mirror-symmetric": augmented(ex, a.graph, a.conditions, a.sigma, a.left.t, a.middle.t, a.right.t)
                                    == augmented(ex, a.graph, a.conditions, a.sigma, a.right.t, a.middle.t, a.left.t)})


@contract(f"{SS}.is_z_sigma_open", props=["C20"])
class _(Contract):
    """A (simple) path is Z-sigma-open iff neither end point is conditioned on and every triple of consecutive nodes passes the
    backtrack-augmented triple test."""
    params = {"graph": "graph", "path": "seq", "sigma": "nodemap", "conditions": ("nodeset", "none", "omit")}
    allowed_raises = ("IndexError", "KeyError", "NetworkXError")
    raises_exact = False

    def adapt(self, ex, env):
        from y0vc.values import VSet, VNone
        a = super().adapt(ex, env)
        c = env.get("conditions")
        a.Z = c if isinstance(c, VSet) else VSet(lambda x: ex.L.F())
        return a

    def pre(self, ex, a):
        L, g = ex.L, a.graph
        return [("path-in-graph", L.forall(1, lambda v: L.Implies(a.path.mem(v), g.N(v)))),
                ("sigma-total", L.forall(1, lambda v: L.Implies(g.N(v), a.sigma.dom(v))))]

    def raises(self, ex, a):
        L = ex.L
        return {"IndexError": L.Not(L.exists(1, lambda x: a.path.mem(x))), "KeyError": L.F(), "NetworkXError": L.F()}

    def spec(self, ex, a):
        L, g, p = ex.L, a.graph, a.path
        first = lambda e: L.And(p.mem(e), L.Not(L.exists(1, lambda x: p.before(x, e))))
        last = lambda e: L.And(p.mem(e), L.Not(L.exists(1, lambda x: p.before(e, x))))
        succ = lambda u, v: L.And(p.before(u, v), L.Not(L.exists(1, lambda x: L.And(p.before(u, x), p.before(x, v)))))
        ends = L.forall(1, lambda e: L.Implies(L.Or(first(e), last(e)), L.Not(a.Z.has(e))))
        triples = L.forall(3, lambda l, m, r: L.Implies(L.And(p.mem(l), p.mem(m), p.mem(r), succ(l, m), succ(m, r)),
                                                        augmented(ex, g, a.Z, a.sigma, l, m, r)))
        return VBool(L.And(ends, triples))
