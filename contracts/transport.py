"""Contracts for y0/algorithm/transport.py (C05): the derivation of the selection diagrams and the first TRSO line."""
from __future__ import annotations

import z3

import contracts.dsl_bounded  # noqa: F401
from y0vc.contract import Contract, as_nodes, contract, mk_graph
from y0vc.exprs import VExpr, theory
from y0vc.values import VBool, VSet

TR = "y0.algorithm.transport"


@contract(f"{TR}.get_nodes_to_transport", props=["C05"])
class _(Contract):
    """The nodes whose mechanism may differ in a source domain with experiments on Z and surrogate outcomes W (Tikka & Karvanen):
    (De(Z) - W)  |  (the districts meeting W  -  An(W) in G with the edges into Z removed)."""
    params = {"surrogate_interventions": ("nodeset", "node"), "surrogate_outcomes": ("nodeset", "node"), "graph": "graph"}
    allowed_raises = ("TypeError", "NetworkXError")

    def adapt(self, ex, env):
        a = super().adapt(ex, env)
        a.Z, a.W = as_nodes(ex, a.surrogate_interventions), as_nodes(ex, a.surrogate_outcomes)
        return a

    def raises(self, ex, a):
        L, g = ex.L, a.graph
        bad = L.exists(1, lambda v: L.And(L.Or(a.Z.has(v), a.W.has(v)), L.is_intervention(v)))
        return {"TypeError": bad,
                "NetworkXError": L.And(L.Not(bad), L.exists(1, lambda v: L.And(L.Or(a.Z.has(v), a.W.has(v)), L.Not(g.N(v)))))}

    def spec(self, ex, a):
        L, g, Z, W = ex.L, a.graph, a.Z, a.W
        rD = ex.closure(lambda p, q: g.D(p, q), "rtcD")
        rU = ex.closure(lambda p, q: g.U(p, q), "rtcU")
        rDz = ex.closure(lambda p, q: L.And(g.D(p, q), L.Not(Z.has(q))), "rtcDz")
        de_z = lambda v: L.exists(1, lambda z: L.And(Z.has(z), rD(z, v)))
        cw = lambda v: L.And(g.N(v), L.exists(1, lambda w: L.And(W.has(w), g.N(w), rU(w, v))))
        an_w = lambda v: L.exists(1, lambda w: L.And(W.has(w), rDz(v, w)))
        return VSet(lambda v: L.Or(L.And(de_z(v), L.Not(W.has(v))), L.And(cw(v), L.Not(an_w(v)))))


@contract(f"{TR}.trso_line1", props=["C05"])
class _(Contract):
    """TRSO line 1: sum the expression over the regular (non-selection) nodes other than the outcomes."""
    domain = "graph+expr"
    params = {"target_outcomes": "nodeset", "expression": "expr", "graph": "graph"}

    def pre(self, ex, a):
        L = ex.L
        return [("plain-nodes", L.forall(1, lambda v: L.Implies(a.graph.N(v), L.And(L.Not(L.is_intervention(v)), L.Not(L.is_cf(v))))))]

    def post(self, ex, a, res):
        T = theory(ex)
        L = ex.L
        if not isinstance(res, VExpr):
            return {"type": L.F()}
        ist = L.is_transport
        R = VSet(lambda v: L.And(a.graph.N(v), L.Not(ist(v)), L.Not(a.target_outcomes.has(v))))
        sv, oks = T.sumv(T.set_to_array(R), a.expression.t)
        return {"ranges": z3.Implies(oks, z3.And(T.ok(res.t), T.den(res.t) == sv)),
                "no-selection-node-summed": L.forall(1, lambda v: L.Implies(R.has(v), L.Not(ist(v))))}


@contract(f"{TR}.create_transport_diagram", props=["C05"])
class _(Contract):
    """The selection diagram: the graph plus, for every node to transport, a fresh selection node T_v with the single edge T_v -> v."""
    params = {"nodes_to_transport": "nodeset", "graph": "graph"}
    allowed_raises = ("TypeError",)
    finite_ok = False     # the function creates nodes outside any fixed finite universe

    def pre(self, ex, a):
        L, g = ex.L, a.graph
        from y0vc.libspec import _transport_axioms
        _transport_axioms(L)
        return [("no-selection-node-in-input", L.forall(1, lambda v: L.Implies(g.N(v), L.Not(L.is_transport(v))))),
                ("transported-in-graph", L.forall(1, lambda v: L.Implies(a.nodes_to_transport.has(v), g.N(v))))]

    def raises(self, ex, a):
        L = ex.L
        return {"TypeError": L.exists(1, lambda v: L.And(a.nodes_to_transport.has(v), L.Or(L.is_intervention(v), L.is_cf(v))))}

    def spec(self, ex, a):
        L, g, S = ex.L, a.graph, a.nodes_to_transport
        T = L.transport
        isT = lambda x: L.exists(1, lambda v: L.And(S.has(v), x == T(v)))
        return mk_graph(lambda x: L.Or(g.N(x), isT(x)),
                        lambda p, q: L.Or(g.D(p, q), L.And(S.has(q), p == T(q))),
                        lambda p, q: g.U(p, q))


# ------------------------------------------------------------------------------------------------ selection-node helpers
@contract(f"{TR}.get_transport_nodes", props=["C05", "C06"])
class _(Contract):
    """exactly the selection (transport) nodes of the graph"""
    params = {"graph": "graph"}
    finite_ok = False     # `is a selection node` is a property of the node's name: the finite universes of the replay side have no such names

    def spec(self, ex, a):
        L, g = ex.L, a.graph
        from y0vc.libspec import _transport_axioms
        _transport_axioms(L)
        return VSet(lambda v: L.And(g.N(v), L.is_transport(v), L.Not(L.is_cf(v)), L.Not(L.is_intervention(v))))


@contract(f"{TR}.get_regular_nodes", props=["C05", "C06"])
class _(Contract):
    """exactly the nodes of the graph that are not selection nodes"""
    params = {"graph": "graph"}
    finite_ok = False

    def spec(self, ex, a):
        L, g = ex.L, a.graph
        from y0vc.libspec import _transport_axioms
        _transport_axioms(L)
        return VSet(lambda v: L.And(g.N(v), L.Not(L.And(L.is_transport(v), L.Not(L.is_cf(v)), L.Not(L.is_intervention(v))))))
