"""Contracts for the Evans simplification rules of y0/algorithm/simplify_latent.py (C16).

Each rule works *in place* on a tagged DAG and returns `(graph, removed)`.  The contract pins the exact node/edge delta of the
rule for every DAG (all sizes): which latents are removed, that nothing else is, that the surviving edges and tags are untouched.
That the rule preserves the latent projection is Evans' lemma (trusted mathematics, not re-proved); the composition of the rules
(`simplify_latent_dag`, a fixed-point loop) is decided by the bounded stand-in of props/C16.py.
"""
from __future__ import annotations

import z3

from y0vc.contract import Contract, contract
from y0vc.values import VNx, VSet, VTuple

M = "y0.algorithm.simplify_latent"
HID = "hidden"


class _Rule(Contract):
    params = {"graph": "tagged_dag", "tag": ("omit", "none", ("const", "hidden"))}
    frame = "mutates:graph"
    inline_only = True          # callers (the fixed-point loop) keep reading the body
    allowed_raises = ()

    def variants(self):
        return [{"graph": "tagged_dag", "tag": "omit"}, {"graph": "tagged_dag", "tag": "none"},
                {"graph": "tagged_dag", "tag": ("const", "STR:hidden")}]

    def make_inputs(self, L, variant):
        from y0vc.values import VStr
        v2 = {p: k for p, k in variant.items() if not (isinstance(k, tuple) and k[1] == "STR:hidden")}
        env, wf, probes = super().make_inputs(L, v2)
        if "tag" in variant and isinstance(variant["tag"], tuple):
            env["tag"] = VStr(HID)
        return env, wf, probes

    def pre(self, ex, a):
        from y0vc.libspec import acyclic
        L, g = ex.L, a.graph
        has, _ = g.nattrs[HID]
        ac, _ = acyclic(ex, lambda p, q: g.E(p, q))
        return [("acyclic", ac), ("all-tagged", L.forall(1, lambda x: L.Implies(g.N(x), has(x))))]

    # which nodes the rule removes, over the entry state
    def removed(self, ex, a):
        raise NotImplementedError

    def post(self, ex, a, res):
        L, g = ex.L, a.graph
        if not (isinstance(res, VTuple) and len(res.items) == 2 and isinstance(res.items[0], VNx) and isinstance(res.items[1], VSet)):
            return {"type": L.F()}
        out_g, out_s = res.items
        rem = self.removed(ex, a)
        has0, hid0 = g.nattrs[HID]
        clauses = {
            "removed-set": L.forall(1, lambda x: out_s.has(x) == rem(x)),
            # stated over the returned set (which `removed-set` pins to the rule's definition): the conjunction is the exact delta
            "nodes": L.forall(1, lambda x: out_g.N(x) == L.And(g.N(x), L.Not(out_s.has(x)))),
            "edges": L.forall(2, lambda p, q: out_g.E(p, q) == L.And(g.E(p, q), L.Not(out_s.has(p)), L.Not(out_s.has(q)))),
        }
        if HID in out_g.nattrs:
            h1, v1 = out_g.nattrs[HID]
            clauses["tags"] = L.forall(1, lambda x: L.Implies(out_g.N(x), L.And(h1(x), v1(x) == hid0(x))))
        else:
            # no node of the result carries the tag: only correct if no node is left (a concrete empty graph has no attributes)
            clauses["tags"] = L.forall(1, lambda x: L.Not(out_g.N(x)))
        return clauses


def _lat(L, g):
    _, hid = g.nattrs[HID]
    return lambda x: L.And(g.N(x), hid(x))


@contract(f"{M}.remove_widow_latents", props=["C16"])
class _(_Rule):
    """Removes exactly the latent nodes without children."""
    def removed(self, ex, a):
        L, g = ex.L, a.graph
        lat = _lat(L, g)
        return lambda x: L.And(lat(x), L.Not(L.exists(1, lambda c: g.E(x, c))))


@contract(f"{M}.remove_unidirectional_latents", props=["C16"])
class _(_Rule):
    """Removes exactly the latent nodes with exactly one child."""
    def removed(self, ex, a):
        L, g = ex.L, a.graph
        lat = _lat(L, g)
        return lambda x: L.And(lat(x), L.exists(1, lambda c: L.And(g.E(x, c), L.forall(1, lambda d: L.Implies(g.E(x, d), d == c)))))


@contract(f"{M}.remove_redundant_latents", props=["C16"])
class _(_Rule):
    """Removes exactly the latents whose child set is a proper subset of another latent's child set, and, among latents with
    equal child sets, all but the one that is least in the variable order."""
    def removed(self, ex, a):
        L, g = ex.L, a.graph
        lat = _lat(L, g)
        lt = L.var_order()
        ch_sub = lambda x, y: L.forall(1, lambda c: L.Implies(g.E(x, c), g.E(y, c)))
        ch_eq = lambda x, y: L.forall(1, lambda c: g.E(x, c) == g.E(y, c))
        return lambda x: L.And(lat(x), L.exists(1, lambda y: L.And(lat(y), L.Or(
            L.And(ch_eq(x, y), lt(y, x)),
            L.And(ch_sub(x, y), L.Not(ch_eq(x, y)))))))
