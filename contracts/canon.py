"""Contracts for y0/mutate/canonicalize_expr.py (C10).

Canonicalizer.canonicalize is proved, by structural induction through its own contract, to preserve the denotation of every
well-formed expression (in every environment), relative to the assumed leaf contracts: Sum.safe / Sum.simplify (probability
facts), _canonicalize_probability (a probability term denotes a function of its child and parent *sets*), _flatten_product."""
from __future__ import annotations

import z3

from y0vc.contract import REGISTRY, Contract, contract
from y0vc.exprs import VESeq, VExpr, theory
from y0vc.values import VObj
from contracts.dsl_bounded import _Bounded, _cmp, _register
from y0vc import exproracle as xo
from y0vc.concrete import y0mod

M = "y0.mutate.canonicalize_expr"


def sym_canonicalizer(L, name):
    from y0vc.contract import Probe, _REPO
    cls = _REPO[0].resolve(f"{M}.Canonicalizer")
    return VObj(cls, {}, owned=False), [], Probe(name, "opaque", ())


import y0vc.contract as _yc
_yc.BUILDERS["canonicalizer"] = sym_canonicalizer


class _CanonBase(Contract):
    domain = "expr"
    params = {"self": "canonicalizer", "expression": "expr"}
    den_preserving = True

    def _post(self, ex, a, res):
        T = theory(ex)
        if not isinstance(res, VExpr):
            return {"type": ex.L.F()}
        x = a.expression.t
        return {"ok": z3.Implies(T.ok(x), T.ok(res.t)), "den": z3.Implies(T.ok(x), T.den(res.t) == T.den(x))}

    def result(self, ex, a):
        T = theory(ex)
        r = T.fresh("canon")
        x = a.expression.t
        ex.assume(z3.Implies(T.ok(x), z3.And(T.ok(r), T.den(r) == T.den(x))))
        T.eqv.append((x, r))
        return VExpr(r)


@contract(f"{M}.Canonicalizer.canonicalize", props=["C10"])
class _(_CanonBase):
    """den(canonicalize(e)) = den(e) wherever e is defined; TypeError only for expressions containing a QFactor."""
    allowed_raises = ("TypeError", "ZeroDivisionError")
    raises_exact = False

    def raises(self, ex, a):
        T = theory(ex)
        return {"TypeError": z3.Not(T.noq(a.expression.t)), "ZeroDivisionError": z3.Not(T.ok(a.expression.t))}

    def post(self, ex, a, res):
        return self._post(ex, a, res)

    def seq_no_raise(self, ex, self_val, seq: VESeq):
        T = theory(ex)
        return {"TypeError": T.noqs(seq.t), "ZeroDivisionError": T.OKS(seq.t)}

    def sample_args(self, pool, rng):
        e = pool.gen(rng.randint(0, 3))
        if not xo.well_scoped(e):
            return None
        return {"e": e, "order": rng.sample(xo.NAMES, len(xo.NAMES))}

    def call_real(self, args):
        dsl = y0mod("y0.dsl")
        c = y0mod(M).Canonicalizer([dsl.Variable(n) for n in args["order"]])
        return c.canonicalize(args["e"])

    def judge(self, args, out, models):
        dsl = y0mod("y0.dsl")
        if out[0] == "raise":
            if out[1] == "TypeError" and "Q[" in str(args["e"]):
                return None
            if out[1] == "ZeroDivisionError":
                return None if any(v is None for m in models for v in xo.values(args["e"], m)) else "ZeroDivisionError on a defined expression"
            return f"raised {out[1]}"
        return _cmp(lambda m, env: xo.ev(args["e"], env, m), out[1], models)


@contract(f"{M}.Canonicalizer._canonicalize_probability", props=["C10"])
class _(_CanonBase):
    """Reordering children / parents does not change what a probability term denotes (assumed: depends on sets only)."""
    assumed = True

    def post(self, ex, a, res):
        return {}

    def result(self, ex, a):
        T = theory(ex)
        r = T.fresh("cprob")
        x = a.expression.t
        ex.assume(z3.And(T.ok(r) == T.ok(x), T.den(r) == T.den(x), T.cls(r) == T.cls(x), T.noq(r)))
        return VExpr(r)

    def sample_args(self, pool, rng):
        return {"e": rng.choice(pool.atoms[:-1]), "order": rng.sample(xo.NAMES, len(xo.NAMES))}

    def call_real(self, args):
        dsl = y0mod("y0.dsl")
        if not isinstance(args["e"], dsl.Probability):
            return args["e"]
        c = y0mod(M).Canonicalizer([dsl.Variable(n) for n in args["order"]])
        return c._canonicalize_probability(args["e"])

    def judge(self, args, out, models):
        if out[0] == "raise":
            return f"raised {out[1]}"
        return _cmp(lambda m, env: xo.ev(args["e"], env, m), out[1], models)


@contract(f"{M}._flatten_product", props=["C10"])
class _(Contract):
    """The factors of a product with nested products spliced in: same product of denotations (assumed; recursive generator)."""
    domain = "expr"
    assumed = True
    params = {"product": "expr"}

    def post(self, ex, a, res):
        return {}

    def result(self, ex, a):
        T = theory(ex)
        return VESeq(T.regs(T.flat(T.regs(T.expressions(a.product.t)))))

    def sample_args(self, pool, rng):
        return {"product": pool.gen(rng.randint(1, 3), cls="Product")}

    def call_real(self, args):
        return list(y0mod(M)._flatten_product(args["product"]))

    def judge(self, args, out, models):
        from fractions import Fraction as Fr
        dsl = y0mod("y0.dsl")
        if out[0] == "raise":
            return f"raised {out[1]}"
        if any(isinstance(x, dsl.Product) for x in out[1]):
            return "a nested product survived flattening"
        for m in models:
            want = xo.values(args["product"], m)
            for i in range(8):
                if want[i] is None:
                    continue
                got = Fr(1)
                for x in out[1]:
                    got *= xo.values(x, m)[i]
                if got != want[i]:
                    return f"product of the flattened factors is {got} at assignment #{i}, expected {want[i]}"
        return None


# ---- top-level entry points (constructor of Canonicalizer, ensure_ordering: dict/enumerate code outside the subset) -- bounded
def _s_top(pool, rng):
    e = pool.gen(rng.randint(0, 3))
    if not xo.well_scoped(e) or "Q[" in str(e):
        return None
    return {"e": e, "order": rng.choice([None, rng.sample(xo.NAMES, len(xo.NAMES))])}


def _c_top(a):
    dsl = y0mod("y0.dsl")
    return y0mod(M).canonicalize(a["e"], None if a["order"] is None else [dsl.Variable(n) for n in a["order"]])


def _j_top(args, out, models):
    if out[0] == "raise":
        if out[1] == "ZeroDivisionError" and any(v is None for m in models for v in xo.values(args["e"], m)):
            return None
        return f"raised {out[1]}"
    return _cmp(lambda m, env: xo.ev(args["e"], env, m), out[1], models)


_register(f"{M}.canonicalize", ["C10"], _s_top, _c_top, _j_top, "canonicalize(e, ordering) denotes e")


def _s_eq(pool, rng):
    a = pool.gen(rng.randint(0, 2))
    k = rng.random()
    if k < 0.5:
        b = pool.gen(rng.randint(0, 2))
    else:      # a presentation variant of a, or a near miss
        dsl = y0mod("y0.dsl")
        b = a
        if isinstance(a, dsl.Product):
            xs = list(a.expressions)
            rng.shuffle(xs)
            if rng.random() < 0.3:
                xs[0] = pool.atom()
            b = dsl.Product(tuple(xs))
    if not (xo.well_scoped(a) and xo.well_scoped(b)) or "Q[" in str(a) + str(b):
        return None
    return {"a": a, "b": b}


def _j_eq(args, out, models):
    if out[0] == "raise":
        if out[1] == "ZeroDivisionError":
            return None
        return f"raised {out[1]}"
    if out[1] is True:
        for m in models:
            va, vb = xo.values(args["a"], m), xo.values(args["b"], m)
            for i in range(8):
                if va[i] is not None and vb[i] is not None and va[i] != vb[i]:
                    return f"declared canonically equal but the values differ at assignment #{i}: {va[i]} vs {vb[i]}"
    return None


_register(f"{M}.canonical_expr_equal", ["C10"], _s_eq, lambda a: y0mod(M).canonical_expr_equal(a["a"], a["b"]), _j_eq,
          "canonical_expr_equal(a, b) => a and b denote the same")
