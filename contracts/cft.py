"""Contracts for y0/algorithm/counterfactual_transport (C19): minimisation of a counterfactual variable and the district test."""
from __future__ import annotations

import z3

from y0vc.contract import Contract, contract
from y0vc.values import VBool, VNode, VSet

AU = "y0.algorithm.counterfactual_transport.ancestor_utils"
API = "y0.algorithm.counterfactual_transport.api"


@contract(f"{AU}.minimize_counterfactual", props=["C19"])
class _(Contract):
    """||Y_x|| = Y_t with t the subscripts of x whose variable is an ancestor of Y in G with the edges into X removed; the result is
    always a well-formed variable: the plain variable (same name and mark) when no subscript is relevant."""
    params = {"variable": "node", "graph": "graph"}
    allowed_raises = ("NetworkXError",)
    returns = "node"

    def _T(self, ex, a):
        L, g = ex.L, a.graph
        b, ivs, plain = L.var_algebra()
        v = a.variable.t
        X = lambda x: L.exists(1, lambda i: L.And(ivs(v, i), b(i) == x))
        C = ex.closure(lambda p, q: L.And(g.D(p, q), L.Not(X(q))), "rtcDx")
        return b, ivs, plain, v, (lambda i: L.And(ivs(v, i), C(b(i), b(v))))

    def raises(self, ex, a):
        L, g = ex.L, a.graph
        b, ivs, plain = L.var_algebra()
        v = a.variable.t
        return {"NetworkXError": L.And(L.is_cf(v), L.Not(g.N(b(v))))}

    def post(self, ex, a, res):
        L = ex.L
        if not isinstance(res, VNode):
            return {"type": L.F()}
        b, ivs, plain, v, keep = self._T(ex, a)
        r = res.t
        return {"not-counterfactual-unchanged": L.Implies(L.Not(L.is_cf(v)), r == v),
                "base": b(r) == b(v),
                "subscripts": L.Implies(L.is_cf(v), L.forall(1, lambda i: ivs(r, i) == keep(i))),
                "well-formed": L.is_cf(r) == L.exists(1, lambda i: ivs(r, i)),
                "plain-when-irrelevant": L.Implies(L.And(L.is_cf(v), L.Not(L.exists(1, lambda i: keep(i)))), r == plain(v))}


@contract(f"{API}.same_district", props=["C19"])
class _(Contract):
    """True iff the base variables of the event all lie in one district (bidirected-connectivity class); vacuously true for
    the empty event; KeyError for a base variable outside the graph."""
    params = {"event": "nodeset", "graph": "graph"}
    allowed_raises = ("KeyError",)

    def raises(self, ex, a):
        L, g = ex.L, a.graph
        b, _, _ = L.var_algebra()
        return {"KeyError": L.exists(1, lambda v: L.And(a.event.has(v), L.Not(g.N(b(v)))))}

    def spec(self, ex, a):
        L, g = ex.L, a.graph
        b, _, _ = L.var_algebra()
        C = ex.closure(lambda p, q: g.U(p, q), "rtcU")
        return VBool(L.forall(2, lambda p, q: L.Implies(L.And(a.event.has(p), a.event.has(q)), C(b(p), b(q)))))


@contract(f"{AU}.get_ancestors_of_counterfactual", props=["C19"])
class _(Contract):
    """Def. 2.1: An(Y_x) = { W_z : W in An(Y) in G with the edges out of X removed, z the subscripts of x whose variable is an
    ancestor of W in G with the edges into X removed } (W itself when z is empty); for a plain variable, its ancestors."""
    params = {"event": "node", "graph": "graph"}
    allowed_raises = ("NetworkXError", "TypeError")
    raises_exact = False
    finite_ok = False

    def pre(self, ex, a):
        L, g = ex.L, a.graph
        b, ivs, plain = L.var_algebra()
        return [("plain-nodes", L.forall(1, lambda n: L.Implies(g.N(n), L.And(L.Not(L.is_cf(n)), L.Not(L.is_intervention(n)), b(n) == n)))),
                ("in-graph", z3.If(L.is_cf(a.event.t), g.N(b(a.event.t)), g.N(a.event.t))),
                ("plain-or-cf", L.Not(L.is_intervention(a.event.t)))]

    def post(self, ex, a, res):
        L, g = ex.L, a.graph
        if not isinstance(res, VSet):
            return {"type": L.F()}
        b, ivs, plain = L.var_algebra()
        v = a.event.t
        X = lambda x: L.exists(1, lambda i: L.And(ivs(v, i), b(i) == x))
        AncOut = ex.closure(lambda p, q: L.And(g.D(p, q), L.Not(X(p))), "rtcDoutX")
        AncIn = ex.closure(lambda p, q: L.And(g.D(p, q), L.Not(X(q))), "rtcDinX")
        Z = lambda w, i: L.And(ivs(v, i), AncIn(b(i), w))
        An = ex.closure(lambda p, q: g.D(p, q), "rtcD")
        cfv = L.is_cf(v)
        return {
            "plain.ancestors": L.Implies(L.Not(cfv), L.forall(1, lambda r: res.has(r) == L.And(g.N(r), An(r, v)))),
            "cf.sound.base": L.Implies(cfv, L.forall(1, lambda r: L.Implies(res.has(r), L.And(g.N(b(r)), AncOut(b(r), b(v)))))),
            "cf.sound.subscripts": L.Implies(cfv, L.forall(2, lambda r, i: L.Implies(res.has(r), ivs(r, i) == Z(b(r), i)))),
            "cf.sound.plain-when-empty": L.Implies(cfv, L.forall(1, lambda r: L.Implies(L.And(res.has(r), L.Not(L.is_cf(r))), r == b(r)))),
            "cf.complete": L.Implies(cfv, L.forall(1, lambda w: L.Implies(L.And(g.N(w), AncOut(w, b(v))),
                                                                        L.exists(1, lambda r: L.And(res.has(r), b(r) == w))))),
        }


@contract(f"{AU}._minimize_set", props=["C19"])
class _(Contract):
    """||Y*|| = { ||Y_x|| : Y_x in Y* }: every member of the result is the minimisation of some member of the input (same base, a
    subset of its subscripts, unchanged when not counterfactual) and every member of the input has its minimisation in the result."""
    params = {"graph": "graph", "variables": "nodeset"}
    allowed_raises = ("NetworkXError",)

    def raises(self, ex, a):
        L, g = ex.L, a.graph
        b, ivs, plain = L.var_algebra()
        return {"NetworkXError": L.exists(1, lambda v: L.And(a.variables.has(v), L.is_cf(v), L.Not(g.N(b(v)))))}

    def post(self, ex, a, res):
        L = ex.L
        if not isinstance(res, VSet):
            return {"type": L.F()}
        b, ivs, plain = L.var_algebra()
        S = a.variables
        shrinks = _is_minimisation(ex, a.graph)
        return {"sound": L.forall(1, lambda r: L.Implies(res.has(r), L.exists(1, lambda v: L.And(S.has(v), shrinks(v, r))))),
                "complete": L.forall(1, lambda v: L.Implies(S.has(v), L.exists(1, lambda r: L.And(res.has(r), shrinks(v, r)))))}


def _is_minimisation(ex, g):
    """(v, r) -> r is ||v|| in g: same base, exactly the relevant subscripts, the plain variable itself when v is not counterfactual,
    well-formed (counterfactual iff it has a subscript)."""
    L = ex.L
    b, ivs, plain = L.var_algebra()

    def keep(v):
        X = lambda q: L.exists(1, lambda i: L.And(ivs(v, i), b(i) == q))
        ex.binders.append(v)       # the closure is indexed by v (one symbol for all members of the input)
        try:
            C = ex.closure(lambda p, q: L.And(g.D(p, q), L.Not(X(q))), "rtcDx")
        finally:
            ex.binders.pop()
        return lambda i: L.And(ivs(v, i), C(b(i), b(v)))
    return lambda v, r: L.And(b(r) == b(v), L.Implies(L.is_cf(v), L.forall(1, lambda i: ivs(r, i) == keep(v)(i))),
                              L.Implies(L.Not(L.is_cf(v)), r == v), L.is_cf(r) == L.exists(1, lambda i: ivs(r, i)))


@contract(f"{API}.minimize_event", props=["C19"])
class _(Contract):
    """The event with every variable minimised and every value kept: (r, x) is in the result iff r = ||v|| for some (v, x) of the input."""
    params = {"event": "pairs", "graph": "graph"}
    allowed_raises = ("NetworkXError",)

    def raises(self, ex, a):
        L, g = ex.L, a.graph
        b, ivs, plain = L.var_algebra()
        return {"NetworkXError": L.exists(2, lambda v, x: L.And(a.event.has(v, x), L.is_cf(v), L.Not(g.N(b(v)))))}

    def post(self, ex, a, res):
        L = ex.L
        if getattr(res, "concrete_empty", False):
            res = VSet(lambda p, q: L.F(), arity=2)
        if not isinstance(res, VSet) or res.arity != 2:
            return {"type": L.F()}
        S = a.event
        shrinks = _is_minimisation(ex, a.graph)
        return {"sound": L.forall(2, lambda r, x: L.Implies(res.has(r, x), L.exists(1, lambda v: L.And(S.has(v, x), shrinks(v, r))))),
                "complete": L.forall(2, lambda v, x: L.Implies(S.has(v, x), L.exists(1, lambda r: L.And(res.has(r, x), shrinks(v, r)))))}


@contract(f"{API}.is_counterfactual_factor_form", props=["C19"])
class _(Contract):
    """Definition 3.4 (ctf-factor form): every variable of the event carries, as subscripts, interventions on all parents of its base
    variable and none on the base variable itself; a variable without subscripts must have no parents.  NetworkXError for a base
    variable outside the graph."""
    params = {"event": "nodeset", "graph": "graph"}
    allowed_raises = ("NetworkXError",)
    raises_exact = False

    def pre(self, ex, a):
        L = ex.L
        return [("no-interventions-in-event", L.forall(1, lambda v: L.Implies(a.event.has(v), L.Not(L.is_intervention(v)))))]

    def raises(self, ex, a):
        L, g = ex.L, a.graph
        b, _, _ = L.var_algebra()
        return {"NetworkXError": L.exists(1, lambda v: L.And(a.event.has(v), L.Not(g.N(b(v)))))}

    def spec(self, ex, a):
        L, g = ex.L, a.graph
        b, ivs, _ = L.var_algebra()
        on = lambda v, x: L.exists(1, lambda i: L.And(ivs(v, i), b(i) == b(x)))     # v has a subscript on the variable x
        ok = lambda v: z3.If(L.is_cf(v),
                             L.And(L.Not(on(v, v)), L.forall(1, lambda p: L.Implies(g.D(p, b(v)), on(v, p)))),
                             L.Not(L.exists(1, lambda p: g.D(p, b(v)))))
        return VBool(L.forall(1, lambda v: L.Implies(a.event.has(v), ok(v))))
