"""Contracts for y0/algorithm/counterfactual_transport (C19): minimisation of a counterfactual variable and the district test."""
from __future__ import annotations

import z3

from y0vc.contract import Contract, contract
from y0vc.values import VBool, VNode, VSet

AU = "y0.algorithm.counterfactual_transport.ancestor_utils"
API = "y0.algorithm.counterfactual_transport.api"


@contract(f"{AU}.minimize_counterfactual", props=["C19"])
class _(Contract):
    """||Y_x|| = Y_t with t the subscripts of x whose variable is an ancestor of Y in G with the edges into X removed; the result is
    always a well-formed variable: the plain variable (same name and mark) when no subscript is relevant."""
    params = {"variable": "node", "graph": "graph"}
    allowed_raises = ("NetworkXError",)

    def _T(self, ex, a):
        L, g = ex.L, a.graph
        b, ivs, plain = L.var_algebra()
        v = a.variable.t
        X = lambda x: L.exists(1, lambda i: L.And(ivs(v, i), b(i) == x))
        C = ex.closure(lambda p, q: L.And(g.D(p, q), L.Not(X(q))), "rtcDx")
        return b, ivs, plain, v, (lambda i: L.And(ivs(v, i), C(b(i), b(v))))

    def raises(self, ex, a):
        L, g = ex.L, a.graph
        b, ivs, plain = L.var_algebra()
        v = a.variable.t
        return {"NetworkXError": L.And(L.is_cf(v), L.Not(g.N(b(v))))}

    def post(self, ex, a, res):
        L = ex.L
        if not isinstance(res, VNode):
            return {"type": L.F()}
        b, ivs, plain, v, keep = self._T(ex, a)
        r = res.t
        return {"not-counterfactual-unchanged": L.Implies(L.Not(L.is_cf(v)), r == v),
                "base": b(r) == b(v),
                "subscripts": L.Implies(L.is_cf(v), L.forall(1, lambda i: ivs(r, i) == keep(i))),
                "well-formed": L.is_cf(r) == L.exists(1, lambda i: ivs(r, i)),
                "plain-when-irrelevant": L.Implies(L.And(L.is_cf(v), L.Not(L.exists(1, lambda i: keep(i)))), r == plain(v))}


@contract(f"{API}.same_district", props=["C19"])
class _(Contract):
    """True iff the base variables of the event all lie in one district (bidirected-connectivity class); vacuously true for
    the empty event; KeyError for a base variable outside the graph."""
    params = {"event": "nodeset", "graph": "graph"}
    allowed_raises = ("KeyError",)

    def raises(self, ex, a):
        L, g = ex.L, a.graph
        b, _, _ = L.var_algebra()
        return {"KeyError": L.exists(1, lambda v: L.And(a.event.has(v), L.Not(g.N(b(v)))))}

    def spec(self, ex, a):
        L, g = ex.L, a.graph
        b, _, _ = L.var_algebra()
        C = ex.closure(lambda p, q: g.U(p, q), "rtcU")
        return VBool(L.forall(2, lambda p, q: L.Implies(L.And(a.event.has(p), a.event.has(q)), C(b(p), b(q)))))


@contract(f"{AU}.get_ancestors_of_counterfactual", props=["C19"])
class _(Contract):
    """Def. 2.1: An(Y_x) = { W_z : W in An(Y) in G with the edges out of X removed, z the subscripts of x whose variable is an
    ancestor of W in G with the edges into X removed } (W itself when z is empty); for a plain variable, its ancestors."""
    params = {"event": "node", "graph": "graph"}
    allowed_raises = ("NetworkXError", "TypeError")
    raises_exact = False
    finite_ok = False

    def pre(self, ex, a):
        L, g = ex.L, a.graph
        b, ivs, plain = L.var_algebra()
        return [("plain-nodes", L.forall(1, lambda n: L.Implies(g.N(n), L.And(L.Not(L.is_cf(n)), L.Not(L.is_intervention(n)), b(n) == n)))),
                ("in-graph", z3.If(L.is_cf(a.event.t), g.N(b(a.event.t)), g.N(a.event.t))),
                ("plain-or-cf", L.Not(L.is_intervention(a.event.t)))]

    def post(self, ex, a, res):
        L, g = ex.L, a.graph
        if not isinstance(res, VSet):
            return {"type": L.F()}
        b, ivs, plain = L.var_algebra()
        v = a.event.t
        X = lambda x: L.exists(1, lambda i: L.And(ivs(v, i), b(i) == x))
        AncOut = ex.closure(lambda p, q: L.And(g.D(p, q), L.Not(X(p))), "rtcDoutX")
        AncIn = ex.closure(lambda p, q: L.And(g.D(p, q), L.Not(X(q))), "rtcDinX")
        Z = lambda w, i: L.And(ivs(v, i), AncIn(b(i), w))
        An = ex.closure(lambda p, q: g.D(p, q), "rtcD")
        cfv = L.is_cf(v)
        return {
            "plain.ancestors": L.Implies(L.Not(cfv), L.forall(1, lambda r: res.has(r) == L.And(g.N(r), An(r, v)))),
            "cf.sound.base": L.Implies(cfv, L.forall(1, lambda r: L.Implies(res.has(r), L.And(g.N(b(r)), AncOut(b(r), b(v)))))),
            "cf.sound.subscripts": L.Implies(cfv, L.forall(2, lambda r, i: L.Implies(res.has(r), ivs(r, i) == Z(b(r), i)))),
            "cf.sound.plain-when-empty": L.Implies(cfv, L.forall(1, lambda r: L.Implies(L.And(res.has(r), L.Not(L.is_cf(r))), r == b(r)))),
            "cf.complete": L.Implies(cfv, L.forall(1, lambda w: L.Implies(L.And(g.N(w), AncOut(w, b(v))),
                                                                        L.exists(1, lambda r: L.And(res.has(r), b(r) == w))))),
        }
