"""Contracts for y0/dsl.py expression operators (C13; used by C10, C12, C01...).

Every contract has the form   ok(args)  =>  ok(result)  and  den(result) = <mathematical operation on den(args)>
for one arbitrary distribution family and value assignment (den, ok are uninterpreted: the proof holds for all of them).
"""
from __future__ import annotations

import z3

from y0vc.contract import Contract, contract
from y0vc.exprs import CONCRETE, VESeq, VExpr, theory

D = "y0.dsl"


def recv_classes(ex, owner, meth):
    out = []
    for k in CONCRETE:
        ci = ex.repo.resolve(f"{D}.{k}")
        m = ex.repo.find_method(ci, meth) if ci is not None else None
        if m is not None and m.qualname == f"{D}.{owner}.{meth}":
            out.append(k)
    return out


class _Den(Contract):
    """Binary operator implemented by a method of class `owner`."""
    domain = "expr"
    owner = ""
    meth = ""
    op = "mul"
    other = "other"
    raises_exact = False

    @property
    def params(self):
        return {"self": "expr", self.other: "expr"}

    def pre(self, ex, a):
        T = theory(ex)
        return [("receiver", T.is_cls(a.self.t, recv_classes(ex, self.owner, self.meth)))]

    def _parts(self, ex, a):
        T = theory(ex)
        x, y = a.self.t, getattr(a, self.other).t
        if self.op == "mul":
            return z3.And(T.ok(x), T.ok(y)), T.den(x) * T.den(y)
        return z3.And(T.ok(x), T.ok(y), T.den(y) != 0), T.den(x) / T.den(y)

    def raises(self, ex, a):
        if self.op == "div":
            T = theory(ex)
            y = getattr(a, self.other).t
            return {"ZeroDivisionError": z3.Or(z3.Not(T.ok(y)), T.den(y) == 0)}
        return {}

    @property
    def allowed_raises(self):
        return ("ZeroDivisionError",) if self.op == "div" else ()

    def post(self, ex, a, res):
        T = theory(ex)
        if not isinstance(res, VExpr):
            return {"type": ex.L.F()}
        pre_ok, want = self._parts(ex, a)
        return {"ok": z3.Implies(pre_ok, T.ok(res.t)), "den": z3.Implies(pre_ok, T.den(res.t) == want)}

    def result(self, ex, a):
        T = theory(ex)
        r = T.fresh(self.op)
        pre_ok, want = self._parts(ex, a)
        ex.assume(z3.Implies(pre_ok, z3.And(T.ok(r), T.den(r) == want)))
        return VExpr(r)


    # ---- concrete interpretation (replay of candidate counterexamples, bounded cross-check against CPython)
    def sample_args(self, pool, rng):
        from y0vc.concrete import y0mod
        from y0vc.extract import Repo
        ks = _recv_cache.get((self.owner, self.meth))
        if ks is None:
            class _E:      # minimal stand-in for the executor: only .repo is used
                repo = Repo()
            ks = _recv_cache[(self.owner, self.meth)] = recv_classes(_E, self.owner, self.meth)
        k = rng.choice(ks)
        return {"self": pool.gen(rng.randint(0, 2), cls=k), self.other: pool.gen(rng.randint(0, 2))}

    def call_real(self, args):
        return getattr(args["self"], self.meth)(args[self.other])

    def judge(self, args, out, models):
        from y0vc import exproracle as xo
        x, y = args["self"], args[self.other]
        defined_somewhere = False
        for m in models:
            vx, vy = xo.values(x, m), xo.values(y, m)
            for i, (a, b) in enumerate(zip(vx, vy)):
                if a is None or b is None or (self.op == "div" and b == 0):
                    continue
                defined_somewhere = True
                if out[0] == "raise":
                    return f"raised {out[1]} although the operands are defined (and the divisor is non-zero) at assignment #{i}"
                want = a * b if self.op == "mul" else a / b
                got = xo.values(out[1], m)[i]
                if got is None:
                    return f"result undefined at assignment #{i} where the operands are defined"
                if got != want:
                    return f"value {got} at assignment #{i}, expected {want}"
        if not defined_somewhere:
            return "pre"          # an operand is undefined under every assignment (e.g. a Zero() factor in a denominator): outside ok(a) & ok(b)
        if out[0] == "raise" and not (self.op == "div" and out[1] == "ZeroDivisionError"):
            return f"raised {out[1]}"
        return None


_recv_cache = {}


def _op(owner, meth, op, other="other", props=("C13", "C10", "C12")):
    @contract(f"{D}.{owner}.{meth}", props=list(props))
    class _(_Den):
        pass
    c = __import__("y0vc.contract", fromlist=["REGISTRY"]).REGISTRY[f"{D}.{owner}.{meth}"]
    c.owner, c.meth, c.op, c.other = owner, meth, op, other
    return c


_op("Expression", "__truediv__", "div", "expression")
_op("Probability", "__mul__", "mul", "other")
_op("Product", "__mul__", "mul", "other")
_op("Sum", "__mul__", "mul", "expression")
_op("Fraction", "__mul__", "mul", "expression")
_op("Fraction", "__truediv__", "div", "expression")
_op("QFactor", "__mul__", "mul", "other")
_op("One", "__mul__", "mul", "expression")
_op("Zero", "__mul__", "mul", "expression")
_op("Zero", "__truediv__", "div", "other")


# ------------------------------------------------------------------------------------------------ unary, denotation preserving
class _Same(Contract):
    """(self) -> expression with the same denotation wherever self is defined."""
    domain = "expr"
    owner = ""
    meth = ""
    params = {"self": "expr"}
    flip = False

    def pre(self, ex, a):
        T = theory(ex)
        return [("receiver", T.is_cls(a.self.t, recv_classes(ex, self.owner, self.meth)))]

    def _want(self, ex, a):
        T = theory(ex)
        x = a.self.t
        if self.flip:
            return z3.And(T.ok(x), T.den(x) != 0), 1 / T.den(x)
        return T.ok(x), T.den(x)

    result_cls = None

    def post(self, ex, a, res):
        T = theory(ex)
        if not isinstance(res, VExpr):
            return {"type": ex.L.F()}
        pre_ok, want = self._want(ex, a)
        out = {"ok": z3.Implies(pre_ok, T.ok(res.t)), "den": z3.Implies(pre_ok, T.den(res.t) == want)}
        if self.result_cls:
            out["class"] = T.is_cls(res.t, T.subclasses(f"{D}.{self.result_cls}"))
        return out

    def result(self, ex, a):
        T = theory(ex)
        r = T.fresh("same")
        pre_ok, want = self._want(ex, a)
        ex.assume(z3.Implies(pre_ok, z3.And(T.ok(r), T.den(r) == want)))
        if self.result_cls:
            ex.assume(T.is_cls(r, T.subclasses(f"{D}.{self.result_cls}")))
        return VExpr(r)

    def sample_args(self, pool, rng):
        from y0vc.extract import Repo
        ks = _recv_cache.get((self.owner, self.meth))
        if ks is None:
            class _E:
                repo = Repo()
            ks = _recv_cache[(self.owner, self.meth)] = recv_classes(_E, self.owner, self.meth)
        return {"self": pool.gen(rng.randint(1, 3), cls=rng.choice(ks))}

    def call_real(self, args):
        return getattr(args["self"], self.meth)()

    def judge(self, args, out, models):
        from y0vc import exproracle as xo
        for m in models:
            vx = xo.values(args["self"], m)
            for i, a in enumerate(vx):
                if a is None or (self.flip and a == 0):
                    continue
                if out[0] == "raise":
                    return f"raised {out[1]} on a defined operand"
                got = xo.values(out[1], m)[i]
                want = 1 / a if self.flip else a
                if got != want:
                    return f"value {got} at assignment #{i}, expected {want}"
        return None


def _same(owner, meth, flip=False, props=("C13", "C10")):
    @contract(f"{D}.{owner}.{meth}", props=list(props))
    class _(_Same):
        pass
    c = __import__("y0vc.contract", fromlist=["REGISTRY"]).REGISTRY[f"{D}.{owner}.{meth}"]
    c.owner, c.meth, c.flip = owner, meth, flip
    if flip:
        c.allowed_raises = ("ZeroDivisionError",)
        c.raises_exact = False
        c.raises = lambda ex, a: {"ZeroDivisionError": z3.Or(z3.Not(theory(ex).ok(a.self.t)), theory(ex).den(a.self.t) == 0)}
    return c


_same("Fraction", "flip", flip=True).result_cls = "Fraction"
_c = _same("Fraction", "simplify")
_c.allowed_raises = ("ZeroDivisionError",)
_c.raises_exact = False
_c.raises = lambda ex, a: {"ZeroDivisionError": z3.Not(theory(ex).ok(a.self.t))}
# Sum.simplify rests on probability facts (marginalising a joint): assumed at call sites, checked by the bounded stand-in only
_same("Sum", "simplify").assumed = True


# ------------------------------------------------------------------------------------------------ sequences
def _seq_arg(ex, v):
    from y0vc.exprs import to_eseq
    return to_eseq(ex, v)


@contract(f"{D}.Product.safe", props=["C13", "C10", "C01"])
class _(Contract):
    """Product.safe(expressions): denotes the product of the factors (an expression passes through unchanged)."""
    domain = "expr"
    params = {"cls": ("const", None), "expressions": ("eseq", "expr")}

    def make_inputs(self, L, variant):
        env, wf, probes = super().make_inputs(L, variant)
        env["cls"] = "CLS"
        return env, wf, probes

    def adapt(self, ex, env):
        from y0vc.values import VFunc
        if env.get("cls") == "CLS":
            env["cls"] = VFunc("class", ex.repo.resolve(f"{D}.Product"))
        from y0vc.values import VComp
        a = super().adapt(ex, env)
        a.single = isinstance(a.expressions, VExpr)
        a.opaque = isinstance(a.expressions, VComp)      # a product over an index set of nodes: not interpreted (shape layer only)
        if not a.single and not a.opaque:
            a.expressions = _seq_arg(ex, a.expressions)
            env["expressions"] = a.expressions
        return a

    def _want(self, ex, a):
        T = theory(ex)
        if a.opaque:
            return z3.BoolVal(False), z3.RealVal(0)
        if a.single:
            return T.ok(a.expressions.t), T.den(a.expressions.t)
        return T.OKS(a.expressions.t), T.PROD(a.expressions.t)

    def post(self, ex, a, res):
        T = theory(ex)
        if not isinstance(res, VExpr):
            return {"type": ex.L.F()}
        pre_ok, want = self._want(ex, a)
        return {"ok": z3.Implies(pre_ok, T.ok(res.t)), "den": z3.Implies(pre_ok, T.den(res.t) == want)}

    def result(self, ex, a):
        T = theory(ex)
        r = T.fresh("prod")
        pre_ok, want = self._want(ex, a)
        ex.assume(z3.Implies(pre_ok, z3.And(T.ok(r), T.den(r) == want)))
        return VExpr(r)

    def sample_args(self, pool, rng):
        n = rng.choice([0, 1, 2, 2, 3, 4])
        xs = [pool.gen(rng.randint(0, 2)) for _ in range(n)]
        if xs and rng.random() < 0.3:
            xs.append(xs[0])
        kind = rng.choice(["tuple", "list", "gen", "single"])
        if kind == "single":
            return {"expressions": pool.gen(2)}
        return {"expressions": tuple(xs) if kind == "tuple" else (list(xs) if kind == "list" else (x for x in list(xs))), "_xs": xs}

    def call_real(self, args):
        from y0vc.concrete import y0mod
        return y0mod("y0.dsl").Product.safe(args["expressions"])

    def judge(self, args, out, models):
        from fractions import Fraction as Fr
        from y0vc import exproracle as xo
        xs = args.get("_xs", [args["expressions"]] if "_xs" not in args else [])
        if out[0] == "raise":
            return f"raised {out[1]}"
        for m in models:
            vals = [xo.values(x, m) for x in xs]
            got = xo.values(out[1], m)
            for i in range(8):
                col = [v[i] for v in vals]
                if any(c is None for c in col):
                    continue
                want = Fr(1)
                for c in col:
                    want *= c
                if got[i] != want:
                    return f"value {got[i]} at assignment #{i}, expected {want}"
        return None


@contract(f"{D}.Fraction._simplify_parts_helper", props=["C13", "C10"])
class _(Contract):
    """Cancellation of equal factors: the quotient of the products is unchanged.  The body (nested index loops) is outside the
    generator's subset: this contract is *assumed* at call sites and checked only by the bounded stand-in."""
    domain = "expr"
    assumed = True
    params = {"numerator": "eseq", "denominator": "eseq"}

    def adapt(self, ex, env):
        a = super().adapt(ex, env)
        a.numerator, a.denominator = _seq_arg(ex, a.numerator), _seq_arg(ex, a.denominator)
        return a

    def result(self, ex, a):
        from y0vc.values import VTuple
        T = theory(ex)
        n2 = z3.Const(ex.L.fresh_name("num"), T.ESeq)
        d2 = z3.Const(ex.L.fresh_name("den"), T.ESeq)
        T.regs(n2)
        T.regs(d2)
        P, O = T.PROD, T.OKS
        n, d = a.numerator.t, a.denominator.t
        ex.assume(z3.Implies(z3.And(O(n), O(d), P(d) != 0),
                             z3.And(O(n2), O(d2), P(d2) != 0, P(n) * P(d2) == P(n2) * P(d))))
        return VTuple([VESeq(n2), VESeq(d2)])

    def post(self, ex, a, res):
        return {}

    def sample_args(self, pool, rng):
        common = [pool.gen(rng.randint(0, 1)) for _ in range(rng.randint(0, 2))]
        n = [pool.gen(rng.randint(0, 1)) for _ in range(rng.randint(0, 2))] + common + ([common[0]] if common and rng.random() < 0.5 else [])
        d = [pool.gen(rng.randint(0, 1)) for _ in range(rng.randint(0, 2))] + common + ([common[-1]] if common and rng.random() < 0.3 else [])
        rng.shuffle(n)
        rng.shuffle(d)
        if not n or not d:
            return None
        return {"numerator": tuple(n), "denominator": tuple(d)}

    def call_real(self, args):
        from y0vc.concrete import y0mod
        return y0mod("y0.dsl").Fraction._simplify_parts_helper(args["numerator"], args["denominator"])

    def judge(self, args, out, models):
        from fractions import Fraction as Fr
        from y0vc import exproracle as xo
        if out[0] == "raise":
            return f"raised {out[1]}"
        n2, d2 = out[1]

        def prod(xs, m, i):
            r = Fr(1)
            for x in xs:
                v = xo.values(x, m)[i]
                if v is None:
                    return None
                r *= v
            return r
        for m in models:
            for i in range(8):
                pn, pd = prod(args["numerator"], m, i), prod(args["denominator"], m, i)
                if pn is None or pd is None or pd == 0:
                    continue
                qn, qd = prod(n2, m, i), prod(d2, m, i)
                if qn is None or qd is None or qd == 0 or pn * qd != qn * pd:
                    return f"quotient changed at assignment #{i}: {pn}/{pd} became {qn}/{qd}"
        return None


@contract(f"{D}.Fraction._simplify_parts", props=["C13", "C10"])
class _(Contract):
    domain = "expr"
    params = {"cls": ("const", None), "numerator": "eseq", "denominator": "eseq"}
    allowed_raises = ("ZeroDivisionError",)
    raises_exact = False

    def raises(self, ex, a):
        return {"ZeroDivisionError": z3.Not(self._want(ex, a)[0])}

    def make_inputs(self, L, variant):
        env, wf, probes = super().make_inputs(L, variant)
        env["cls"] = "CLS"
        return env, wf, probes

    def adapt(self, ex, env):
        from y0vc.values import VFunc
        if env.get("cls") == "CLS":
            env["cls"] = VFunc("class", ex.repo.resolve(f"{D}.Fraction"))
        a = super().adapt(ex, env)
        a.numerator, a.denominator = _seq_arg(ex, a.numerator), _seq_arg(ex, a.denominator)
        env["numerator"], env["denominator"] = a.numerator, a.denominator
        return a

    def _want(self, ex, a):
        T = theory(ex)
        n, d = a.numerator.t, a.denominator.t
        return z3.And(T.OKS(n), T.OKS(d), T.PROD(d) != 0), T.PROD(n) / T.PROD(d)

    def post(self, ex, a, res):
        T = theory(ex)
        if not isinstance(res, VExpr):
            return {"type": ex.L.F()}
        pre_ok, want = self._want(ex, a)
        return {"ok": z3.Implies(pre_ok, T.ok(res.t)), "den": z3.Implies(pre_ok, T.den(res.t) == want)}

    def result(self, ex, a):
        T = theory(ex)
        r = T.fresh("parts")
        pre_ok, want = self._want(ex, a)
        ex.assume(z3.Implies(pre_ok, z3.And(T.ok(r), T.den(r) == want)))
        return VExpr(r)

    def sample_args(self, pool, rng):
        h = __import__("y0vc.contract", fromlist=["REGISTRY"]).REGISTRY[f"{D}.Fraction._simplify_parts_helper"]
        return h.sample_args(pool, rng)

    def call_real(self, args):
        from y0vc.concrete import y0mod
        return y0mod("y0.dsl").Fraction._simplify_parts(args["numerator"], args["denominator"])

    def judge(self, args, out, models):
        from fractions import Fraction as Fr
        from y0vc import exproracle as xo
        if out[0] == "raise":
            return None if out[1] == "ZeroDivisionError" else f"raised {out[1]}"
        for m in models:
            for i in range(8):
                pn = pd = Fr(1)
                bad = False
                for x in args["numerator"]:
                    v = xo.values(x, m)[i]
                    bad |= v is None
                    pn = pn * (v or 0)
                for x in args["denominator"]:
                    v = xo.values(x, m)[i]
                    bad |= v is None
                    pd = pd * (v or 0)
                if bad or pd == 0:
                    continue
                got = xo.values(out[1], m)[i]
                if got != pn / pd:
                    return f"value {got} at assignment #{i}, expected {pn / pd}"
        return None
