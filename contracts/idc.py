"""Contracts for y0/algorithm/identify/id_c.py (C03)."""
from __future__ import annotations

import z3

import contracts.ident as ident
from contracts.ci import msep_spec
from y0vc.contract import Contract, contract, mk_graph
from y0vc.exprs import VExpr, theory
from y0vc.values import VBool, VSet

IDC = "y0.algorithm.identify.id_c"


def wf_idc(ex, a):
    L = ex.L
    g, Y, X, Z = a.g, a.Y, a.X, a.C
    return [("outcomes-in-graph", L.forall(1, lambda v: L.Implies(Y.has(v), g.N(v)))),
            ("treatments-in-graph", L.forall(1, lambda v: L.Implies(X.has(v), g.N(v)))),
            ("conditions-in-graph", L.forall(1, lambda v: L.Implies(Z.has(v), g.N(v)))),
            ("disjoint", L.forall(1, lambda v: L.And(L.Not(L.And(X.has(v), Y.has(v))), L.Not(L.And(X.has(v), Z.has(v))), L.Not(L.And(Y.has(v), Z.has(v)))))),
            ("outcomes-nonempty", L.exists(1, lambda v: Y.has(v)))]


@contract(f"{IDC}.rule_2_of_do_calculus_applies", props=["C03"])
class _(Contract):
    """True iff every outcome is m-separated from the condition z given X | (Z - z) in G with the edges into X and out of z removed."""
    domain = "graph+expr"
    params = {"identification": "identification", "condition": "node"}

    def adapt(self, ex, env):
        a = super().adapt(ex, env)
        a.g, a.Y, a.X, a.e = ident.parts(a.identification)
        a.C = a.identification.fields["query"].fields["conditions"]
        return a

    def pre(self, ex, a):
        return wf_idc(ex, a) + [("condition-is-one", a.C.has(a.condition.t))]

    def post(self, ex, a, res):
        L = ex.L
        if not isinstance(res, VBool):
            return {"type": L.F()}
        return {"verdict": res.t == self._spec(ex, a)}

    def result(self, ex, a):
        return VBool(self._spec(ex, a))

    def _spec(self, ex, a):
        L, g = ex.L, a.g
        z = a.condition.t
        gm = mk_graph(lambda v: g.N(v), lambda p, q: L.And(g.D(p, q), L.Not(a.X.has(q)), p != z),
                      lambda p, q: L.And(g.U(p, q), L.Not(a.X.has(p)), L.Not(a.X.has(q))))
        gm = ex.name_value(gm, "gmod")
        cond = VSet(lambda v: L.Or(a.X.has(v), L.And(a.C.has(v), v != z)))
        y = L.node("y")
        sep, _ = msep_spec(ex, gm, y, z, cond)
        return L.forall_c([y], L.Implies(a.Y.has(y), sep))


def _nm_result(self, ex, a):
    """normalize_marginalize: opaque here (its meaning is an assumed, bounded-checked contract; it is also assumed not to
    raise on the estimands ID returns, which never denote the constant zero)."""
    return VExpr(theory(ex).fresh("normmarg"))


from y0vc.contract import REGISTRY  # noqa: E402
type(REGISTRY["y0.dsl.Expression.normalize_marginalize"]).result = _nm_result


@contract(f"{IDC}.idc", props=["C03"])
class _(Contract):
    """IDC is total: on a valid conditional query over an acyclic graph the only exception is Unidentifiable (raised by ID);
    every exchange of an observation for an action and the final ID call are valid queries."""
    domain = "graph+expr"
    params = {"identification": "identification"}
    allowed_raises = ("Unidentifiable",)
    raises_exact = False
    thorough_only = True

    def adapt(self, ex, env):
        a = super().adapt(ex, env)
        a.g, a.Y, a.X, a.e = ident.parts(a.identification)
        a.C = a.identification.fields["query"].fields["conditions"]
        return a

    def pre(self, ex, a):
        from y0vc.libspec import acyclic
        ac, _ = acyclic(ex, lambda p, q: a.g.D(p, q))
        return wf_idc(ex, a) + [("acyclic", ac)]

    def raises(self, ex, a):
        return {"Unidentifiable": ex.L.T()}

    def raises_direct(self, ex, a):
        return {}

    def decreases(self, ex, a0, a1):
        """Termination: every recursive call has a strictly smaller conditioning set (a strict-subset order on a finite set)."""
        L = ex.L
        return L.And(L.forall(1, lambda v: L.Implies(a1.C.has(v), a0.C.has(v))), L.exists(1, lambda v: L.And(a0.C.has(v), L.Not(a1.C.has(v)))))

    def post(self, ex, a, res):
        return {"type": z3.BoolVal(isinstance(res, VExpr))}

    def result(self, ex, a):
        return VExpr(theory(ex).fresh("idc"))
