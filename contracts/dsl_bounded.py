"""Expression functions whose contracts rest on probability facts (marginalising a joint, the chain rule, the definition of a
conditional) or whose bodies are outside the generator's subset.  Their contracts are *assumed* at call sites and checked only
by the bounded stand-in: the real function on sampled concrete expressions, judged by exact rational evaluation.
Every contract has the same form as the proved ones:  defined(args) => defined(result) and den(result) = <operation>."""
from __future__ import annotations

import itertools as itt
from fractions import Fraction as Fr

import contracts.dsl  # noqa: F401  (registration order)
from y0vc.contract import REGISTRY, Contract, contract
from y0vc import exproracle as xo
from y0vc.concrete import y0mod


class _Bounded(Contract):
    domain = "expr"
    assumed = True
    params = {}

    def post(self, ex, a, res):
        return {}


def _cmp(want_fn, got_expr, models, names=xo.NAMES):
    """want_fn(model, env) -> Fraction | None (None = operands undefined there: no requirement)"""
    for m in models:
        got = xo.values(got_expr, m, names)
        for i, env in enumerate(xo.envs(names)):
            try:
                want = want_fn(m, env)
            except (xo.Undefined, ZeroDivisionError):
                continue
            if want is None:
                continue
            if got[i] is None:
                return f"result undefined at {env} where the operation is defined (expected {want})"
            if got[i] != want:
                return f"value {got[i]} at {env}, expected {want}"
    return None


def _sum_over(e, names, m, env):
    names = sorted(names)
    return sum(xo.ev(e, {**env, **dict(zip(names, vals))}, m) for vals in itt.product(range(2), repeat=len(names)))


def _has_bound_or_subscripts(e):
    dsl = y0mod("y0.dsl")
    if isinstance(e, dsl.Sum):
        return True
    if isinstance(e, dsl.Product):
        return any(_has_bound_or_subscripts(x) for x in e.expressions)
    if isinstance(e, dsl.Fraction):
        return _has_bound_or_subscripts(e.numerator) or _has_bound_or_subscripts(e.denominator)
    if isinstance(e, dsl.Probability):
        return any(isinstance(v, dsl.CounterfactualVariable) for v in (*e.children, *e.parents))
    return False


def _register(qual, props, sample, call, judge, doc):
    @contract(qual, props=list(props))
    class _(_Bounded):
        pass
    c = REGISTRY[qual]
    c.__class__.__doc__ = doc
    c.sample_args, c.call_real, c.judge = sample, call, judge
    return c


def _V(n):
    return y0mod("y0.dsl").Variable(n)


def _subset(rng, names):
    return [n for n in names if rng.random() < 0.5]


# ---- marginalize / Sum.safe
def _s_marg(pool, rng):
    e = pool.gen(rng.randint(0, 2))
    if not xo.well_scoped(e):
        return None
    return {"self": e, "ranges": [_V(n) for n in _subset(rng, xo.NAMES)]}


def _j_marg(args, out, models):
    if out[0] == "raise":
        return f"raised {out[1]}"
    names = [v.name for v in args["ranges"]]
    return _cmp(lambda m, env: _sum_over(args["self"], names, m, env), out[1], models)


_register("y0.dsl.Expression.marginalize", ["C13"], _s_marg, lambda a: a["self"].marginalize(a["ranges"]), _j_marg,
          "marginalize(R) denotes the sum of the receiver over the values of R (R within its free variables)")
_register("y0.dsl.Sum.safe", ["C13", "C10", "C01"],
          lambda pool, rng: (lambda a: None if a is None else {**a, "simplify": rng.random() < 0.5})(_s_marg(pool, rng)),
          lambda a: y0mod("y0.dsl").Sum.safe(a["self"], a["ranges"], simplify=a["simplify"]), _j_marg,
          "Sum.safe(e, R[, simplify]) denotes the sum of e over the values of R")


# ---- Sum.simplify is registered in contracts/dsl.py (den preserving, assumed); here the sampler makes it bite
def _s_sumsimplify(pool, rng):
    dsl = y0mod("y0.dsl")
    p = rng.choice(pool.plain_atoms) if rng.random() < 0.7 else pool.gen(1)
    rs = [n for n in xo.NAMES if rng.random() < 0.5]
    if not rs or isinstance(p, dsl.Zero):
        return None
    return {"self": dsl.Sum(p, frozenset(_V(n) for n in rs))}


REGISTRY["y0.dsl.Sum.simplify"].sample_args = _s_sumsimplify


# ---- conditional / normalize_marginalize
def _s_cond(pool, rng):
    e = pool.gen(rng.randint(0, 2))
    if _has_bound_or_subscripts(e) or not xo.well_scoped(e):
        return None            # known finding (DESIGN §7 #11): receivers with bound variables or intervention subscripts
    f = sorted(xo.free_vars(e))
    if not f:
        return None
    return {"self": e, "ranges": [_V(n) for n in _subset(rng, f)]}


def _j_cond(args, out, models):
    if out[0] == "raise":
        return None if out[1] == "ZeroDivisionError" else f"raised {out[1]}"
    e = args["self"]
    comp = sorted(xo.free_vars(e) - {v.name for v in args["ranges"]})

    def want(m, env):
        d = _sum_over(e, comp, m, env)
        if d == 0:
            return None
        return xo.ev(e, env, m) / d
    return _cmp(want, out[1], models)


_register("y0.dsl.Expression.conditional", ["C13"], _s_cond, lambda a: a["self"].conditional(a["ranges"]), _j_cond,
          "conditional(R) denotes the receiver divided by its sum over the free variables outside R "
          "(receivers without bound variables / intervention subscripts: see known finding)")


def _s_nm(pool, rng):
    a = _s_marg(pool, rng)
    return a


def _j_nm(args, out, models):
    if out[0] == "raise":
        return None if out[1] == "ZeroDivisionError" else f"raised {out[1]}"
    e = args["self"]
    names = [v.name for v in args["ranges"]]

    def want(m, env):
        d = _sum_over(e, names, m, env)
        return None if d == 0 else xo.ev(e, env, m) / d
    return _cmp(want, out[1], models)


_register("y0.dsl.Expression.normalize_marginalize", ["C13", "C03"], _s_nm, lambda a: a["self"].normalize_marginalize(a["ranges"]), _j_nm,
          "normalize_marginalize(R) denotes the receiver divided by its sum over R")


# ---- chain rule helpers
def _s_prob(pool, rng):
    p = rng.choice(pool.plain_atoms)
    return {"p": p, "reorder": rng.random() < 0.6}


def _j_same_p(key):
    def judge(args, out, models):
        if out[0] == "raise":
            return f"raised {out[1]}"
        p = args[key]
        return _cmp(lambda m, env: xo.ev(p, env, m), out[1], models)
    return judge


def _j_chain(args, out, models):
    dsl = y0mod("y0.dsl")
    why = _j_same_p("p")(args, out, models)
    if why:
        return why
    r = out[1]
    factors = r.expressions if isinstance(r, dsl.Product) else [r]
    for f in factors:
        if not (isinstance(f, dsl.Probability) and len(f.children) == 1):
            return f"factor {f} is not a single-child conditional"
    return None


_register("y0.mutate.chain.chain_expand", ["C13"], _s_prob,
          lambda a: y0mod("y0.mutate.chain").chain_expand(a["p"], reorder=a["reorder"]), _j_chain,
          "chain_expand(p) denotes p and every factor has exactly one child")
_register("y0.mutate.chain.fraction_expand", ["C13"], _s_prob, lambda a: y0mod("y0.mutate.chain").fraction_expand(a["p"]), _j_same_p("p"),
          "fraction_expand(p) denotes p")
_register("y0.mutate.chain.bayes_expand", ["C13"], _s_prob, lambda a: y0mod("y0.mutate.chain").bayes_expand(a["p"]), _j_same_p("p"),
          "bayes_expand(p) denotes p")


# ---- contraction
def _s_contract(pool, rng):
    dsl = y0mod("y0.dsl")
    k = rng.random()
    if k < 0.6:
        n, d = rng.choice(pool.plain_atoms), rng.choice(pool.plain_atoms)
        e = dsl.Fraction(n, d)
    else:
        e = pool.gen(rng.randint(1, 3))
    return {"e": e}


_register("y0.mutate.contract.contract", ["C13"], _s_contract, lambda a: y0mod("y0.mutate.contract").contract(a["e"]), _j_same_p("e"),
          "contract(e) denotes e")
_register("y0.mutate.contract.recursive_contract", ["C13"], _s_contract,
          lambda a: y0mod("y0.mutate.contract").recursive_contract(a["e"]), _j_same_p("e"), "recursive_contract(e) denotes e")


# ------------------------------------------------------------------------------------------------ symbolic side of assumed contracts
def _sum_safe_result(self, ex, a):
    import z3
    from y0vc.exprs import VExpr, theory
    T = theory(ex)
    e = a.expression
    arr = T.set_to_array(ex.as_set(a.ranges))
    sv, oks = T.sumv(arr, e.t)
    r = T.fresh("sum")
    ex.assume(z3.Implies(oks, z3.And(T.ok(r), T.den(r) == sv)))
    return VExpr(r)


type(REGISTRY["y0.dsl.Sum.safe"]).result = _sum_safe_result


# ------------------------------------------------------------------------------------------------ Sum.safe / marginalize: deductive side
# (the run-time sampler / judge registered above stay as the CPython cross-check)
def _ranges_set(ex, v):
    from y0vc.contract import as_nodes
    return as_nodes(ex, v)


class _SumSafeProved:
    """Sum.safe(e, R[, simplify]): wherever the sum of e over R is defined, the result is defined and denotes it.  Proved from
    the body for R a Variable or a collection of Variables (strings are converted by Variable(...), outside the model); the
    `simplify=True` path rests on the assumed contract of Sum.simplify.  TypeError iff a range is a counterfactual variable or an
    intervention (Sum.__post_init__)."""
    assumed = False
    params = {"cls": ("const", None), "expression": "expr", "ranges": ("nodeset", "node"), "simplify": ("omit", "bool")}
    allowed_raises = ("TypeError",)

    def make_inputs(self, L, variant):
        env, wf, probes = Contract.make_inputs(self, L, variant)
        env["cls"] = "CLS"
        return env, wf, probes

    def adapt(self, ex, env):
        from y0vc.values import VFunc
        if env.get("cls") == "CLS":
            env["cls"] = VFunc("class", ex.repo.resolve("y0.dsl.Sum"))
        a = Contract.adapt(self, ex, env)
        a.R = _ranges_set(ex, a.ranges)
        return a

    def raises(self, ex, a):
        import z3
        from y0vc.exprs import theory
        L, T = ex.L, theory(ex)
        bad = L.exists(1, lambda v: L.And(a.R.has(v), L.Or(L.is_cf(v), L.is_intervention(v))))
        return {"TypeError": L.And(bad, T.cls(a.expression.t) != T.CL["Zero"])}

    def post(self, ex, a, res):
        import z3
        from y0vc.exprs import VExpr, theory
        T = theory(ex)
        if not isinstance(res, VExpr):
            return {"type": ex.L.F()}
        sv, oks = T.sumv(T.set_to_array(a.R), a.expression.t)
        return {"ok": z3.Implies(oks, T.ok(res.t)), "den": z3.Implies(oks, T.den(res.t) == sv)}


_c = REGISTRY["y0.dsl.Sum.safe"]
for _k in ("assumed", "params", "allowed_raises", "make_inputs", "adapt", "raises", "post"):
    setattr(type(_c), _k, _SumSafeProved.__dict__[_k])
type(_c).__doc__ = _SumSafeProved.__doc__


def _base_image(ex, R):
    """{ r.get_base() : r in R }"""
    from y0vc.values import VSet
    L = ex.L
    b_, _, _ = L.var_algebra()
    return VSet(lambda x: L.exists(1, lambda r: L.And(R.has(r), x == b_(r))))


class _MargProved:
    """e.marginalize(R) denotes the sum of e over the base variables of R, wherever that sum is defined."""
    assumed = False
    params = {"self": "expr", "ranges": ("nodeset", "node")}
    allowed_raises = ("TypeError",)

    def adapt(self, ex, env):
        a = Contract.adapt(self, ex, env)
        a.R = _base_image(ex, _ranges_set(ex, a.ranges))
        return a

    def raises(self, ex, a):
        # get_base() yields plain variables: Sum.__post_init__ cannot object
        return {"TypeError": ex.L.F()}

    def post(self, ex, a, res):
        import z3
        from y0vc.exprs import VExpr, theory
        T = theory(ex)
        if not isinstance(res, VExpr):
            return {"type": ex.L.F()}
        sv, oks = T.sumv(T.set_to_array(a.R), a.self.t)
        return {"ok": z3.Implies(oks, T.ok(res.t)), "den": z3.Implies(oks, T.den(res.t) == sv)}

    def result(self, ex, a):
        import z3
        from y0vc.exprs import VExpr, theory
        T = theory(ex)
        sv, oks = T.sumv(T.set_to_array(a.R), a.self.t)
        r = T.fresh("marg")
        ex.assume(z3.Implies(oks, z3.And(T.ok(r), T.den(r) == sv)))
        return VExpr(r)


_c = REGISTRY["y0.dsl.Expression.marginalize"]
for _k in ("assumed", "params", "allowed_raises", "adapt", "raises", "post", "result"):
    setattr(type(_c), _k, _MargProved.__dict__[_k])
type(_c).__doc__ = _MargProved.__doc__


class _NormMargProved:
    """e.normalize_marginalize(R) denotes e divided by its sum over the base variables of R, wherever e and that sum are defined
    and the sum is not zero; ZeroDivisionError only when the sum denotes zero (or is undefined)."""
    assumed = False
    params = {"self": "expr", "ranges": ("nodeset", "node")}
    allowed_raises = ("ZeroDivisionError",)
    raises_exact = False

    def adapt(self, ex, env):
        a = Contract.adapt(self, ex, env)
        a.R = _base_image(ex, _ranges_set(ex, a.ranges))
        return a

    def _parts(self, ex, a):
        import z3
        from y0vc.exprs import theory
        T = theory(ex)
        sv, oks = T.sumv(T.set_to_array(a.R), a.self.t)
        return z3.And(T.ok(a.self.t), oks, sv != 0), T.den(a.self.t) / sv

    def raises(self, ex, a):
        import z3
        return {"ZeroDivisionError": z3.Not(self._parts(ex, a)[0])}

    def post(self, ex, a, res):
        import z3
        from y0vc.exprs import VExpr, theory
        T = theory(ex)
        if not isinstance(res, VExpr):
            return {"type": ex.L.F()}
        pre_ok, want = self._parts(ex, a)
        return {"ok": z3.Implies(pre_ok, T.ok(res.t)), "den": z3.Implies(pre_ok, T.den(res.t) == want)}


_c = REGISTRY["y0.dsl.Expression.normalize_marginalize"]
for _k in ("assumed", "params", "allowed_raises", "raises_exact", "adapt", "_parts", "raises", "post"):
    setattr(type(_c), _k, _NormMargProved.__dict__[_k])
type(_c).__doc__ = _NormMargProved.__doc__


for _q in ("y0.dsl.Sum.safe", "y0.dsl.Expression.marginalize", "y0.dsl.Expression.normalize_marginalize"):
    type(REGISTRY[_q]).wide_runtime = True
