#!/bin/bash
# Developer tool: parallel version of seedmatrix.sh.  bin/seedmatrix_par.sh [out.tsv] [jobs] [glob]
# Runs every stored seeded change against the quick check of its property on a scratch copy of /repo; several at a time.
cd "$(dirname "$0")/.."
OUT=${1:-seeded/RESULTS.tsv}; J=${2:-5}; GLOB=${3:-C*-*}
[ -x .venv/bin/python ] || ./setup.sh >/dev/null 2>&1
TMP=$(mktemp -d /tmp/seedmx_XXXXXX)
one() {
  d=$1; id=$(basename "$d"); prop=${id%%-*}
  if ! grep -q "\"property_id\": \"$prop\"" MANIFEST.json; then echo -e "$id\t$prop\t-\tnot claimed" > "$TMP/$id"; return; fi
  res=$(bin/mutcheck "$PWD/$d/patch.diff" "$prop" 2>&1)
  code=$(echo "$res" | grep -o "exit=[0-9]*" | tail -1)
  line=$(echo "$res" | grep -m1 "failed obligation\|^OK \|patch failed\|CHECKER" | cut -c1-160)
  echo -e "$id\t$prop\t$code\t$line" > "$TMP/$id"
}
export -f one; export TMP
ls -d seeded/$GLOB/ | xargs -P "$J" -I{} bash -c 'one {}'
cat "$TMP"/* | sort > "$OUT"
rm -rf "$TMP"
cat "$OUT"
