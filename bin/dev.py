#!/verif/.venv/bin/python
"""Developer driver: generate + discharge the obligations of one function (not registered in MANIFEST)."""
import sys, time, collections
sys.path.insert(0, "/verif")
from y0vc.extract import Repo
from y0vc.contract import REGISTRY
from y0vc.verify import generate
from y0vc.discharge import solve_all
import importlib, pkgutil, contracts
for m in pkgutil.iter_modules(contracts.__path__):
    importlib.import_module("contracts." + m.name)
repo = Repo()
pat = sys.argv[1] if len(sys.argv) > 1 else ""
k = int(sys.argv[2]) if len(sys.argv) > 2 else None
for q, con in REGISTRY.items():
    if pat not in q: continue
    t = time.time()
    G = generate(repo, con, k=k)
    print(f"== {q}: {len(G.instances)} instances, {G.paths} paths, gen {G.gen_s:.2f}s  oos={G.out_of_subset}")
    res = solve_all(G.instances, budget_ms=10000)
    agg = collections.OrderedDict()
    for inst, r in zip(G.instances, res):
        agg.setdefault(inst.oid, []).append((r, inst))
    for oid, rs in agg.items():
        st = "discharged" if all(r["status"] == "discharged" for r, _ in rs) else ("REFUTED" if any(r["status"] == "refuted" for r, _ in rs) else "undecided")
        print(f"   {oid.split('/', 1)[1]:45s} {st:10s} n={len(rs)} max {max(r['ms'] for r,_ in rs):8.1f} ms  {[r['backend'] for r,_ in rs if r['backend']!='z3']}")
        for r, inst in rs:
            if r["status"] != "discharged":
                print("        ", r["status"], r["reason"], inst.note, r["model"])
    print(f"   total {time.time()-t:.2f}s")
