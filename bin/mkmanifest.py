#!/usr/bin/env python3
"""Regenerates MANIFEST.json from the table below (keeps the file valid and consistent)."""
import json, pathlib
ROOT = pathlib.Path(__file__).resolve().parent.parent
TECH = "contract-based deductive verification: VCs generated from the AST of the real functions under sidecar contracts, discharged by z3/cvc5"
TRUST = ("Trusted: the VC generator and value model (cross-checked against CPython on enumerated inputs every run), z3/cvc5, the stated "
         "networkx/builtin contracts (y0vc/libspec.py), Python semantics as listed in DESIGN §3")
CHECKS = {
 "C14": ("proof", "Every listed graph operation under contract has its whole-view postcondition (node set, directed and bidirected edge relation), "
         "its exception condition and its frame condition (no write to the receiver or arguments, no mutable state shared between result and receiver -- a refuted frame obligation is "
         "replayed on the real code by writing to the result and re-reading the receiver) discharged from VCs generated out of the real AST, for all graphs of all sizes; "
         "`intervene` is proved relative to the axioms of the Variable algebra (x.intervene(S) is the counterfactual variable with x's name and exactly the subscripts S; injective on "
         "plain variables) and additionally cross-checked against its definition on every mixed graph with <= 3 nodes (its inputs cannot be enumerated by the finite-model search); "
         "`__eq__` (the relation all clauses are stated in) is under contract too.",
         TRUST, TECH + "; finite-model counterexamples replayed on the real code", "DESIGN.md §5 C14"),
 "C04": ("other", "All obligations of are_d_separated except one (canonical form, exception conditions, library preconditions, frame, symmetry of the "
         "specification) are proved for all graphs. The deciding obligation post.separated (verdict = separation in the augmented graph of the ancestral "
         "subgraph) is attempted with the closure cut rule; when the solver budget runs out (usual in the quick tier) it is *undecided* and replaced by the "
         "labelled bounded stand-in: the same contract evaluated on the real function for every input over universes of <= 3 nodes plus sampled 4-node inputs, "
         "and the real function against networkx d-separation on the canonical DAG on sampled 3-6 node ADMGs. Not counted as proved.",
         TRUST + "; trusted mathematics: augmentation/moralisation criterion (Richardson 2003; Lauritzen et al. 1990), validated every run against networkx.is_d_separator",
         TECH + " + bounded run-time contract (exhaustive <= 3 nodes) + oracle cross-check", "DESIGN.md §5 C04"),
 "C15": ("other", "Deductive part: the canonical form of every judgement (DSeparationJudgement.create: ordered ends, sorted duplicate-free conditions) is proved for all inputs, "
         "and 'every listed judgement is a true separation' rests on the contract of are_d_separated, used modularly (decided under C04). The enumeration logic "
         "(d_separations / powerset / minimal / get_conditional_independencies: generators with nested loops, sorted/groupby/min over judgement objects) is outside the VC "
         "generator's subset and is decided by the labelled bounded stand-in: every ADMG on 2-3 nodes x limits {none,0,1,2,3} and sampled 4-5 node ADMGs against brute-force "
         "enumeration over an independent d-separation oracle (exactly one judgement per separable pair, none otherwise, true, canonical, minimum size, within the limit).",
         TRUST + "; assumed contract: are_d_separated (verified under C04)", TECH + " (canonical form) + bounded exhaustive enumeration against an oracle", "DESIGN.md §5 C15"),
 "C13": ("other", "Proved for all expressions, distributions and value assignments (den/ok uninterpreted, QF_UFNRA): every __mul__ / __truediv__ implementation "
         "(Expression, Probability, Product, Sum, Fraction, QFactor, One, Zero), Fraction.flip, Fraction.simplify, Fraction._simplify_parts and Product.safe return an expression "
         "denoting the product / quotient / same value of their arguments; Sum.safe(e, R) denotes the sum of e over R (proved from the body for Variable / collection-of-Variable "
         "ranges incl. the empty-range and Zero-body short cuts and the TypeError of Sum.__post_init__; the simplify=True path relative to Sum.simplify), Expression.marginalize(R) "
         "the sum over the base variables of R, Expression.normalize_marginalize(R) the receiver divided by that sum (ZeroDivisionError only when the sum denotes zero). "
         "Assumed contracts checked only by the bounded stand-in (sampled concrete expressions, exact rational "
         "evaluation): Fraction._simplify_parts_helper (index loops), Sum.simplify, conditional, chain_expand (incl. single-child factors), "
         "fraction_expand, bayes_expand, contract, recursive_contract -- these rest on probability facts about probability leaves (marginalising a joint, chain rule), for which the "
         "expression theory has no leaf semantics. The three proved methods keep the wide sampled run-time cross-check because subclasses may override them (dynamic dispatch). "
         "One open known finding (Expression.conditional with bound variables / subscripts).",
         TRUST + "; algebraic and fold laws instantiated per path (listed in y0vc/exprs.py LAWS); termination of Fraction.simplify's recursion not verified",
         TECH + " (QF_UFNRA, ground-instantiated laws) + bounded run-time contracts with exact evaluation", "DESIGN.md §5 C13"),
 "C10": ("other", "Proved for all expressions, orderings, distributions and value assignments: Canonicalizer.canonicalize returns an expression with the same denotation "
         "wherever the input is defined (structural induction through its own contract: 17 paths; Fraction, Product, Sum, leaf branches), and fails only with TypeError on "
         "expressions containing a Q factor or ZeroDivisionError on undefined ones. The proof is relative to assumed leaf contracts, which are checked only by the bounded "
         "stand-in (sampled concrete expressions, exact rational evaluation): Sum.safe/Sum.simplify (marginalising a joint), _canonicalize_probability (a probability term "
         "denotes a function of its child and parent sets), _flatten_product (recursive generator), and the entry points canonicalize(e, ordering) and canonical_expr_equal "
         "(constructor of Canonicalizer / ensure_ordering use dict and enumerate code outside the subset).",
         TRUST + "; laws of y0vc/exprs.py LAWS incl. the sum-congruence rule (a callee contract proved for an arbitrary environment holds at every summation point)",
         TECH + " (QF_UFNRA, structural induction via the function's own contract) + bounded run-time contracts with exact evaluation", "DESIGN.md §5 C10"),
 "C02": ("other", "Proved for all graphs and queries (sets/relations, closures): on a valid query over an acyclic graph `identify` raises nothing but Unidentifiable -- every library "
         "precondition (nx.ancestors, is_connected on a non-null graph, topological_sort on an acyclic graph, set.pop, list.index in p_conditional) and every ValueError guard of "
         "line_2/line_3 is shown unreachable; its own `raise Unidentifiable` is reachable only under the published line-5 condition (G-X one district and G one district); every "
         "recursive call is again a valid query over an acyclic graph; line_1/2/3/7 build exactly the published recursive arguments (outcomes, treatments, graph, summation ranges); "
         "no function writes to an object reachable from its arguments (frame) and Identification gets a fresh copy of the graph; the public wrapper identify_outcomes calls ID / IDC "
         "on a valid query and lets no exception escape (Unidentifiable becomes None). Undecided (solver budget) and left to the bounded "
         "stand-in: the two line_7 guard obligations at its call site and line_7's final ValueError. Bounded part (decides 'refuses exactly when not identifiable' and 'caller's "
         "objects unchanged' end to end): identify_outcomes on every ADMG with 2-3 nodes x every query, textbook graphs, sampled 4-6 node ADMGs (incl. string-labelled graphs), "
         "and a verdict-only family of 120,000 uniformly sampled 4-5 node ADMGs x queries (no numeric evaluation, so it is cheap), "
         "against an independent c-component identifiability criterion. Precondition of every ID contract: the nodes are plain variables (a counterfactual variable cannot be summed over). Termination: every recursive call of `identify` is shown to decrease a well-founded measure (the node set "
         "shrinks strictly -- lines 2 and 7, the latter via a proved cut: the district of G enclosing the single district of G-X is bidirected-connected, and G is not one district -- "
         "or stays and the set of non-treatment nodes shrinks strictly -- lines 3 and 4); loops inside the graph operations iterate over finite containers and are not given variants.",
         TRUST + "; trusted mathematics: hedge criterion (Shpitser & Pearl 2006) = Tian-Pearl c-component criterion used by the oracle; assumed contracts: p_conditional, Product.safe over an index set (opaque)",
         TECH + " + bounded end-to-end check against an independent identifiability oracle", "DESIGN.md §5 C02"),
 "C01": ("other", "Shape layer proved for all graphs/queries: line_1, line_2, line_3, line_4, line_7 of ID build exactly the published recursive arguments -- outcomes, treatments (x & An(Y); x | W; v - s_i per district s_i of G-X; x & S'), "
         "graph (G[An(Y)]; G; G[S']) and the summation ranges (V-Y; V-An(Y)) -- and `identify` follows the published case split (see C02); line_6 (the function) has its three guards "
         "proved and, as obligations at its call sites, that it sums over exactly S-Y and takes every conditional for a node of S over an ordering of the graph's nodes; the two sums "
         "identify() builds itself (lines 4 and 6) are proved to range over exactly V-X-Y. The expressions built in lines 4, 6, 7 "
         "(products of conditionals over a district, p_conditional) are opaque to the prover; that the returned estimand equals P(Y|do(X)) is decided by the labelled bounded stand-in: "
         "exact evaluation on random positive SCMs (one latent per bidirected edge), all value assignments including free variables, for every ADMG on 2-3 nodes x every query, a "
         "catalogue of textbook graphs (napkin, front-door, Verma, ...; extended with two 5-6 node shapes after seeded changes were missed), and sampled 4-6 node ADMGs.",
         TRUST + "; trusted mathematics: soundness of ID (Shpitser & Pearl 2006, Thm 5) only for the reading of the shape layer; the bounded part trusts the exact SCM evaluator (y0vc/scm.py)",
         TECH + " (shape layer) + bounded exact-SCM evaluation of the estimand", "DESIGN.md §5 C01"),
 "C03": ("other", "Proved for all graphs and conditional queries (thorough tier; VC generation of idc takes minutes, so the quick tier uses its contract as stated): IDC is total -- "
         "on a valid query over an acyclic graph the only exception is Unidentifiable; every call of the rule-2 test, every exchange of an observation for an action, the recursive "
         "call and the final ID call satisfy their preconditions (KeyError / NodeNotFound from the separation test, ValueError from the exchange and NetworkXError from the surgery are "
         "unreachable). rule_2_of_do_calculus_applies: exception freedom proved; that its verdict is m-separation of every outcome from z given X | (Z - z) in G with edges into X and "
         "out of z removed is stated as a contract over are_d_separated's contract (undecided: closure equalities) and left to its bounded stand-in (the real function against that "
         "definition, with networkx d-separation on the canonical DAG, for every condition of every sampled query). Termination: each recursive call of idc has a strictly smaller "
         "conditioning set (`decreases@idc`, thorough tier). The value clause (estimand = "
         "P(Y,Z|do X)/P(Z|do X)) is decided by the bounded stand-in: exact SCM evaluation on every ADMG with 2-3 nodes x every conditional query, textbook graphs, sampled 4-6 node ADMGs.",
         TRUST + "; assumed contracts: are_d_separated (C04), identify (C02), normalize_marginalize (C13, bounded); trusted mathematics: Shpitser & Pearl 2006b Thm 6-7",
         TECH + " (totality) + bounded exact-SCM evaluation", "DESIGN.md §5 C03"),
 "C17": ("other", "Proved for all inputs: the marginalisation steps of Tian-Pearl identification sum over exactly the published variable sets -- compute_ancestral_set_q_value "
         "(Lemma 3: sum of Q[T] over T - A) and compute_q_value_of_variables_with_low_topological_ordering_indices (Lemma 4: sum over the variables after v_i in the order; One() for the "
         "empty prefix; KeyError exactly for a vertex outside the order). The IDENTIFY recursion (identify_district_variables: list indexing by `.index(True)`, dynamic class dispatch) and "
         "the c-factor products are outside the generator's subset and are decided by the labelled bounded stand-in: Q[T] and Q[C] evaluated against P(. | do(rest)) of a random positive "
         "SCM on every ADMG with 2-3 nodes and sampled 4-6 node ADMGs, every district T and bidirected-connected C, two topological orders, Q[T] given both as the Lemma-1/4 product and, "
         "where valid, as the single conditional P(T | V - T).",
         TRUST + "; trusted mathematics: Tian & Pearl 2003 Lemmas 1, 3, 4 (validated numerically by the oracle)", TECH + " + bounded exact-SCM evaluation", "DESIGN.md §5 C17"),
 "C12": ("other", "Three layers. (1) Proved (QF_UFNRA): the operators the parser applies when it evaluates the printed text (`*`, `/` of every expression class, Product.safe) denote "
         "product and quotient (shared with C13). (2) Exhaustive over a syntactic-class abstraction: the real to_y0 printers of Product, Fraction, Sum, One, Zero are run on all 10,395 "
         "expression trees of depth <= 3 over opaque atomic leaves and the text is read back with CPython's own parser: it parses, uses only names parse_y0 knows, and -- read with ordinary "
         "precedence -- means what the object means; since the syntactic class of a printer's output does not depend on what lies below depth 1 this covers every parent/child/grandchild "
         "combination (inductive, relative to Python's grammar being an operator-precedence grammar). (3) Bounded: parse_y0(str(e)) on every probability leaf over three variables (1-2 children, 0-2 parents, "
         "+/- marks, 0-2 subscripts in both insertion orders carried by all variables or by the first child only, with and without a population; also in fresh interpreters under three "
         "hash seeds) and on sampled compound expressions (population tags, Q factors), judged by exact evaluation; object equality and text fix-point on the un-nested-division family. "
         "The leaf printers (Variable, CounterfactualVariable, Distribution, Probability/PopulationProbability, QFactor) and the probability builders are covered by (3) only.",
         TRUST + "; Python's expression grammar is an operator-precedence grammar; variable names are those parse_y0 predefines (A-Z, A0-Z9, Pi, ...), as in the property's 'built through the public DSL'",
         "contract-based proof of the operators + exhaustive printer/parser check over syntactic classes (CPython's parser as oracle) + bounded round trips", "DESIGN.md §5 C12"),
 "C20": ("other", "Proved for all graphs (cyclic or not), node triples, conditioning sets and sigma maps, in the exact theory of relations: each per-triple predicate "
         "(is_collider, the two chains, the fork) equals its definition -- a collider is open iff one of its descendants is conditioned on; a non-collider with a directed edge out "
         "of the middle node is blocked only when the middle node is conditioned on and lies outside the sigma class of the child -- the combined triple test is mirror symmetric "
         "(helper(l,m,r) = helper(r,m,l): the step from which symmetry of the verdict follows), and get_equivalence_classes returns exactly the strongly connected components "
         "(singletons on acyclic graphs); the one-step backtrack augmentation (_triple_has_correct_form) equals its definition -- the plain test, or through some neighbour n != m of the "
         "middle node the triples (l,m,n), (m,n,m), (n,m,r) all pass -- and is mirror symmetric as well; is_z_sigma_open holds for a simple path exactly when neither end point is conditioned on and every triple of consecutive "
         "nodes passes that test. The path enumeration (networkx.all_simple_paths in are_sigma_separated) is outside the subset; symmetry, the "
         "adjacency rule and agreement with d-separation on acyclic graphs are decided end to end by the labelled bounded stand-in: every directed mixed graph with 2-3 nodes x every "
         "query and sampled 4-5 node graphs against networkx d-separation on the canonical DAG, including a history family (the graph object is queried once before its last edge "
         "is added in place: no verdict may depend on state kept from an earlier call).",
         TRUST, TECH + " (triple predicates, sigma classes) + bounded end-to-end check against an oracle", "DESIGN.md §5 C20"),
 "C16": ("other", "Round-trip clause proved for all mixed graphs (sets/relations, injectivity of generated names): to_latent_variable_dag returns a tagged DAG whose observed nodes and "
         "edges are exactly the graph's, in which every latent is a parentless node whose children are the two end points of a bidirected edge, one per bidirected edge; "
         "from_latent_variable_dag reads any tagged DAG back as specified (observed nodes, edges leaving observed nodes, a bidirected edge between distinct children of a latent; "
         "ValueError iff a node lacks the tag); and composing the two contracts gives back the original graph, nodes without edges included (clauses roundtrip.*). "
         "Evans simplification: the three removal rules (remove_widow_latents, remove_unidirectional_latents, remove_redundant_latents -- in-place functions, contract frame "
         "`mutates:graph`) are proved for every tagged DAG of every size to remove exactly the latents the rule names (no child; exactly one child; child set properly inside "
         "another latent's, or equal to it with a later name) and to leave every other node, edge and tag untouched, and to return exactly the removed set. "
         "transform_latents_with_parents (it mutates the DiGraph while a lazy topological iterator over it is live) and the fixed-point loop of simplify_latent_dag are outside the "
         "VC generator's subset; the composition is decided by the labelled bounded stand-in: idempotence, observed nodes kept, and equality with the latent projection on every DAG with 2-4 nodes x every latent tagging, sampled 5-6 node tagged DAGs, "
         "and a structured family of latent chains (a latent with observed parents whose children include another latent). "
         "The 'consequently' clause (separation / identifiability unchanged) follows from projection equality by Evans 2016 (trusted).",
         TRUST + "; preconditions: latent names f'{prefix}{i}' are not nodes of the graph, no bidirected self-loops; Variable(f'{prefix}{i}') injective in i; trusted mathematics: Evans 2016",
         TECH + " (round trip) + bounded exhaustive check of Evans simplification against an independent latent projection", "DESIGN.md §5 C16"),
 "C18": ("other", "Proved for all graphs and node pairs (exact theory of relations): merge_pw returns (graph', kept, eliminated) where the factual copy is preferred, every edge not "
         "touching the eliminated copy survives, the eliminated copy's children and bidirected neighbours are redirected to the kept copy, the eliminated copy is gone, the kept "
         "copy is present, no node is invented, and every other node survives except parents of the eliminated copy that are not parents of the kept one (that exception is the open "
         "known finding: the paper's merge removes only the eliminated copy). The structural parts of the Lemma 24 test are proved too: has_same_confounders (joined by a bidirected edge, or "
         "neither has one), has_same_function (copies of one variable, both or neither fixed by their own world), is_not_self_intervened (relative to the Variable algebra). The construction as a whole (worlds as frozensets of interventions, `node @ world`, the event dictionary) "
         "needs a Variable algebra the generator does not have; the probability / inconsistency / ancestral-graph clauses are decided by the labelled bounded stand-in: "
         "make_counterfactual_graph against a functional-SCM oracle (noise shared across worlds) on every ADMG with 2-3 nodes and sampled 3-4 node ADMGs with sampled conjunctions of "
         "up to 3 counterfactual events (non-reflexive subscripts); and a run-time contract of make_parallel_worlds_graph (bounded): nodes, directed and bidirected edges equal the "
         "definition of the parallel-worlds graph (two distinct copies are joined exactly when they share exogenous noise) for 1-4 worlds.",
         TRUST + "; trusted mathematics: Shpitser & Pearl 2008 Lemmas 24, 25; the bounded part trusts y0vc/fscm.py", TECH + " (merge_pw) + bounded functional-SCM oracle", "DESIGN.md §5 C18"),
 "C06": ("other", "Deductive part: every summation range that ID introduces (lines 1, 2, 4, 6) and every argument of the conditionals P(v | predecessors) it builds (lines 6, 7) is proved, "
         "for all graphs and queries, to be a plain node of the graph the function was called with (`audit.*` obligations attached to the Sum.safe / p_conditional call sites of "
         "identify, line_1, line_2, line_7; those of identify and line_7 are generated and discharged in the runs of their owner properties C02 and C01 and listed here as assumed), and every recursive call is on a graph whose nodes are nodes of the caller's graph (the `decreases` obligations of C02) -- so, inductively, "
         "of the user's graph. What a Sum.safe / p_conditional / marginalize call does with those arguments is an assumed leaf contract. The vocabulary of complete estimands (a recursive predicate over expression trees: leaves, subscripts, population tags) "
         "is outside what the contracts in place express; it is decided by the labelled bounded stand-in: a syntactic vocabulary check of the estimands returned by ID (C01 query set), "
         "IDC (C03 query set: only observational terms over graph nodes), ID* / IDC* (sampled events over every ADMG with 2-3 nodes and sampled 3-4 node ADMGs: every probability term "
         "single-world), and the transport algorithm (population tags of declared domains, only declared experiments, no selection node in leaves or ranges) on DAGs with 3-4 nodes and "
         "at most one bidirected edge away from outcomes and roots -- other shapes are left out because the unchanged library was reported (sub-agent, not reproduced deterministically) "
         "to depend on the hash seed there.",
         TRUST, "bounded syntactic vocabulary check on enumerated / sampled queries + contract-based proof that ID's summation ranges and conditional arguments are graph nodes", "DESIGN.md §5 C06"),
 "C11": ("other", "No obligation is discharged for this property (stated in the evidence: obligations = 0): the Canon predicate (children sorted by the ordering, flat products sorted by an "
         "injective key) needs an ordered-sequence / sort-key theory the VC generator does not have, so the check is the labelled bounded stand-in only. On sampled well-scoped "
         "expressions of depth <= 3, products of 4-6 factors under random bracketings, products of compound factors sharing their leading inner factor, and every probability leaf "
         "over three variables (value marks, subscripts, population tag) in every order of its children and parents: idempotence, "
         "invariance under presentation (factor order, product nesting, order of variables around the bar), and identical canonical text under three PYTHONHASHSEED values in fresh "
         "interpreters. Two open known findings (sort-key ties; single-pass fraction / product handling) are replayed every run and their classes are excluded from the clause they break: "
         "K2 by a predicate on the input, K1 both by a predicate on the input (a re-statement of the intended keys on an independent normal form) and on the outputs (two canonical forms "
         "that differ only in the relative order of factors whose documented keys are equal) -- nested sums, unit factors and nested fractions make ties unpredictable from the input alone.",
         "Trusted: the exact evaluator and the re-statement of the intended sort keys in props/C11.py; note that canonicalize() sorts any supplied ordering by name, so the effective ordering is always alphabetical",
         "bounded run-time check only (no contract discharged)", "DESIGN.md §5 C11"),
 "C19": ("other", "Proved for all graphs and variables (relations + a small algebra of Variable objects: base variable, subscript relation, plain variable of the same name): "
         "minimize_counterfactual returns a variable with the same base whose subscripts are exactly those of x that lie in An(Y) of G with the edges into X removed, a counterfactual "
         "variable iff that set is non-empty and otherwise the plain variable -- in particular the constructor's ValueError for an empty subscript set is unreachable; same_district "
         "is true iff all base variables lie in one bidirected-connectivity class; get_ancestors_of_counterfactual returns exactly the set of Def. 2.1 (for graphs whose nodes are "
         "unstarred plain variables): every member is W or W_z with W an ancestor of Y in G with the edges out of X removed and z exactly the subscripts of x that are ancestors of W "
         "in G with the edges into X removed, and every such W occurs; is_counterfactual_factor_form is true exactly for events in ctf-factor form (Def. 3.4: subscripts on every parent of "
         "the base variable and none on the base variable itself; no parents for a variable without subscripts). Bounded stand-in (labelled): minimisation and the Def. 2.1 ancestors against independent "
         "re-implementations on every ADMG with 2-3 nodes and sampled 3-4 node ADMGs x every counterfactual variable with <= 2 subscripts; SIMPLIFY against a functional-SCM oracle "
         "(None only for probability-zero events, otherwise equal probability, no ill-formed variable) outside the input class of one open known finding; get_ancestral_components against a re-implementation of Def. 4.2 (sampled root sets "
         "<= 3 variables, X* a subset); do_counterfactual_factor_factorization against Eq. 11-15 structurally and the identity itself numerically on functional SCMs (queries whose "
         "ancestor set has one vertex in two worlds are skipped: the library sums over names).",
         TRUST + "; data invariants of Variable / Intervention / CounterfactualVariable as axioms of the Variable algebra (y0vc/logic.py var_algebra); trusted mathematics: Correa, Lee & Bareinboim 2022",
         TECH + " (minimisation, district test) + bounded checks against re-implemented definitions and a functional-SCM oracle", "DESIGN.md §5 C19"),
 "C05": ("other", "Proved for all graphs and node sets (relations, closures, injective selection-node names): get_nodes_to_transport returns exactly the nodes the published derivation marks "
         "as differing in a source domain -- (De(Z) - W) together with the districts meeting W minus An(W) in G with the edges into Z removed -- and raises only for Intervention objects or "
         "nodes outside the graph; create_transport_diagram returns the graph plus one fresh selection node T_v with the single edge T_v -> v per marked node; trso_line1 sums over exactly "
         "the regular (non-selection) nodes other than the outcomes. The TRSO recursion itself (deepcopy of a query record holding a dict of graphs, dict iteration over domains) is outside "
         "the subset. Its steps are checked by run-time contracts on direct calls (bounded, labelled): trso_line2 / 3 / 4, _line_6_helper and all_transports_d_separated against their "
         "definitions (networkx, d-separation oracle on the canonical DAG, caller state unchanged) on every ADMG with 2-3 nodes and sampled 4-5 node ADMGs with derived selection diagrams; "
         "trso_line9 / trso_line10 on every district of every ADMG with 2-3 nodes, sampled 4-node DAGs with <= 2 bidirected edges and sampled 5-node ADMGs against "
         "Q[C'] = P(C'|do(V-C')) on an exact SCM. The numeric clause, the 'same verdict as ID when there is no source domain' clause and 'never fails otherwise' are decided by the labelled bounded stand-in: "
         "identify_target_outcomes on every ADMG with 2-3 nodes and sampled 4-5 node ADMGs, sampled queries and 0-2 source domains (plus a family in which two source domains are usable at the same step, both dictionary orders), against a family of exact SCMs in which each source "
         "domain shares every mechanism with the target except at the nodes of its selection diagram (own implementation of the derivation).",
         TRUST + "; transport_variable(v) = Variable('T_' + v.name) modelled as an injective function into selection nodes; trusted mathematics: Tikka & Karvanen 2019 (TRSO soundness)",
         TECH + " (selection diagrams, line 1) + bounded multi-domain exact-SCM evaluation", "DESIGN.md §5 C05"),
}
NA = {
 "C07": "not claimed: on the unchanged tree ID* violates the property, under the reading the property itself fixes, on a broad class that no contract within reach delimits -- 305 of 1,318 "
        "sampled small events (every ADMG on 2-3 nodes, up to 3 conjuncts) disagree with a functional-SCM oracle: non-event ancestors are left unsummed by line 9, the polarity / event value of "
        "Markov-pillow subscripts is lost (_to_interventions forces star=False), Zero is returned for possible events with '+' marks. A check would either alarm on the unchanged tree or exclude "
        "so much that passing means little; a contract-level refinement needs a Variable/world algebra the VC generator does not have. Building blocks are claimed separately (C18 merge_pw and the "
        "counterfactual graph, C13 operators). The oracle used for this finding is kept under notes/oracles/.",
 "C08": "not claimed: IDC* ends with ID* (see C07) and Expression.conditional (open known finding of C13: bound variables and subscripts enter the normalising sum), so the unchanged tree "
        "violates the property on a broad class; the same reasons as C07 apply.",
 "C09": "not applicable (DESIGN §6): the statement quantifies over multi-domain functional SCM families under stochastic policies whose semantics the implementation itself leaves open; "
        "no trusted lemma layer for Algorithms 2-4 of Correa et al. could be stated with confidence, and a contract saying 'does what the 2,800-line implementation does' would prove a look-alike. "
        "Its building blocks are claimed separately (C17 c-factor identification, C14 graph surgery).",
}
def main():
    props = [json.loads(l) for l in open(ROOT / "properties.jsonl")]
    m = {"version": 1, "setup_cmd": "./setup.sh",
         "hooks": {"guard": "Y0_VERIF", "enable": "none needed: contracts are sidecar files under /verif/contracts; the source under /repo/src is parsed (ast) and imported unmodified",
                   "baseline_off_cmd": "cd /repo && /venv/bin/python -m pytest -q -p no:cacheprovider --timeout=900", "source_commits": [], "add_only": True},
         "engines": [{"name": "y0vc", "path": "y0vc/", "serves_properties": sorted(CHECKS),
                      "kind_free_text": "contract-based deductive verification for Python: sidecar contracts (contracts/*.py) on the real functions, VC generation by symbolic execution of the real AST (y0vc/symexec.py), z3 + cvc5 discharge, finite exact mode for counterexamples replayed on the real code, the same contracts evaluated at run time as bounded stand-in"}],
         "checks": [], "notes": "DESIGN.md section 0 describes what is built (it overrides the plan in sections 1-8). 17 properties are claimed; only C14 is claimed as proof, every other check separates "
                  "discharged obligations from labelled bounded parts in its evidence file. C07, C08, C09 are not applicable (reasons below and in DESIGN.md 0.4). Exit codes: 0 held (UNDECIDED "
                  "lines name obligations left to the bounded stand-in), 1 VIOLATION, 3 checker error. VERIF_SEED selects the sampled inputs (and the interpreter's hash seed); known findings "
                  "are in known_findings.json; 19 fix: commits in /repo are listed there under `fixed`. Developer tools (not registered): bin/mutcheck, bin/seedmatrix.sh / bin/seedmatrix_par.sh (seeded/: 109 changes from seven rounds of "
                  "independent sub-agents, results in seeded/RESULTS.tsv and DESIGN.md 0.5), bin/benignmatrix.sh (benign/: 24 semantics-preserving refactorings, results in benign/RESULTS.tsv), "
                  "bin/seedsweep.sh, bin/dev.py (one function: generate and discharge).",
         "not_applicable": []}
    for p in props:
        pid = p["id"]
        if pid in CHECKS:
            cat, text, note, tech, ref = CHECKS[pid]
            m["checks"].append({"property_id": pid, "quick_cmd": f"./bin/check {pid} --tier quick", "thorough_cmd": f"./bin/check {pid} --tier thorough",
                                "evidence_file": f"/verif/evidence/{pid}.json", "replay_cmd_template": f"./bin/check {pid} --replay {{path}}", "engine": "y0vc",
                                "level_claimed": {"category": cat, "text": text, "design_ref": ref}, "level_note": note, "technique": tech})
        else:
            m["not_applicable"].append({"property_id": pid, "reason": NA.get(pid, "check not built yet (work in progress)")})
    (ROOT / "MANIFEST.json").write_text(json.dumps(m, indent=1))
    import jsonschema
    jsonschema.validate(m, json.load(open("/root/.vp/MANIFEST.schema.json")))
    print("MANIFEST ok:", len(m["checks"]), "checks,", len(m["not_applicable"]), "not applicable")
main()
