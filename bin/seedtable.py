#!/verif/.venv/bin/python
"""Developer tool: markdown table of the seeded changes and the obligation that caught each (from seeded/*/meta.json and
seeded/RESULTS.tsv, which bin/seedmatrix.sh writes)."""
import json, pathlib, re
root = pathlib.Path(__file__).resolve().parent.parent
res = {}
for line in (root / "seeded/RESULTS.tsv").read_text().splitlines():
    p = line.split("\t")
    if len(p) >= 4:
        res[p[0]] = (p[2], p[3].strip())
print("| seed | change (file: what) | quick check result | first failed obligation |")
print("|---|---|---|---|")
for d in sorted((root / "seeded").glob("C*-*")):
    m = json.loads((d / "meta.json").read_text())
    files = ", ".join(pathlib.Path(f).name for f in m.get("files", []))
    summ = re.split(r"(?<=[.;:])\s", m.get("summary", "").strip())[0][:170]
    code, line = res.get(d.name, ("?", ""))
    ob = line.replace("failed obligation:", "").strip()
    verdict = {"exit=1": "VIOLATION", "exit=0": "**missed**", "exit=3": "not claimed", "-": "not claimed"}.get(code, code)
    if ob.startswith("OK "):
        ob = ""
    print(f"| {d.name} | {files}: {summ} | {verdict} | `{ob}` |" if ob else f"| {d.name} | {files}: {summ} | {verdict} | |")
