#!/verif/.venv/bin/python
"""Developer tool: print hypotheses and goal of the instances of one obligation. usage: dbg_inst.py <function substr> <oid substr> [index]"""
import sys, time
sys.path.insert(0, "/verif")
from y0vc.extract import Repo
from y0vc.contract import REGISTRY
from y0vc.verify import generate
import importlib, pkgutil, contracts
for m in pkgutil.iter_modules(contracts.__path__):
    importlib.import_module("contracts." + m.name)
repo = Repo()
pat, opat = sys.argv[1], sys.argv[2]
idx = int(sys.argv[3]) if len(sys.argv) > 3 else 0
for q, con in REGISTRY.items():
    if pat not in q: continue
    G = generate(repo, con)
    insts = [i for i in G.instances if opat in i.oid]
    print(len(insts), "instances")
    inst = insts[idx]
    print("NOTE", inst.note)
    for h in inst.hyps:
        print("HYP", h.sexpr()[:3000])
    print("GOAL", inst.goal.sexpr()[:3000])
    ax = inst.L.relevant_axioms(list(inst.hyps) + [inst.goal])
    print(len(ax), "axioms")
    if "--ax" in sys.argv:
        for a in ax: print("AX", a.sexpr()[:1500])
