#!/bin/bash
# Developer tool: run the checks that own the touched functions on each semantics-preserving refactoring in benign/ (expected: exit 0,
# no VIOLATION line; UNDECIDED lines are acceptable -- the refactored body may leave the generator's subset).
cd "$(dirname "$0")/.."
declare -A MAP=( [01]="C14" [02]="C14 C19" [03]="C14 C16" [04]="C04 C15" [05]="C01 C02" [06]="C03" [07]="C13 C10" [08]="C10 C11" [09]="C13" [10]="C05" [11]="C19" [12]="C20" [13]="C16" [14]="C18" [15]="C16" [16]="C16" [17]="C16" [18]="C13 C10" [19]="C13 C03" [20]="C14 C04" [21]="C18" [22]="C05" [23]="C05" [24]="C02 C01" )
OUT=${1:-/dev/stdout}
for k in $(ls benign | grep "^${ONLY:-[0-9][0-9]}.diff" | sed 's/.diff//'); do
  for p in ${MAP[$k]}; do
    r=$(LINES_MAX=400 ./bin/mutcheck "$PWD/benign/$k.diff" $p 2>&1)
    ex=$(echo "$r" | grep -o "exit=[0-9]*")
    und=$(echo "$r" | grep -c "^UNDECIDED")
    vio=$(echo "$r" | grep -c "^VIOLATION")
    echo -e "$k\t$p\t$ex\tundecided=$und\tviolations=$vio" >> "$OUT"
  done
done
