#!/bin/bash
# Developer tool: run every registered quick check under other VERIF_SEED values (evidence goes to a temporary directory) and print
# one line per check; any VIOLATION or non-zero exit on the unchanged tree is a defect of the check or of y0 and must be triaged.
cd "$(dirname "$0")/.."
[ -x .venv/bin/python ] || ./setup.sh >/dev/null 2>&1
for s in "$@"; do
  for id in $(.venv/bin/python -c "import json;print(' '.join(c['property_id'] for c in json.load(open('MANIFEST.json'))['checks']))"); do
    EV=$(mktemp -d /tmp/seedev_XXXXXX)
    out=$(VERIF_SEED=$s Y0VC_EVIDENCE_DIR="$EV" ./bin/check "$id" --tier quick 2>&1)
    ex=$?
    echo "seed=$s $id exit=$ex $(echo "$out" | grep -c '^VIOLATION') violations; $(echo "$out" | grep -c '^UNDECIDED') undecided; $(echo "$out" | tail -1 | cut -c1-160)"
    echo "$out" | grep "^VIOLATION\|CHECKER-ERROR" | head -5
    if [ $ex -ne 0 ]; then mkdir -p notes/seedsweep; cp -r "$EV/replays" "notes/seedsweep/seed${s}_$id" 2>/dev/null; fi
    rm -rf "$EV"
  done
done
