#!/bin/bash
# Developer tool: run every stored seeded change (and the reverse of every fix commit) against the check of its property.
# Writes seeded/RESULTS.tsv  (id, property, exit code, first VIOLATION line / OK line)
cd "$(dirname "$0")/.."
OUT=${1:-seeded/RESULTS.tsv}
: > "$OUT"
for d in seeded/C*-*/; do
  id=$(basename "$d"); prop=${id%%-*}
  if ! grep -q "\"property_id\": \"$prop\"" MANIFEST.json; then echo -e "$id\t$prop\t-\tnot claimed" >> "$OUT"; continue; fi
  res=$(bin/mutcheck "$PWD/$d/patch.diff" "$prop" 2>&1)
  code=$(echo "$res" | grep -o "exit=[0-9]*" | tail -1)
  line=$(echo "$res" | grep -m1 "failed obligation\|^OK \|patch failed" | cut -c1-160)
  echo -e "$id\t$prop\t$code\t$line" >> "$OUT"
done
cat "$OUT"
