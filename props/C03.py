"""C03 bounded part: identify_outcomes(..., conditions=Z) (IDC) on enumerated / sampled conditional queries: the returned
estimand, evaluated on the observational distribution of a random positive SCM, must equal P(Y,Z|do X)/P(Z|do X) for every
assignment (including free variables); any exception other than the 'unidentifiable' refusal is a violation."""
from __future__ import annotations

import itertools as itt
import json
import multiprocessing as mp
import random
import time

from props import idfam
from y0vc import concrete, exproracle as xo, oracles, pipeline, scm


def cqueries(vs):
    for k in range(0, len(vs) - 1):
        for xs in itt.combinations(vs, k):
            rest = [v for v in vs if v not in xs]
            for j in range(1, len(rest)):
                for ys in itt.combinations(rest, j):
                    rest2 = [v for v in rest if v not in ys]
                    for m in range(1, len(rest2) + 1):
                        for zs in itt.combinations(rest2, m):
                            yield list(xs), list(ys), list(zs)


def gen_cases(tier, rng, n_random):
    for n in (2, 3):
        for vs, d, u in oracles.all_admgs(n):
            for xs, ys, zs in cqueries(vs):
                yield {"nodes": vs, "directed": d, "undirected": u, "X": xs, "Y": ys, "Z": zs, "seed": rng.randrange(1 << 30)}
    for name, (vs, d, u) in oracles.TEXTBOOK.items():
        qs = list(cqueries(vs))
        for xs, ys, zs in rng.sample(qs, min(len(qs), 25)):
            yield {"nodes": vs, "directed": d, "undirected": u, "X": xs, "Y": ys, "Z": zs, "seed": rng.randrange(1 << 30), "name": name}
    for _ in range(n_random):
        n = rng.choice([4, 4, 5, 5, 6])
        vs, d, u = oracles.random_admg(rng, n, p_d=rng.choice([0.3, 0.45, 0.6]), p_u=rng.choice([0.15, 0.3]) if n < 6 else 0.15)
        u = u[:5]
        perm = rng.sample(vs, n)
        kx = rng.randint(0, n - 2)
        ky = rng.randint(1, max(1, min(2, n - kx - 1)))
        kz = rng.randint(1, max(1, min(3, n - kx - ky)))
        if kx + ky + kz > n:
            continue
        yield {"nodes": vs, "directed": d, "undirected": u, "X": perm[:kx], "Y": perm[kx:kx + ky], "Z": perm[kx + ky:kx + ky + kz],
               "seed": rng.randrange(1 << 30)}


def run_case(c):
    dsl = concrete.y0mod("y0.dsl")
    api = concrete.y0mod("y0.algorithm.identify")
    V = dsl.Variable
    vs, d, u = c["nodes"], c["directed"], c["undirected"]
    g = oracles.build(vs, d, u, random.Random(c["seed"]))
    try:
        est = api.identify_outcomes(g, {V(x) for x in c["X"]}, {V(y) for y in c["Y"]}, conditions={V(z) for z in c["Z"]})
    except Exception as e:
        return f"raised {type(e).__name__}: {e}"
    if est is None:
        return None
    why = idfam.vocab_obs(est, set(vs))
    if why:
        return "estimand outside the observational vocabulary: " + why
    m = scm.SCM(vs, d, u, c["seed"])
    model = xo.Model.from_scm(m)
    for xv in itt.product(range(2), repeat=len(c["X"])):
        do = dict(zip(c["X"], xv))
        for env in xo.envs(m.order):
            if any(env[k] != v for k, v in do.items()):
                continue
            pz = m.prob({z: env[z] for z in c["Z"]}, do)
            if pz == 0:
                continue
            want = m.prob({**{y: env[y] for y in c["Y"]}, **{z: env[z] for z in c["Z"]}}, do) / pz
            try:
                got = xo.ev(est, env, model)
            except xo.Undefined:
                continue
            if got != want:
                return f"estimand {est} evaluates to {got} at {env}, P(Y,Z|do X)/P(Z|do X) is {want}"
    return None


def _eval(c):
    try:
        return c, run_case(c), None
    except Exception as e:
        return c, None, f"{type(e).__name__}: {e}"


def run_rule2_case(c):
    """rule_2_of_do_calculus_applies against its definition: (Y _||_ z | X, Z - z) in G with the edges into X and out of z removed
    (d-separation of the oracle: networkx on the canonical DAG)."""
    dsl = concrete.y0mod("y0.dsl")
    idc = concrete.y0mod("y0.algorithm.identify.id_c")
    ut = concrete.y0mod("y0.algorithm.identify.utils")
    V = dsl.Variable
    vs, d, u = c["nodes"], c["directed"], c["undirected"]
    g = oracles.build(vs, d, u, random.Random(c["seed"]))
    ident = ut.Identification.from_parts(outcomes={V(y) for y in c["Y"]}, treatments={V(x) for x in c["X"]}, conditions={V(z) for z in c["Z"]}, graph=g)
    for z in c["Z"]:
        try:
            got = bool(idc.rule_2_of_do_calculus_applies(ident, V(z)))
        except Exception as e:
            return f"rule_2_of_do_calculus_applies(.., {z}) raised {type(e).__name__}: {e}"
        d2 = [(a, b) for a, b in d if b not in c["X"] and a != z]
        u2 = [(a, b) for a, b in u if a not in c["X"] and b not in c["X"]]
        cond = set(c["X"]) | (set(c["Z"]) - {z})
        want = all(oracles.d_separated(vs, d2, u2, y, z, cond) for y in c["Y"])
        if got != want:
            return f"rule 2 for condition {z}: library says {got}, definition gives {want}"
    return None


def _eval_r2(c):
    try:
        return c, run_rule2_case(c), None
    except Exception as e:
        return c, None, f"{type(e).__name__}: {e}"


def extra(rep, repo, registry, known_open):
    t0 = time.time()
    rng = random.Random(repr((rep.seed, "C03")))
    cases = list(gen_cases(rep.tier, rng, 400 if rep.tier == "quick" else 12000))
    concrete.y0mod("y0.dsl")
    fails, errs = [], []
    with mp.get_context("fork").Pool(16) as pool:
        for c, why, err in pool.imap_unordered(_eval, cases, chunksize=8):
            if err:
                errs.append(err)
            elif why:
                fails.append((c, why))
    if errs:
        rep.errors.append(f"C03 bounded part: {len(errs)} evaluation errors, e.g. {errs[0]}")
    rep.extra_parts.append({"name": "idc-vs-scm-oracle", "kind": "bounded", "decides": True, "evaluations": len(cases),
                            "scope": "every ADMG on 2-3 nodes x every conditional query, textbook graphs, sampled 4-6 node ADMGs; exact SCM evaluation",
                            "failures": len(fails), "wall_s": round(time.time() - t0, 1)})
    # rule 2 against its definition (the contract's verdict clause is undecided in the quick tier: this is its bounded stand-in);
    # besides the queries above: every DAG on 4 nodes with 0 / 1 / 2 sampled bidirected edges x sampled conditional queries
    r2_cases = list(cases)
    import itertools as _itt
    for vs, d, u in oracles.all_admgs(4):
        if u:
            continue
        qs = list(cqueries(vs))
        for k in (0, 1, 2):
            uu = [tuple(e) for e in rng.sample(list(_itt.combinations(vs, 2)), k)]
            for xs, ys, zs in rng.sample(qs, 6 if rep.tier == "quick" else 40):
                r2_cases.append({"nodes": vs, "directed": d, "undirected": uu, "X": xs, "Y": ys, "Z": zs, "seed": rng.randrange(1 << 30)})
    # collider chains: y -> c1 <-> ... <-> ck <- w -> z with every collider conditioned (the only open path runs along the whole chain)
    for _ in range(300 if rep.tier == "quick" else 5000):
        k = rng.choice([1, 2, 2, 3])
        vs = oracles.names(k + 3)
        y, w, z, cs = vs[0], vs[1], vs[2], vs[3:]
        d = [(y, cs[0]), (w, cs[-1]), (w, z)]
        uu = list(zip(cs, cs[1:]))
        others = [(a, b) for a in vs for b in vs if a < b and (a, b) not in d and (b, a) not in d and (a, b) not in uu]
        for e in rng.sample(others, rng.choice([0, 0, 1])):
            (uu if rng.random() < 0.5 else d).append(e)
        import networkx as _nx
        if not _nx.is_directed_acyclic_graph(_nx.DiGraph(d)):
            continue
        r2_cases.append({"nodes": vs, "directed": d, "undirected": uu, "X": [], "Y": [y], "Z": [z] + cs, "seed": rng.randrange(1 << 30)})
    r2_fails = []
    with mp.get_context("fork").Pool(16) as pool:
        for c, why, err in pool.imap_unordered(_eval_r2, r2_cases, chunksize=16):
            if err:
                errs.append(err)
            elif why:
                r2_fails.append((c, why))
    if errs:
        rep.errors.append(f"C03 rule-2 cross-check: {len(errs)} evaluation errors, e.g. {errs[0]}")
    rep.extra_parts.append({"name": "rule-2-vs-definition", "kind": "bounded", "decides": True, "evaluations": len(r2_cases),
                            "scope": "the same queries plus every DAG on 4 nodes with 0 / 1 / 2 sampled bidirected edges x sampled conditional queries: rule_2_of_do_calculus_applies for every condition against d-separation (networkx, canonical DAG) in the mutilated graph",
                            "failures": len(r2_fails)})
    if r2_fails and not fails:
        c, why = min(r2_fails, key=lambda f: (len(f[0]["nodes"]), len(f[0]["directed"]) + len(f[0]["undirected"])))
        path = pipeline.write_replay("C03", "bounded.rule2", {"property": "C03", "obligation": "y0.algorithm.identify.id_c.rule_2_of_do_calculus_applies/bounded.verdict",
                                                             "case": c, "why": why, "rule2": True})
        rep.violations.append(("y0.algorithm.identify.id_c.rule_2_of_do_calculus_applies/bounded.verdict", path, ""))
    if fails:
        c, why = min(fails, key=lambda f: (len(f[0]["nodes"]), len(f[0]["directed"]) + len(f[0]["undirected"])))
        path = pipeline.write_replay("C03", "bounded.idc", {"property": "C03", "obligation": "y0.algorithm.identify.id_c.idc/bounded.value", "case": c, "why": why})
        rep.violations.append(("y0.algorithm.identify.id_c.idc/bounded.value", path, ""))
    rep.samples.append({"bounded_case": cases[len(cases) // 2]})


def replay(payload, path):
    why = run_rule2_case(payload["case"]) if payload.get("rule2") else run_case(payload["case"])
    print(json.dumps({"case": payload["case"], "now": why}, indent=1))
    if why:
        print(f"VIOLATION property=C03 replay={path}")
        return 1
    return 0
