"""C03 bounded part: identify_outcomes(..., conditions=Z) (IDC) on enumerated / sampled conditional queries: the returned
estimand, evaluated on the observational distribution of a random positive SCM, must equal P(Y,Z|do X)/P(Z|do X) for every
assignment (including free variables); any exception other than the 'unidentifiable' refusal is a violation."""
from __future__ import annotations

import itertools as itt
import json
import multiprocessing as mp
import random
import time

from props import idfam
from y0vc import concrete, exproracle as xo, oracles, pipeline, scm


def cqueries(vs):
    for k in range(0, len(vs) - 1):
        for xs in itt.combinations(vs, k):
            rest = [v for v in vs if v not in xs]
            for j in range(1, len(rest)):
                for ys in itt.combinations(rest, j):
                    rest2 = [v for v in rest if v not in ys]
                    for m in range(1, len(rest2) + 1):
                        for zs in itt.combinations(rest2, m):
                            yield list(xs), list(ys), list(zs)


def gen_cases(tier, rng, n_random):
    for n in (2, 3):
        for vs, d, u in oracles.all_admgs(n):
            for xs, ys, zs in cqueries(vs):
                yield {"nodes": vs, "directed": d, "undirected": u, "X": xs, "Y": ys, "Z": zs, "seed": rng.randrange(1 << 30)}
    for name, (vs, d, u) in oracles.TEXTBOOK.items():
        qs = list(cqueries(vs))
        for xs, ys, zs in rng.sample(qs, min(len(qs), 25)):
            yield {"nodes": vs, "directed": d, "undirected": u, "X": xs, "Y": ys, "Z": zs, "seed": rng.randrange(1 << 30), "name": name}
    for _ in range(n_random):
        n = rng.choice([4, 4, 5, 5, 6])
        vs, d, u = oracles.random_admg(rng, n, p_d=rng.choice([0.3, 0.45, 0.6]), p_u=rng.choice([0.15, 0.3]) if n < 6 else 0.15)
        u = u[:5]
        perm = rng.sample(vs, n)
        kx = rng.randint(0, n - 2)
        ky = rng.randint(1, max(1, min(2, n - kx - 1)))
        kz = rng.randint(1, max(1, min(3, n - kx - ky)))
        if kx + ky + kz > n:
            continue
        yield {"nodes": vs, "directed": d, "undirected": u, "X": perm[:kx], "Y": perm[kx:kx + ky], "Z": perm[kx + ky:kx + ky + kz],
               "seed": rng.randrange(1 << 30)}


def run_case(c):
    dsl = concrete.y0mod("y0.dsl")
    api = concrete.y0mod("y0.algorithm.identify")
    V = dsl.Variable
    vs, d, u = c["nodes"], c["directed"], c["undirected"]
    g = oracles.build(vs, d, u, random.Random(c["seed"]))
    try:
        est = api.identify_outcomes(g, {V(x) for x in c["X"]}, {V(y) for y in c["Y"]}, conditions={V(z) for z in c["Z"]})
    except Exception as e:
        return f"raised {type(e).__name__}: {e}"
    if est is None:
        return None
    why = idfam.vocab_obs(est, set(vs))
    if why:
        return "estimand outside the observational vocabulary: " + why
    m = scm.SCM(vs, d, u, c["seed"])
    model = xo.Model.from_scm(m)
    for xv in itt.product(range(2), repeat=len(c["X"])):
        do = dict(zip(c["X"], xv))
        for env in xo.envs(m.order):
            if any(env[k] != v for k, v in do.items()):
                continue
            pz = m.prob({z: env[z] for z in c["Z"]}, do)
            if pz == 0:
                continue
            want = m.prob({**{y: env[y] for y in c["Y"]}, **{z: env[z] for z in c["Z"]}}, do) / pz
            try:
                got = xo.ev(est, env, model)
            except xo.Undefined:
                continue
            if got != want:
                return f"estimand {est} evaluates to {got} at {env}, P(Y,Z|do X)/P(Z|do X) is {want}"
    return None


def _eval(c):
    try:
        return c, run_case(c), None
    except Exception as e:
        return c, None, f"{type(e).__name__}: {e}"


def extra(rep, repo, registry, known_open):
    t0 = time.time()
    rng = random.Random(repr((rep.seed, "C03")))
    cases = list(gen_cases(rep.tier, rng, 400 if rep.tier == "quick" else 12000))
    concrete.y0mod("y0.dsl")
    fails, errs = [], []
    with mp.get_context("fork").Pool(16) as pool:
        for c, why, err in pool.imap_unordered(_eval, cases, chunksize=8):
            if err:
                errs.append(err)
            elif why:
                fails.append((c, why))
    if errs:
        rep.errors.append(f"C03 bounded part: {len(errs)} evaluation errors, e.g. {errs[0]}")
    rep.extra_parts.append({"name": "idc-vs-scm-oracle", "kind": "bounded", "decides": True, "evaluations": len(cases),
                            "scope": "every ADMG on 2-3 nodes x every conditional query, textbook graphs, sampled 4-6 node ADMGs; exact SCM evaluation",
                            "failures": len(fails), "wall_s": round(time.time() - t0, 1)})
    if fails:
        c, why = min(fails, key=lambda f: (len(f[0]["nodes"]), len(f[0]["directed"]) + len(f[0]["undirected"])))
        path = pipeline.write_replay("C03", "bounded.idc", {"property": "C03", "obligation": "y0.algorithm.identify.id_c.idc/bounded.value", "case": c, "why": why})
        rep.violations.append(("y0.algorithm.identify.id_c.idc/bounded.value", path, ""))
    rep.samples.append({"bounded_case": cases[len(cases) // 2]})


def replay(payload, path):
    why = run_case(payload["case"])
    print(json.dumps({"case": payload["case"], "now": why}, indent=1))
    if why:
        print(f"VIOLATION property=C03 replay={path}")
        return 1
    return 0
