"""C17 bounded part: identify_district_variables / compute_c_factor on enumerated and sampled (graph, district T, subset C):
Q[T] is obtained from P(V) by compute_c_factor, the result must evaluate to the true Q[C] (= P(c | do(v - c))) on a random
positive SCM for every assignment; any exception is a violation."""
from __future__ import annotations

import itertools as itt
import json
import multiprocessing as mp
import random
import time

import networkx as nx

from y0vc import concrete, exproracle as xo, oracles, pipeline, scm


def gen_cases(tier, rng, n_random):
    def subcases(vs, d, u):
        ug = nx.Graph()
        ug.add_nodes_from(vs)
        ug.add_edges_from(u)
        for T in nx.connected_components(ug):
            T = sorted(T)
            if len(T) < 2:
                continue
            for k in range(1, len(T)):
                for C in itt.combinations(T, k):
                    if nx.number_connected_components(ug.subgraph(C)) == 1:
                        yield T, list(C)
    for n in (2, 3):
        for vs, d, u in oracles.all_admgs(n):
            for T, C in subcases(vs, d, u):
                yield {"nodes": vs, "directed": d, "undirected": u, "T": T, "C": C, "seed": rng.randrange(1 << 30)}
    for _ in range(n_random):
        n = rng.choice([4, 4, 5, 5, 6])
        vs, d, u = oracles.random_admg(rng, n, p_d=rng.choice([0.3, 0.5, 0.7]), p_u=rng.choice([0.3, 0.45, 0.6]) if n < 6 else 0.3)
        u = u[:6]
        sc = list(subcases(vs, d, u))
        for T, C in rng.sample(sc, min(len(sc), 3)):
            yield {"nodes": vs, "directed": d, "undirected": u, "T": T, "C": C, "seed": rng.randrange(1 << 30)}
    # branching districts: a random bidirected spanning tree over all five nodes plus up to two more bidirected edges, few directed edges
    for _ in range(n_random):
        vs = oracles.names(5)
        order = rng.sample(vs, 5)
        u = [tuple(sorted((order[i], order[rng.randrange(i)]))) for i in range(1, 5)]
        extra_u = [tuple(sorted(e)) for e in itt.combinations(vs, 2) if tuple(sorted(e)) not in u]
        u += rng.sample(extra_u, rng.choice([0, 1, 2]))
        topo = rng.sample(vs, 5)
        pos = {v: i for i, v in enumerate(topo)}
        d = [(a, b) for a in vs for b in vs if pos[a] < pos[b] and rng.random() < 0.25]
        sc = [(T, C) for T, C in subcases(vs, d, u) if 2 <= len(C) <= 3]
        for T, C in rng.sample(sc, min(len(sc), 3)):
            yield {"nodes": vs, "directed": d, "undirected": u, "T": T, "C": C, "seed": rng.randrange(1 << 30)}


def run_case(c):
    dsl = concrete.y0mod("y0.dsl")
    tian = concrete.y0mod("y0.algorithm.tian_id")
    V = dsl.Variable
    vs, d, u = c["nodes"], c["directed"], c["undirected"]
    g = oracles.build(vs, d, u, random.Random(c["seed"]))
    orders = [list(g.topological_sort())]
    dg = nx.DiGraph()
    dg.add_nodes_from(vs)
    dg.add_edges_from(d)
    alt = [V(x) for x in nx.lexicographical_topological_sort(dg, key=lambda x: -ord(x[-1]))]
    if alt != orders[0]:
        orders.append(alt)
    m = scm.SCM(vs, d, u, c["seed"])
    model = xo.Model.from_scm(m)
    for topo in orders:
        try:
            qT = tian.compute_c_factor(district=[V(t) for t in c["T"]], subgraph_variables={V(x) for x in vs},
                                       subgraph_probability=dsl.P([V(x) for x in vs]), graph_topo=topo)
            r = tian.identify_district_variables(input_variables=frozenset(V(x) for x in c["C"]), input_district=frozenset(V(t) for t in c["T"]),
                                                 district_probability=qT, graph=g, topo=topo)
        except Exception as e:
            return f"raised {type(e).__name__}: {str(e)[:120]}"
        checks = [(qT, c["T"]), (r, c["C"])]
        # when no variable outside T descends from T, Q[T] = P(T | V - T): the same query with that single conditional as input
        outside = [v for v in vs if v not in c["T"]]
        if outside and not any(nx.has_path(dg, t, o) for t in c["T"] for o in outside):
            qT2 = dsl.P(dsl.Distribution(children=tuple(V(t) for t in c["T"]), parents=tuple(V(o) for o in outside)))
            topo2 = [V(o) for o in nx.topological_sort(dg.subgraph(outside))] + [t for t in topo if t.name in c["T"]]
            try:
                r2 = tian.identify_district_variables(input_variables=frozenset(V(x) for x in c["C"]), input_district=frozenset(V(t) for t in c["T"]),
                                                      district_probability=qT2, graph=g, topo=topo2)
            except Exception as e:
                return f"raised {type(e).__name__} with Q[T] given as {qT2}: {str(e)[:120]}"
            checks += [(qT2, c["T"]), (r2, c["C"])]
        # Q[T] itself: the c-factor of the district
        for expr, target in checks:
            if expr is None:
                continue
            others = [v for v in vs if v not in target]
            for env in xo.envs(m.order):
                want = m.prob({t: env[t] for t in target}, {o: env[o] for o in others})
                try:
                    got = xo.ev(expr, env, model)
                except xo.Undefined:
                    continue
                if got != want:
                    return f"Q[{target}] = {expr} evaluates to {got} at {env}, true value {want} (order {[str(t) for t in topo]})"
    return None


def _eval(c):
    try:
        return c, run_case(c), None
    except Exception as e:
        return c, None, f"{type(e).__name__}: {e}"


def extra(rep, repo, registry, known_open):
    t0 = time.time()
    rng = random.Random(repr((rep.seed, "C17")))
    cases = list(gen_cases(rep.tier, rng, 500 if rep.tier == "quick" else 15000))
    concrete.y0mod("y0.dsl")
    fails, errs = [], []
    with mp.get_context("fork").Pool(16) as pool:
        for c, why, err in pool.imap_unordered(_eval, cases, chunksize=8):
            if err:
                errs.append(err)
            elif why:
                fails.append((c, why))
    if errs:
        rep.errors.append(f"C17 bounded part: {len(errs)} evaluation errors, e.g. {errs[0]}")
    rep.extra_parts.append({"name": "identify-district-vs-scm-oracle", "kind": "bounded", "decides": True, "evaluations": len(cases),
                            "scope": "every ADMG on 2-3 nodes, sampled 4-6 node ADMGs; every district T, every bidirected-connected C inside T; up to two "
                                     "topological orders; Q[T] and Q[C] compared with P(. | do(rest)) of a random positive SCM",
                            "failures": len(fails), "wall_s": round(time.time() - t0, 1)})
    if fails:
        c, why = min(fails, key=lambda f: (len(f[0]["nodes"]), len(f[0]["directed"]) + len(f[0]["undirected"])))
        path = pipeline.write_replay("C17", "bounded.identify", {"property": "C17", "obligation": "y0.algorithm.tian_id.identify_district_variables/bounded.value",
                                                                 "case": c, "why": why})
        rep.violations.append(("y0.algorithm.tian_id.identify_district_variables/bounded.value", path, ""))
    if cases:
        rep.samples.append({"bounded_case": cases[len(cases) // 2]})


def replay(payload, path):
    why = run_case(payload["case"])
    print(json.dumps({"case": payload["case"], "now": why}, indent=1))
    if why:
        print(f"VIOLATION property=C17 replay={path}")
        return 1
    return 0
