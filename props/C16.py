"""C16 bounded part: Evans simplification (simplify_latent.py mutates a DiGraph while iterating over it: outside the VC
generator's subset).  On every DAG with <= 4 nodes and every latent tagging (sampled 5-6 node DAGs in addition): idempotent,
keeps every observed node, and the mixed graph read off the result equals the latent projection of the input (a directed edge
per directed path through latents only, a bidirected edge per pair sharing a latent-only common ancestor).  Also the
end-to-end round trip to_latent_variable_dag -> from_latent_variable_dag on enumerated ADMGs (the deductive part proves it
for all graphs; this is the CPython cross-check)."""
from __future__ import annotations

import itertools as itt
import json
import multiprocessing as mp
import random
import time

import networkx as nx

from y0vc import concrete, oracles, pipeline


def projection(nodes, edges, latents):
    dag = nx.DiGraph()
    dag.add_nodes_from(nodes)
    dag.add_edges_from(edges)
    obs = [n for n in nodes if n not in latents]

    def reach(x0):
        out, stack, seen = set(), list(dag.successors(x0)), set()
        while stack:
            x = stack.pop()
            if x in seen:
                continue
            seen.add(x)
            if x in latents:
                stack.extend(dag.successors(x))
            else:
                out.add(x)
        return out
    di = {(a, x) for a in obs for x in reach(a)}
    bi = set()
    for l in latents:
        for a, b in itt.combinations(sorted(reach(l)), 2):
            bi.add(frozenset((a, b)))
    return set(obs), di, bi


def gen_cases(tier, rng):
    for n in (2, 3, 4):
        vs = oracles.names(n)
        pairs = list(itt.combinations(range(n), 2))
        for dm in range(1 << len(pairs)):
            edges = [(vs[i], vs[j]) for k, (i, j) in enumerate(pairs) if dm >> k & 1]
            for lm in range(1, 1 << n):
                yield {"nodes": vs, "edges": edges, "latents": [v for k, v in enumerate(vs) if lm >> k & 1]}
    for _ in range(600 if tier == "quick" else 30000):
        n = rng.choice([5, 5, 6])
        vs = oracles.names(n)
        order = rng.sample(vs, n)
        edges = [(order[i], order[j]) for i in range(n) for j in range(i + 1, n) if rng.random() < rng.choice([0.3, 0.5])]
        lat = [v for v in vs if rng.random() < 0.45]
        if lat:
            yield {"nodes": vs, "edges": edges, "latents": lat}
    # latent chains: a latent with observed parents whose children include another latent (the rules that exogenise latents and then
    # remove redundant ones interact here); uniform sampling of 5-6 node DAGs reaches this shape too rarely
    for _ in range(400 if tier == "quick" else 8000):
        k = rng.choice([2, 2, 3])
        lats = [f"V{i}" for i in range(k)]
        obs = [f"V{i}" for i in range(k, k + rng.choice([3, 4]))]
        par = obs[0]
        edges = [(lats[i], lats[i + 1]) for i in range(k - 1)]
        if rng.random() < 0.8:
            edges.append((par, lats[0]))
        for i, l in enumerate(lats):
            kids = rng.sample(obs[1:], rng.randint(1 if i < k - 1 else 2, len(obs) - 1))
            edges += [(l, c) for c in kids]
        for i in range(len(obs)):
            for j in range(i + 1, len(obs)):
                if rng.random() < 0.25:
                    edges.append((obs[i], obs[j]))
        yield {"nodes": lats + obs, "edges": sorted(set(edges)), "latents": lats}


def run_case(c):
    dsl = concrete.y0mod("y0.dsl")
    graph = concrete.y0mod("y0.graph")
    sl = concrete.y0mod("y0.algorithm.simplify_latent")
    V = dsl.Variable
    d = nx.DiGraph()
    d.add_nodes_from(V(x) for x in c["nodes"])
    d.add_edges_from((V(a), V(b)) for a, b in c["edges"])
    graph.set_latent(d, {V(x) for x in c["latents"]})
    obs, di, bi = projection(c["nodes"], c["edges"], set(c["latents"]))
    try:
        r = sl.simplify_latent_dag(d.copy()).graph
        r2 = sl.simplify_latent_dag(r.copy()).graph
        m = graph.NxMixedGraph.from_latent_variable_dag(r)
    except Exception as e:
        return f"raised {type(e).__name__}: {e}"
    if set(r.nodes) != set(r2.nodes) or set(r.edges) != set(r2.edges):
        return f"not idempotent: second pass changes {sorted(map(str, set(r.nodes) ^ set(r2.nodes)))} / edges"
    robs = {x.name for x in r.nodes if not r.nodes[x]["hidden"]}
    if robs != obs:
        return f"observed nodes changed: {sorted(robs)} instead of {sorted(obs)}"
    gdi = {(a.name, b.name) for a, b in m.directed.edges()}
    gbi = {frozenset((a.name, b.name)) for a, b in m.undirected.edges()}
    if {x.name for x in m.nodes()} != obs or gdi != di or gbi != bi:
        return f"mixed graph of the simplified DAG is not the latent projection: nodes {sorted(x.name for x in m.nodes())}, directed {sorted(gdi)}, " \
               f"bidirected {sorted(map(sorted, gbi))}; projection has {sorted(obs)}, {sorted(di)}, {sorted(map(sorted, bi))}"
    return None


def run_roundtrip(c):
    g = oracles.build(c["nodes"], c["directed"], c["undirected"], random.Random(c["seed"]))
    graph = concrete.y0mod("y0.graph")
    try:
        back = graph.NxMixedGraph.from_latent_variable_dag(g.to_latent_variable_dag())
    except Exception as e:
        return f"raised {type(e).__name__}: {e}"
    if back != g:
        return f"round trip changed the graph: nodes {sorted(map(str, back.nodes()))}"
    return None


def _eval(c):
    try:
        return c, (run_roundtrip(c) if "directed" in c else run_case(c)), None
    except Exception as e:
        return c, None, f"{type(e).__name__}: {e}"


def extra(rep, repo, registry, known_open):
    t0 = time.time()
    rng = random.Random(repr((rep.seed, "C16")))
    cases = list(gen_cases(rep.tier, rng))
    for n in (1, 2, 3):
        for vs, d, u in oracles.all_admgs(n):
            cases.append({"nodes": vs, "directed": d, "undirected": u, "seed": rng.randrange(1 << 30)})
    concrete.y0mod("y0.dsl")
    fails, errs = [], []
    with mp.get_context("fork").Pool(16) as pool:
        for c, why, err in pool.imap_unordered(_eval, cases, chunksize=32):
            if err:
                errs.append(err)
            elif why:
                fails.append((c, why))
    if errs:
        rep.errors.append(f"C16 bounded part: {len(errs)} evaluation errors, e.g. {errs[0]}")
    rep.extra_parts.append({"name": "evans-simplification-vs-projection", "kind": "bounded", "decides": True, "evaluations": len(cases),
                            "scope": "every DAG on 2-4 nodes x every non-empty latent tagging, sampled 5-6 node tagged DAGs; idempotence, observed nodes kept, "
                                     "projection equality; plus the LV-DAG round trip on every ADMG with <= 3 nodes (cross-check of the proved clause)",
                            "failures": len(fails), "wall_s": round(time.time() - t0, 1)})
    if fails:
        c, why = min(fails, key=lambda f: (len(f[0]["nodes"]), len(f[0].get("edges", f[0].get("directed", [])))))
        path = pipeline.write_replay("C16", "bounded.evans", {"property": "C16", "obligation": "y0.algorithm.simplify_latent.simplify_latent_dag/bounded", "case": c, "why": why})
        rep.violations.append(("y0.algorithm.simplify_latent.simplify_latent_dag/bounded", path, ""))
    rep.samples.append({"bounded_case": cases[len(cases) // 3]})


def replay(payload, path):
    c = payload["case"]
    why = run_roundtrip(c) if "directed" in c else run_case(c)
    print(json.dumps({"case": c, "now": why}, indent=1))
    if why:
        print(f"VIOLATION property=C16 replay={path}")
        return 1
    return 0
