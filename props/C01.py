"""C01 bounded parts: (1) identify_outcomes end to end against the exact SCM oracle (props/idfam.py); (2) run-time cross-check of the
shape layer: the real line_2 / line_3 / line_4 / line_7 on sampled identifications against the published lines restated with networkx
(outcomes, treatments, graph of the recursive argument; ValueError exactly when the line's precondition fails).  (2) guards the VC
generator's reading of these functions: their contracts are discharged symbolically, and records mixing graphs and expressions are
outside the generic run-time sweep."""
from __future__ import annotations

import json
import random
import time

import networkx as nx

from props import idfam
from y0vc import concrete, oracles, pipeline


def _graphs(vs, d, u, X=()):
    dg = nx.DiGraph()
    dg.add_nodes_from(vs)
    dg.add_edges_from(d)
    ug = nx.Graph()
    ug.add_nodes_from(vs)
    ug.add_edges_from(u)
    return dg, ug


def _an(dg, ys):
    out = set(ys)
    for y in ys:
        out |= nx.ancestors(dg, y)
    return out


def _sig(ident):
    g = ident.graph
    return {"Y": {v.name for v in ident.outcomes}, "X": {v.name for v in ident.treatments},
            "N": {v.name for v in g.nodes()}, "D": {(a.name, b.name) for a, b in g.directed.edges()},
            "U": {frozenset((a.name, b.name)) for a, b in g.undirected.edges()}}


def _sub(vs, d, u, keep):
    return {"N": set(keep), "D": {(a, b) for a, b in d if a in keep and b in keep}, "U": {frozenset(e) for e in u if set(e) <= set(keep)}}


def run_shape_case(c):
    dsl = concrete.y0mod("y0.dsl")
    ids = concrete.y0mod("y0.algorithm.identify.id_std")
    ut = concrete.y0mod("y0.algorithm.identify.utils")
    V = dsl.Variable
    vs, d, u, X, Y = c["nodes"], [tuple(e) for e in c["directed"]], [tuple(e) for e in c["undirected"]], set(c["X"]), set(c["Y"])
    g = oracles.build(vs, d, u, random.Random(c["seed"]))
    ident = ut.Identification.from_parts(outcomes={V(y) for y in Y}, treatments={V(x) for x in X}, graph=g)
    dg, ug = _graphs(vs, d, u)
    same_graph = {"N": set(vs), "D": set(d), "U": {frozenset(e) for e in u}}

    def call(fn):
        try:
            return "ok", fn(ident)
        except Exception as e:
            return type(e).__name__, None

    def cmp(name, got, want):
        s = _sig(got)
        for k in ("Y", "X", "N", "D", "U"):
            if s[k] != want[k]:
                return f"{name}: {k} = {sorted(map(str, s[k]))}, the published line gives {sorted(map(str, want[k]))}"
        return None
    # line 2
    anY = _an(dg, Y)
    st, r = call(ids.line_2)
    if (st == "ValueError") != (not (set(vs) - anY)):
        return f"line_2: outcome {st}, V - An(Y) = {sorted(set(vs) - anY)}"
    if st == "ok":
        why = cmp("line_2", r, {"Y": Y, "X": X & anY, **_sub(vs, d, u, anY)})
        if why:
            return why
    elif st != "ValueError":
        return f"line_2 raised {st}"
    # line 3
    cut = nx.DiGraph()
    cut.add_nodes_from(vs)
    cut.add_edges_from((a, b) for a, b in d if b not in X)
    W = (set(vs) - X) - _an(cut, Y)
    st, r = call(ids.line_3)
    if (st == "ValueError") != (not W):
        return f"line_3: outcome {st}, W = {sorted(W)}"
    if st == "ok":
        why = cmp("line_3", r, {"Y": Y, "X": X | W, **same_graph})
        if why:
            return why
    elif st != "ValueError":
        return f"line_3 raised {st}"
    # line 4
    rest = [v for v in vs if v not in X]
    comps = [set(k) for k in nx.connected_components(ug.subgraph(rest))]
    st, r = call(ids.line_4)
    if (st == "ValueError") != (len(comps) <= 1):
        return f"line_4: outcome {st}, districts of G - X = {comps}"
    if st == "ok":
        got = sorted((sorted(v.name for v in i.outcomes), sorted(v.name for v in i.treatments)) for i in r)
        want = sorted((sorted(k), sorted(set(vs) - k)) for k in comps)
        if got != want:
            return f"line_4: sub-problems {got}, the published line gives {want}"
        for i in r:
            s = _sig(i)
            if (s["N"], s["D"], s["U"]) != (same_graph["N"], same_graph["D"], same_graph["U"]):
                return "line_4: a sub-problem does not carry the caller's graph"
    elif st != "ValueError":
        return f"line_4 raised {st}"
    # line 7 (acyclic graphs only: it needs a topological order)
    if nx.is_directed_acyclic_graph(dg):
        st, r = call(ids.line_7)
        if len(comps) != 1:
            if st != "RuntimeError":
                return f"line_7: outcome {st} although G - X has {len(comps)} districts"
        else:
            S = comps[0]
            Sp = next(set(k) for k in nx.connected_components(ug) if S <= set(k))
            if (st == "ValueError") != (Sp == S):
                return f"line_7: outcome {st}, S = {sorted(S)}, S' = {sorted(Sp)}"
            if st == "ok":
                why = cmp("line_7", r, {"Y": Y, "X": X & Sp, **_sub(vs, d, u, Sp)})
                if why:
                    return why
            elif st != "ValueError":
                return f"line_7 raised {st}"
    return None


def shape_cases(tier, rng):
    import itertools as itt
    for n in (2, 3):
        for vs, d, u in oracles.all_admgs(n):
            for k in range(0, n):
                for xs in itt.combinations(vs, k):
                    rest = [v for v in vs if v not in xs]
                    for j in range(1, len(rest) + 1):
                        for ys in itt.combinations(rest, j):
                            yield {"nodes": vs, "directed": d, "undirected": u, "X": list(xs), "Y": list(ys), "seed": rng.randrange(1 << 30)}
    for _ in range(400 if tier == "quick" else 10000):
        n = rng.choice([4, 5, 5, 6])
        vs, d, u = oracles.random_admg(rng, n, p_d=rng.choice([0.3, 0.5]), p_u=rng.choice([0.2, 0.4]))
        perm = rng.sample(vs, n)
        kx = rng.randint(0, n - 1)
        ky = rng.randint(1, n - kx)
        yield {"nodes": vs, "directed": d, "undirected": u, "X": perm[:kx], "Y": perm[kx:kx + ky], "seed": rng.randrange(1 << 30)}


def extra(rep, repo, registry, known_open):
    idfam.sweep(rep, "C01", 400 if rep.tier == "quick" else 12000)
    t0 = time.time()
    rng = random.Random(repr((rep.seed, "C01-shape")))
    cases = list(shape_cases(rep.tier, rng))
    concrete.y0mod("y0.dsl")
    fails, errs = [], []
    for c in cases:
        try:
            why = run_shape_case(c)
        except Exception as e:
            errs.append(f"{type(e).__name__}: {e}")
            continue
        if why:
            fails.append((c, why))
    if errs:
        rep.errors.append(f"C01 shape cross-check: {len(errs)} evaluation errors, e.g. {errs[0]}")
    rep.extra_parts.append({"name": "id-lines-vs-published-lines", "kind": "bounded-cross-check", "evaluations": len(cases),
                            "scope": "line_2, line_3, line_4, line_7 on every ADMG with 2-3 nodes x every query and sampled 4-6 node ADMGs: outcomes, treatments, graph of "
                                     "the recursive argument and the ValueError / RuntimeError guards against the published lines restated with networkx",
                            "failures": len(fails), "wall_s": round(time.time() - t0, 1)})
    if fails and not rep.violations:
        c, why = min(fails, key=lambda f: (len(f[0]["nodes"]), len(f[0]["directed"]) + len(f[0]["undirected"])))
        path = pipeline.write_replay("C01", "bounded.lines", {"property": "C01", "obligation": "y0.algorithm.identify.id_std/bounded.lines", "case": c, "why": why, "shape": True})
        rep.violations.append(("y0.algorithm.identify.id_std/bounded.lines", path, ""))


def replay(payload, path):
    if payload.get("shape"):
        why = run_shape_case(payload["case"])
        print(json.dumps({"case": payload["case"], "now": why}, indent=1))
        if why:
            print(f"VIOLATION property=C01 replay={path}")
            return 1
        return 0
    return idfam.replay("C01", payload, path)
