from props import idfam


def extra(rep, repo, registry, known_open):
    idfam.sweep(rep, "C02", 400 if rep.tier == "quick" else 12000)
    idfam.verdict_sweep(rep, 90000 if rep.tier == "quick" else 600000)


def replay(payload, path):
    return idfam.replay("C02", payload, path)
