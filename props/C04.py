"""C04 bounded parts: (A) validation of the contract's specification against an independent oracle (axiom validation,
DESIGN §2.5); (B) the real are_d_separated against the same oracle on sampled ADMGs with 4-6 nodes, shuffled insertion
orders, swapped arguments and every kind of iterable for the conditioning set.  Bounded: never counted as proved."""
from __future__ import annotations

import json
import random
import time

from y0vc import concrete, oracles, pipeline

QUAL = "y0.algorithm.conditional_independencies.are_d_separated"


def _case(rng, nmin=3, nmax=6):
    n = rng.randint(nmin, nmax)
    vs, d, u = oracles.random_admg(rng, n, p_d=rng.choice([0.25, 0.4, 0.6]), p_u=rng.choice([0.15, 0.3, 0.5]))
    a, b = rng.sample(vs, 2)
    rest = [v for v in vs if v not in (a, b)]
    cond = [v for v in rest if rng.random() < 0.4]
    return {"nodes": vs, "directed": d, "undirected": u, "a": a, "b": b, "conditions": cond,
            "container": rng.choice(["set", "list", "tuple", "frozenset", "iter", "gen"]), "shuffle": rng.randrange(1 << 30)}


def _container(kind, items):
    return {"set": set, "list": list, "tuple": tuple, "frozenset": frozenset, "iter": lambda x: iter(list(x)),
            "gen": lambda x: (e for e in list(x))}[kind](items)


def run_case(c):
    """Returns None if the real code agrees with the oracle (verdict, symmetry, canonical form), else a description."""
    dsl = concrete.y0mod("y0.dsl")
    ci = concrete.y0mod("y0.algorithm.conditional_independencies")
    V = dsl.Variable
    truth = oracles.d_separated(c["nodes"], c["directed"], c["undirected"], c["a"], c["b"], c["conditions"])
    g = oracles.build(c["nodes"], c["directed"], c["undirected"], random.Random(c["shuffle"]))
    before = (set(g.nodes()), set(g.directed.edges()), {frozenset(e) for e in g.undirected.edges()})
    conds = [V(x) for x in c["conditions"]]
    try:
        j1 = ci.are_d_separated(g, V(c["a"]), V(c["b"]), conditions=_container(c["container"], conds))
        j2 = ci.are_d_separated(g, V(c["b"]), V(c["a"]), conditions=_container(c["container"], list(reversed(conds))))
    except Exception as e:
        return f"raised {type(e).__name__}: {e}"
    if bool(j1.separated) != truth:
        return f"verdict {j1.separated} but d-separation in the canonical DAG is {truth}"
    if j1 != j2:
        return f"not symmetric: {j1} vs {j2}"
    if set(j1.conditions) != set(conds) or not j1.is_canonical:
        return f"judgement not canonical / conditions changed: {j1}"
    after = (set(g.nodes()), set(g.directed.edges()), {frozenset(e) for e in g.undirected.edges()})
    if before != after:
        return "graph argument was modified"
    return None


def _spec_case(rng, repo, registry):
    """Evaluate the contract on a synthetic outcome carrying the oracle's verdict: every clause must hold."""
    struct = concrete.y0mod("y0.struct")
    con = registry[QUAL]
    n = rng.randint(2, 4)
    vs, d, u = oracles.random_admg(rng, n)
    ix = {v: i for i, v in enumerate(vs)}
    a, b = rng.sample(range(n), 2)
    cond = [i for i in range(n) if i not in (a, b) and rng.random() < 0.5]
    m = {"k": n, "order": list(range(n)), "interventions": [],
         "graph": {"kind": "graph", "nodes": list(range(n)), "directed": [(ix[x], ix[y]) for x, y in d],
                   "undirected": [(ix[x], ix[y]) for x, y in u]},
         "a": {"kind": "node", "index": a}, "b": {"kind": "node", "index": b}, "conditions": {"kind": "nodeset", "members": cond}}
    world = concrete.World(n, m["order"], [])
    truth = oracles.d_separated(vs, d, u, vs[a], vs[b], [vs[i] for i in cond])
    out = struct.DSeparationJudgement.create(world.obj(a), world.obj(b), [world.obj(i) for i in cond], separated=truth)
    variant = con.variants()[0]
    ev = concrete.eval_contract(repo, con, variant, {p: m[p] for p in variant}, world, ("return", out), registry)
    bad = [k for k, v in ev["clauses"].items() if v is not True]
    return (m, bad) if (bad or not ev["pre"]) else None


def exhaustive4_cases(rng):
    """every DAG on 4 nodes, with no / one / two bidirected edges, x every pair and conditioning set"""
    import itertools as itt
    for vs, d, u in oracles.all_admgs(4):
        if u:
            continue
        for k in (0, 1, 2):
            uu = [tuple(e) for e in rng.sample(list(itt.combinations(vs, 2)), k)]
            for a, b in itt.combinations(vs, 2):
                rest = [v for v in vs if v not in (a, b)]
                for m in range(len(rest) + 1):
                    for cond in itt.combinations(rest, m):
                        yield {"nodes": vs, "directed": d, "undirected": uu, "a": a, "b": b, "conditions": list(cond),
                               "container": "set", "shuffle": rng.randrange(1 << 30)}


def _eval4(c):
    try:
        return c, run_case(c), None
    except Exception as e:
        return c, None, f"{type(e).__name__}: {e}"


def extra(rep, repo, registry, known_open):
    t0 = time.time()
    rng = random.Random(repr((rep.seed, "C04")))
    # (A) specification validation
    n_spec = 40 if rep.tier == "quick" else 400
    bad_spec = [r for r in (_spec_case(rng, repo, registry) for _ in range(n_spec)) if r]
    if bad_spec:
        rep.errors.append(f"C04 specification disagrees with the d-separation oracle (contract error, not a violation): {bad_spec[0]}")
    rep.extra_parts.append({"name": "spec-validation", "kind": "axiom-validation", "evaluations": n_spec,
                            "disagreements": len(bad_spec), "what": "contract postcondition vs networkx d-separation on the canonical DAG"})
    # (B) real function vs oracle
    n = 1500 if rep.tier == "quick" else 40000
    fails, seen = [], set()
    for _ in range(n):
        c = _case(rng)
        seen.add(json.dumps([c["directed"], c["undirected"], c["a"], c["b"], c["conditions"]], sort_keys=True))
        why = run_case(c)
        if why:
            fails.append((c, why))
            if len(fails) >= 3:
                break
    rep.extra_parts.append({"name": "are_d_separated-vs-oracle", "kind": "bounded", "evaluations": n, "distinct": len(seen),
                            "scope": "random ADMGs with 3..6 nodes, random pair and conditioning set, shuffled insertion order, "
                                     "both argument orders, conditioning set passed as set/list/tuple/frozenset/iterator/generator",
                            "failures": len(fails), "wall_s": round(time.time() - t0, 1)})
    # (C) exhaustive on 4 nodes
    import multiprocessing as mp
    cases4 = list(exhaustive4_cases(rng))
    concrete.y0mod("y0.dsl")
    errs4 = []
    with mp.get_context("fork").Pool(16) as pool:
        for c, why, err in pool.imap_unordered(_eval4, cases4, chunksize=64):
            if err:
                errs4.append(err)
            elif why:
                fails.append((c, why))
    if errs4:
        rep.errors.append(f"C04 exhaustive part: {len(errs4)} evaluation errors, e.g. {errs4[0]}")
    rep.extra_parts.append({"name": "are_d_separated-vs-oracle-4-nodes", "kind": "bounded", "evaluations": len(cases4),
                            "scope": "every DAG on 4 nodes with no / one / two (sampled) bidirected edges x every pair x every conditioning set", "failures": len(fails)})
    if fails:
        c, why = min(fails, key=lambda f: len(f[0]["nodes"]))
        path = pipeline.write_replay("C04", "bounded.are_d_separated-vs-oracle",
                                     {"property": "C04", "obligation": f"{QUAL}/bounded.oracle", "case": c, "why": why})
        rep.violations.append((f"{QUAL}/bounded.oracle", path, ""))
    if len(rep.samples) < 6:
        rep.samples.append({"bounded_case": _case(random.Random(1))})


def replay(payload, path):
    why = run_case(payload["case"])
    print(json.dumps({"case": payload["case"], "now": why}, indent=1))
    if why:
        print(f"VIOLATION property=C04 replay={path}")
        return 1
    return 0
