"""C05 bounded part: identify_target_outcomes (TRSO) end to end.  For sampled target graphs, queries and source domains
(experiments Z_i, surrogate outcomes W_i) a family of exact SCMs is built -- the target model, and per source domain a model that
shares every mechanism with the target except at the nodes the derived selection diagram marks (own implementation of the
derivation) -- and the returned estimand, evaluated on the target's observational distribution and each source's declared
experimental distributions, must equal P*(Y | do(X)) for every assignment.  With no source domain the verdict must equal ID's
(c-component criterion).  Any exception is a violation."""
from __future__ import annotations

import itertools as itt
import json
import multiprocessing as mp
import random
import time
from fractions import Fraction as Fr

import networkx as nx

from y0vc import concrete, exproracle as xo, oracles, pipeline, scm


def nodes_to_transport(vs, d, u, Z, W):
    dg = nx.DiGraph()
    dg.add_nodes_from(vs)
    dg.add_edges_from(d)
    ug = nx.Graph()
    ug.add_nodes_from(vs)
    ug.add_edges_from(u)
    de = set(Z)
    for z in Z:
        de |= nx.descendants(dg, z)
    comp = set()
    for c in nx.connected_components(ug):
        if set(W) & c:
            comp |= c
    cut = nx.DiGraph()
    cut.add_nodes_from(vs)
    cut.add_edges_from((a, b) for a, b in d if b not in Z)
    an = set(W)
    for w in W:
        an |= nx.ancestors(cut, w)
    return (de - set(W)) | (comp - an)


def source_model(target: scm.SCM, nodes, seed):
    """the target model with fresh mechanisms at `nodes`"""
    import copy
    m = copy.copy(target)
    m.cpt = dict(target.cpt)
    m._cache = {}
    rng = random.Random(seed)
    for v in nodes:
        pa, ls, table = target.cpt[v]
        new = {}
        for key in table:
            p1 = Fr(rng.randint(1, 9), 10)
            new[key] = (1 - p1, p1)
        m.cpt[v] = (pa, ls, new)
    return m


def evaluate(e, env, models):
    dsl = concrete.y0mod("y0.dsl")
    if isinstance(e, dsl.Probability):
        pop = getattr(e, "population", None)
        key = "target" if pop is None or pop == dsl.TARGET_DOMAIN else pop.name
        m = models[key]
        do = {}
        ch, pa = {}, {}
        for group, tgt in ((e.children, ch), (e.parents, pa)):
            for v in group:
                if isinstance(v, dsl.CounterfactualVariable):
                    for i in v.interventions:
                        do[i.name] = env[i.name]
                tgt[v.name] = env[v.name]
        den = m.prob(pa, do) if pa else Fr(1)
        if den == 0:
            raise xo.Undefined()
        return m.prob({**ch, **pa}, do) / den
    if isinstance(e, dsl.Sum):
        rs = sorted(r.name for r in e.ranges)
        return sum(evaluate(e.expression, {**env, **dict(zip(rs, vals))}, models) for vals in itt.product(range(2), repeat=len(rs)))
    if isinstance(e, dsl.Product):
        r = Fr(1)
        for x in e.expressions:
            r *= evaluate(x, env, models)
        return r
    if isinstance(e, dsl.Fraction):
        dd = evaluate(e.denominator, env, models)
        if dd == 0:
            raise xo.Undefined()
        return evaluate(e.numerator, env, models) / dd
    if isinstance(e, dsl.One):
        return Fr(1)
    if isinstance(e, dsl.Zero):
        return Fr(0)
    raise TypeError(type(e))


def run_case(c):
    dsl = concrete.y0mod("y0.dsl")
    tr = concrete.y0mod("y0.algorithm.transport")
    V = dsl.Variable
    vs, d, u = c["nodes"], c["directed"], c["undirected"]
    g = oracles.build(vs, d, u, random.Random(c["seed"]))
    pops = {p: dsl.Population(p) for p in c["domains"]}
    so = {pops[p]: {V(w) for w in dom["W"]} for p, dom in c["domains"].items()}
    si = {pops[p]: {V(z) for z in dom["Z"]} for p, dom in c["domains"].items()}
    if c.get("reverse_dicts"):
        si = dict(reversed(list(si.items())))
    try:
        est = tr.identify_target_outcomes(g, target_outcomes={V(y) for y in c["Y"]}, target_interventions={V(x) for x in c["X"]},
                                          surrogate_outcomes=so, surrogate_interventions=si)
    except Exception as e:
        return f"raised {type(e).__name__}: {e}"
    if not c["domains"]:
        truth = scm.identifiable(vs, d, u, c["X"], c["Y"])
        if (est is not None) != truth:
            return f"no source domain: TRSO {'returns an estimand' if est is not None else 'fails'} but ID's verdict is {'identifiable' if truth else 'not identifiable'}"
    if est is None:
        return None
    target = scm.SCM(vs, d, u, c["seed"])
    models = {"target": target}
    for i, (p, dom) in enumerate(sorted(c["domains"].items())):
        models[p] = source_model(target, nodes_to_transport(vs, d, u, dom["Z"], dom["W"]), c["seed"] + 17 * (i + 1))
    for env in xo.envs(target.order):
        want = target.prob({y: env[y] for y in c["Y"]}, {x: env[x] for x in c["X"]})
        try:
            got = evaluate(est, env, models)
        except xo.Undefined:
            continue
        except KeyError as ex:
            return f"estimand {est} mentions {ex}, not a node of the graph"
        if got != want:
            return f"estimand {est} evaluates to {got} at {env}, P*(Y|do X) is {want}"
    return None


def gen_cases(tier, rng):
    def dom(vs):
        return {"Z": rng.sample(vs, rng.randint(1, min(2, len(vs)))), "W": rng.sample(vs, rng.randint(1, min(2, len(vs))))}
    graphs = []
    for n in (2, 3):
        graphs += [g for g in oracles.all_admgs(n)]
    for _ in range(450 if tier == "quick" else 6000):
        n = rng.choice([4, 4, 5])
        vs, d, u = oracles.random_admg(rng, n, p_d=rng.choice([0.35, 0.55]), p_u=rng.choice([0.15, 0.3]))
        graphs.append((vs, d, u[:4]))
    for vs, d, u in graphs:
        reps = 2 if len(vs) <= 3 else 3
        for _ in range(reps):
            k = rng.randint(1, len(vs) - 1)
            xs = rng.sample(vs, k)
            rest = [v for v in vs if v not in xs]
            ys = rng.sample(rest, rng.randint(1, min(2, len(rest))))
            nd = rng.choice([0, 1, 1, 2])
            doms = {f"pi{i + 1}": dom(vs) for i in range(nd)}
            c = {"nodes": vs, "directed": d, "undirected": u, "X": xs, "Y": ys, "domains": doms, "seed": rng.randrange(1 << 30),
                 "reverse_dicts": nd == 2 and rng.random() < 0.5}
            if rng.random() < 0.25:
                # user variables with underscores / digits in their names (selection nodes are recognised by a name prefix)
                ren = dict(zip(vs, ["X_1", "bmi_score", "Y_2", "w_0_z", "k_9"]))
                r = lambda xs_: [ren[v] for v in xs_]
                c = dict(c, nodes=r(vs), directed=[r(e) for e in d], undirected=[r(e) for e in u], X=r(xs), Y=r(ys),
                         domains={k: {"Z": r(v["Z"]), "W": r(v["W"])} for k, v in doms.items()})
            yield c


# ------------------------------------------------------------------------------------------------ run-time contracts of lines 9 and 10
def run_line_case(c):
    """Contracts of trso_line9 / trso_line10 evaluated on a real call (bounded):
       line 10 (district C' of G, current distribution = the observational joint of G): the new query carries G[C'], the
       interventions X & C', and an expression that equals Q[C'] = P(C' | do(V - C')) for every assignment;
       line 9  (the same inputs, outcomes Y within C'): the returned expression equals sum_{C' - Y} Q[C']."""
    dsl = concrete.y0mod("y0.dsl")
    tr = concrete.y0mod("y0.algorithm.transport")
    V = dsl.Variable
    vs, d, u = c["nodes"], c["directed"], c["undirected"]
    g = oracles.build(vs, d, u, random.Random(c["seed"]))
    dist = set(c["district"])
    X = set(c["X"])
    joint = dsl.PP[dsl.TARGET_DOMAIN](*[V(v) for v in sorted(vs)])

    def query(Y):
        return tr.TRSOQuery(target_interventions={V(x) for x in X}, target_outcomes={V(y) for y in Y}, expression=joint,
                            active_interventions=set(), domain=dsl.TARGET_DOMAIN, domains={dsl.TARGET_DOMAIN},
                            graphs={dsl.TARGET_DOMAIN: g}, surrogate_interventions={})
    target = scm.SCM(vs, d, u, c["seed"])
    models = {"target": target}
    others = [v for v in vs if v not in dist]

    def q_of(env, keep):
        return target.prob({v: env[v] for v in keep}, {o: env[o] for o in others})
    if c["line"] == 10:
        q0 = query(c["Y"])
        before = (set(q0.target_interventions), set(q0.target_outcomes), q0.graphs[dsl.TARGET_DOMAIN].copy())
        try:
            nq = tr.trso_line10(q0, {V(v) for v in dist}, {})
        except Exception as e:
            return f"trso_line10 raised {type(e).__name__}: {e}"
        if (set(q0.target_interventions), set(q0.target_outcomes)) != before[:2] or q0.graphs[dsl.TARGET_DOMAIN] != before[2] or q0.expression != joint:
            return "trso_line10 modified its input query"
        want_g = g.subgraph({V(v) for v in dist})
        if nq.graphs[dsl.TARGET_DOMAIN] != want_g:
            return f"trso_line10: new graph is not G[C'] for C' = {sorted(dist)}"
        if nq.target_interventions != {V(x) for x in X & dist}:
            return f"trso_line10: new interventions {sorted(map(str, nq.target_interventions))}, expected X & C' = {sorted(X & dist)}"
        if nq.target_outcomes != {V(y) for y in c["Y"]}:
            return "trso_line10 changed the outcomes"
        for env in xo.envs(target.order):
            try:
                got = evaluate(nq.expression, env, models)
            except xo.Undefined:
                continue
            except KeyError as ex:
                return f"trso_line10: expression {nq.expression} mentions {ex}"
            want = q_of(env, dist)
            if got != want:
                return f"trso_line10: new distribution {nq.expression} evaluates to {got} at {env}; Q[C'] = P(C'|do(V-C')) is {want}"
        return None
    try:
        e9 = tr.trso_line9(query(c["Y"]), {V(v) for v in dist})
    except Exception as e:
        return f"trso_line9 raised {type(e).__name__}: {e}"
    summed = sorted(dist - set(c["Y"]))
    for env in xo.envs(target.order):
        try:
            got = evaluate(e9, env, models)
        except xo.Undefined:
            continue
        except KeyError as ex:
            return f"trso_line9: expression {e9} mentions {ex}"
        want = sum(q_of({**env, **dict(zip(summed, vals))}, dist) for vals in itt.product(range(2), repeat=len(summed)))
        if got != want:
            return f"trso_line9: {e9} evaluates to {got} at {env}; sum over C'-Y of Q[C'] is {want}"
    return None


def run_helper_case(c):
    """Run-time contracts (bounded) of the TRSO steps that only rearrange the query: line 2 (restriction to the ancestors of the
    outcomes in every domain + marginal of the current distribution), line 3, line 4, the line-6 helper (use a source experiment
    only when it meets the treatments and every selection node is separated from the outcomes) and all_transports_d_separated.
    Reference side: networkx and the d-separation oracle on the canonical DAG; the input query must not be modified."""
    dsl = concrete.y0mod("y0.dsl")
    tr = concrete.y0mod("y0.algorithm.transport")
    V = dsl.Variable
    vs, d, u = c["nodes"], c["directed"], c["undirected"]
    g = oracles.build(vs, d, u, random.Random(c["seed"]))
    X, Y, S, Z = set(c["X"]), set(c["Y"]), c["transported"], set(c["Z"])
    pop = dsl.Population("pi1")
    gs = tr.create_transport_diagram(graph=g, nodes_to_transport=[V(v) for v in S])
    tn = {v: "T_" + v for v in S}
    d_s = list(d) + [(tn[v], v) for v in S]
    vs_s = list(vs) + [tn[v] for v in S]
    joint = dsl.PP[dsl.TARGET_DOMAIN](*[V(v) for v in sorted(vs)])

    def query():
        return tr.TRSOQuery(target_interventions={V(x) for x in X}, target_outcomes={V(y) for y in Y}, expression=joint,
                            active_interventions=set(), domain=dsl.TARGET_DOMAIN, domains={pop},
                            graphs={dsl.TARGET_DOMAIN: g, pop: gs}, surrogate_interventions={pop: {V(z) for z in Z}})

    def snapshot(q):
        return (set(q.target_interventions), set(q.target_outcomes), q.expression, set(q.active_interventions), q.domain,
                {k: v.copy() for k, v in q.graphs.items()}, {k: set(v) for k, v in q.surrogate_interventions.items()})

    def same(q, snap):
        return snapshot(q)[:5] == snap[:5] and all(q.graphs[k] == snap[5][k] for k in snap[5]) and snapshot(q)[6] == snap[6]
    dg = nx.DiGraph()
    dg.add_nodes_from(vs_s)
    dg.add_edges_from(d_s)
    an = set(Y)
    for y in Y:
        an |= nx.ancestors(dg, y)
    what = c["what"]
    q0 = query()
    snap = snapshot(q0)
    try:
        if what == "sep":
            got = tr.all_transports_d_separated(gs, target_interventions={V(x) for x in X}, target_outcomes={V(y) for y in Y})
            cut = [(a, b) for a, b in d_s if b not in X]
            ucut = [(a, b) for a, b in u if a not in X and b not in X]
            want = all(oracles.d_separated(vs_s, cut, ucut, tn[v], y, X) for v in S for y in Y)
            if bool(got) != want:
                return f"all_transports_d_separated = {got}; selection nodes {'are' if want else 'are not all'} separated from the outcomes given X in the graph without edges into X"
            return None
        if what == "line2":
            nq = tr.trso_line2(q0, {V(v) for v in an if not v.startswith("T_")})
            if not same(q0, snap):
                return "trso_line2 modified its input query"
            an_t = {v for v in an if not v.startswith("T_")}
            if nq.target_interventions != {V(x) for x in X & an_t}:
                return f"trso_line2: interventions {sorted(map(str, nq.target_interventions))}, expected X & An(Y) = {sorted(X & an_t)}"
            if nq.graphs[dsl.TARGET_DOMAIN] != g.subgraph({V(v) for v in an_t}):
                return "trso_line2: target graph is not G[An(Y)]"
            if nq.graphs[pop] != gs.subgraph({V(v) for v in an}):
                return "trso_line2: source diagram is not restricted to the ancestors of the outcomes in that diagram"
            target = scm.SCM(vs, d, u, c["seed"])
            for env in xo.envs(target.order):
                try:
                    gotv = evaluate(nq.expression, env, {"target": target})
                except xo.Undefined:
                    continue
                wantv = target.prob({v: env[v] for v in an_t})
                if gotv != wantv:
                    return f"trso_line2: new distribution {nq.expression} evaluates to {gotv} at {env}; P(An(Y)) is {wantv}"
            return None
        if what == "line3":
            add = {V(v) for v in c["extra"]}
            nq = tr.trso_line3(q0, add)
            if not same(q0, snap):
                return "trso_line3 modified its input query"
            if nq.target_interventions != {V(x) for x in X} | add or not same(nq, (snap[0] | add,) + snap[1:]):
                return "trso_line3: the new query is not the old one with the additional interventions"
            return None
        if what == "line4":
            ug = nx.Graph()
            ug.add_nodes_from(v for v in vs if v not in X)
            ug.add_edges_from((a, b) for a, b in u if a not in X and b not in X)
            comps = [frozenset(V(v) for v in comp) for comp in nx.connected_components(ug)]
            rv = tr.trso_line4(q0, comps)
            if not same(q0, snap):
                return "trso_line4 modified its input query"
            if set(rv) != set(comps):
                return "trso_line4: keys are not the given components"
            for comp, nq in rv.items():
                if nq.target_outcomes != set(comp) or nq.target_interventions != {V(v) for v in vs} - set(comp):
                    return f"trso_line4: sub-query of {sorted(map(str, comp))} has outcomes {sorted(map(str, nq.target_outcomes))} and interventions {sorted(map(str, nq.target_interventions))}"
                if nq.graphs[dsl.TARGET_DOMAIN] != g or nq.expression != joint:
                    return "trso_line4 changed the graph or the distribution of a sub-query"
            return None
        if what == "line6":
            nq = tr._line_6_helper(q0, pop, gs)
            if not same(q0, snap):
                return "_line_6_helper modified its input query"
            zx = Z & X
            cut = [(a, b) for a, b in d_s if b not in X]
            ucut = [(a, b) for a, b in u if a not in X and b not in X]
            usable = bool(zx) and all(oracles.d_separated(vs_s, cut, ucut, tn[v], y, X) for v in S for y in Y)
            if (nq is not None) != usable:
                return (f"_line_6_helper {'uses' if nq is not None else 'rejects'} the source experiment do({sorted(Z)}); Z & X = {sorted(zx)}, selection nodes "
                        f"{'are' if usable or not zx else 'are not'} separated from the outcomes")
            if nq is None:
                return None
            if nq.target_interventions != {V(x) for x in X - Z} or nq.active_interventions != {V(z) for z in zx} or nq.domain != pop:
                return "_line_6_helper: wrong remaining treatments / active experiment / domain"
            if nq.graphs[pop] != gs.remove_nodes_from({V(z) for z in zx}) or nq.graphs[dsl.TARGET_DOMAIN] != g:
                return "_line_6_helper: the source diagram is not the selection diagram without the experiment variables used"
            return None
    except Exception as e:
        return f"{what} raised {type(e).__name__}: {e}"
    return None


def gen_helper_cases(tier, rng):
    graphs = []
    for n in (2, 3):
        graphs += list(oracles.all_admgs(n))
    for _ in range(500 if tier == "quick" else 5000):
        n = rng.choice([4, 4, 5])
        vs, d, u = oracles.random_admg(rng, n, p_d=rng.choice([0.35, 0.55]), p_u=rng.choice([0.15, 0.3]))
        graphs.append((vs, d, u[:4]))
    for vs, d, u in graphs:
        for what in ("sep", "line2", "line3", "line4", "line6"):
            k = rng.randint(1, len(vs) - 1)
            xs = rng.sample(vs, k)
            rest = [v for v in vs if v not in xs]
            ys = rng.sample(rest, rng.randint(1, min(2, len(rest))))
            yield {"helper": True, "what": what, "nodes": vs, "directed": d, "undirected": u, "X": xs, "Y": ys,
                   "transported": sorted(v for v in vs if rng.random() < 0.4), "Z": rng.sample(vs, rng.randint(1, min(2, len(vs)))),
                   "extra": [v for v in vs if rng.random() < 0.4], "seed": rng.randrange(1 << 30)}


def gen_line_cases(tier, rng):
    graphs = []
    for n in (2, 3):
        graphs += list(oracles.all_admgs(n))
    four = [(vs, d, u) for vs, d, u in oracles.all_admgs(4) if len(u) <= 2]
    graphs += four if tier == "thorough" else rng.sample(four, 1400)
    for _ in range(250 if tier == "quick" else 3000):
        vs, d, u = oracles.random_admg(rng, 5, p_d=rng.choice([0.3, 0.5]), p_u=rng.choice([0.2, 0.35]))
        graphs.append((vs, d, u[:3]))
    for vs, d, u in graphs:
        ug = nx.Graph()
        ug.add_nodes_from(vs)
        ug.add_edges_from(u)
        for comp in nx.connected_components(ug):
            comp = sorted(comp)
            if len(comp) == len(vs) and len(vs) > 3:
                continue
            ys = rng.sample(comp, rng.randint(1, len(comp)))
            xs = [v for v in vs if v not in ys and rng.random() < 0.6]
            for line in (9, 10):
                yield {"line": line, "nodes": vs, "directed": d, "undirected": u, "district": comp, "Y": sorted(ys), "X": xs,
                       "seed": rng.randrange(1 << 30)}


def gen_two_domain_cases(tier, rng):
    """Two source domains that are both usable at the same step (experiments on different non-empty subsets of the treatments, nearly
    every other node observed), both orders of the user's dictionaries."""
    for _ in range(500 if tier == "quick" else 8000):
        n = rng.choice([3, 4, 4])
        vs, d, u = oracles.random_admg(rng, n, p_d=rng.choice([0.4, 0.6]), p_u=rng.choice([0.15, 0.3]))
        u = u[:2]
        y = rng.choice(vs)
        xs = rng.sample([v for v in vs if v != y], rng.choice([1, 2, 2]) if n > 2 else 1)
        doms = {}
        for p_ in ("pi1", "pi2"):
            z = sorted(rng.sample(xs, rng.randint(1, len(xs))))
            doms[p_] = {"Z": z, "W": [v for v in vs if v not in z and rng.random() < 0.9] or [y]}
        yield {"nodes": vs, "directed": d, "undirected": u, "X": xs, "Y": [y], "domains": doms, "seed": rng.randrange(1 << 30),
               "reverse_dicts": rng.random() < 0.5}


def _eval(c):
    try:
        if c.get("helper"):
            return c, run_helper_case(c), None
        if "line" in c:
            return c, run_line_case(c), None
        return c, run_case(c), None
    except Exception as e:
        return c, None, f"{type(e).__name__}: {e}"


def extra(rep, repo, registry, known_open):
    t0 = time.time()
    rng = random.Random(repr((rep.seed, "C05")))
    cases = list(gen_cases(rep.tier, rng)) + list(gen_two_domain_cases(rep.tier, random.Random(repr((rep.seed, "C05-2dom")))))
    line_cases = list(gen_line_cases(rep.tier, random.Random(repr((rep.seed, "C05-lines")))))
    concrete.y0mod("y0.dsl")
    fails, errs = [], []
    lfails = []
    with mp.get_context("fork").Pool(16) as pool:
        for c, why, err in pool.imap_unordered(_eval, line_cases, chunksize=16):
            if err:
                errs.append(err)
            elif why:
                lfails.append((c, why))
    rep.extra_parts.append({"name": "trso-line9-line10-runtime-contracts", "kind": "bounded", "decides": True, "evaluations": len(line_cases),
                            "scope": "trso_line9 / trso_line10 called directly on every district of every ADMG on 2-3 nodes, of 4-node DAGs with <= 2 bidirected "
                                     "edges (1,400 sampled; all 11,946 in the thorough tier) and of sampled 5-node ADMGs: new graph, interventions, caller state, and "
                                     "the returned distribution against Q[C'] = P(C'|do(V-C')) (resp. its marginal) on an exact SCM, every assignment",
                            "failures": len(lfails), "wall_s": round(time.time() - t0, 1)})
    helper_cases = list(gen_helper_cases(rep.tier, random.Random(repr((rep.seed, "C05-helpers")))))
    hfails = []
    with mp.get_context("fork").Pool(16) as pool:
        for c, why, err in pool.imap_unordered(_eval, helper_cases, chunksize=16):
            if err:
                errs.append(err)
            elif why:
                hfails.append((c, why))
    rep.extra_parts.append({"name": "trso-query-rearranging-steps-runtime-contracts", "kind": "bounded", "decides": True, "evaluations": len(helper_cases),
                            "scope": "trso_line2, trso_line3, trso_line4, _line_6_helper, all_transports_d_separated called directly on every ADMG on 2-3 nodes and "
                                     "sampled 4-5 node ADMGs with a derived selection diagram (random transported nodes, one source domain): new query fields "
                                     "against their definitions (networkx, d-separation oracle on the canonical DAG), caller state unchanged",
                            "failures": len(hfails)})
    if hfails:
        c, why = min(hfails, key=lambda f: (len(f[0]["nodes"]), len(f[0]["directed"]) + len(f[0]["undirected"])))
        fn = {"sep": "all_transports_d_separated", "line2": "trso_line2", "line3": "trso_line3", "line4": "trso_line4", "line6": "_line_6_helper"}[c["what"]]
        oid = f"y0.algorithm.transport.{fn}/bounded.contract"
        path = pipeline.write_replay("C05", f"bounded.{c['what']}", {"property": "C05", "obligation": oid, "case": c, "why": why})
        rep.violations.append((oid, path, ""))
    if lfails:
        c, why = min(lfails, key=lambda f: (len(f[0]["nodes"]), len(f[0]["directed"]) + len(f[0]["undirected"])))
        oid = f"y0.algorithm.transport.trso_line{c['line']}/bounded.contract"
        path = pipeline.write_replay("C05", f"bounded.line{c['line']}", {"property": "C05", "obligation": oid, "case": c, "why": why})
        rep.violations.append((oid, path, ""))
    with mp.get_context("fork").Pool(16) as pool:
        for c, why, err in pool.imap_unordered(_eval, cases, chunksize=8):
            if err:
                errs.append(err)
            elif why:
                fails.append((c, why))
    if errs:
        rep.errors.append(f"C05 bounded part: {len(errs)} evaluation errors, e.g. {errs[0]}")
    rep.extra_parts.append({"name": "trso-vs-multi-domain-scm", "kind": "bounded", "decides": True, "evaluations": len(cases),
                            "scope": "every ADMG on 2-3 nodes and sampled 4-5 node ADMGs, sampled queries, 0-2 source domains with 1-2 experiments and surrogate outcomes each; "
                                     "plus a family with two source domains usable at the same step (both dictionary orders)",
                            "failures": len(fails), "wall_s": round(time.time() - t0, 1)})
    if fails:
        c, why = min(fails, key=lambda f: (len(f[0]["nodes"]), len(f[0]["domains"]), len(f[0]["directed"]) + len(f[0]["undirected"])))
        path = pipeline.write_replay("C05", "bounded.trso", {"property": "C05", "obligation": "y0.algorithm.transport.identify_target_outcomes/bounded", "case": c, "why": why})
        rep.violations.append(("y0.algorithm.transport.identify_target_outcomes/bounded", path, ""))
    rep.n_fail_c05 = len(fails)
    rep.samples.append({"bounded_case": cases[len(cases) // 2]})


def replay(payload, path):
    cs = payload["case"]
    why = run_helper_case(cs) if cs.get("helper") else (run_line_case(cs) if "line" in cs else run_case(cs))
    print(json.dumps({"case": payload["case"], "now": why}, indent=1))
    if why:
        print(f"VIOLATION property=C05 replay={path}")
        return 1
    return 0
