"""C14 bounded part for NxMixedGraph.intervene (its contract is proved for all inputs, but it creates counterfactual variables, which
the generic finite search and the generic bounded sweep cannot enumerate): every mixed graph on <= 3 nodes (cyclic ones included) and
sampled 4-node graphs x every set of <= 2 intervention subscripts (+/- marks), with shuffled insertion order and orientation of the
edges, against the set-theoretic definition."""
from __future__ import annotations

import itertools as itt
import json
import random
import time

from y0vc import concrete, oracles, pipeline

QUAL = "y0.graph.NxMixedGraph.intervene"


def run_case(c):
    dsl = concrete.y0mod("y0.dsl")
    vs, d, u = c["nodes"], c["directed"], c["undirected"]
    g = oracles.build(vs, d, u, random.Random(c["shuffle"]))
    ivs = frozenset(dsl.Intervention(name=n, star=bool(s)) for n, s in c["ivs"])
    # only the declared input type (a set of Intervention objects) is exercised: with plain Variables the real code converts the
    # subscripts but its edge filter (+v / -v membership) no longer matches -- behaviour the property does not define
    try:
        r = g.intervene(set(ivs))
    except Exception as e:
        return f"intervene raised {type(e).__name__}: {e}"
    X = {n for n, _ in c["ivs"]}
    at = lambda n: dsl.CounterfactualVariable(name=n, star=None, interventions=ivs)
    want_n = {at(n) for n in vs}
    want_d = {(at(a), at(b)) for a, b in d if b not in X}
    want_u = {frozenset((at(a), at(b))) for a, b in u if a not in X and b not in X}
    got_n, got_d = set(r.nodes()), set(r.directed.edges())
    got_u = {frozenset(e) for e in r.undirected.edges()}
    if got_n != want_n:
        return f"nodes {sorted(map(str, got_n))}, definition gives {sorted(map(str, want_n))}"
    if got_d != want_d:
        return f"directed edges {sorted(map(str, got_d))}, definition gives {sorted(map(str, want_d))}"
    if got_u != want_u:
        return f"bidirected edges {sorted(sorted(map(str, e)) for e in got_u)}, definition gives {sorted(sorted(map(str, e)) for e in want_u)}"
    if set(r.directed.nodes()) != set(r.undirected.nodes()):
        return "the two component graphs of the result have different node sets"
    return None


def gen_cases(tier, rng):
    graphs = []
    for n in (1, 2, 3):
        graphs += list(oracles.all_admgs(n, acyclic=False))
    for _ in range(150 if tier == "quick" else 3000):
        graphs.append(oracles.random_admg(rng, 4, p_d=rng.choice([0.3, 0.6]), p_u=rng.choice([0.3, 0.6])))
    for vs, d, u in graphs:
        subs = []
        for k in (1, 2):
            for sub in itt.combinations(vs, k):
                subs.append([[w, rng.random() < 0.5] for w in sub])
        if len(vs) == 3 and len(d) + len(u) > 4:
            subs = rng.sample(subs, 3)
        for ivs in subs:
            yield {"nodes": list(vs), "directed": [list(e) for e in d], "undirected": [list(e) for e in u], "ivs": ivs, "shuffle": rng.randrange(1 << 30)}


def extra(rep, repo, registry, known_open):
    t0 = time.time()
    rng = random.Random(repr((rep.seed, "C14")))
    cases = list(gen_cases(rep.tier, rng))
    concrete.y0mod("y0.dsl")
    fails, errs = [], []
    for c in cases:
        try:
            why = run_case(c)
        except Exception as e:
            errs.append(f"{type(e).__name__}: {e}")
            continue
        if why:
            fails.append((c, why))
    if errs:
        rep.errors.append(f"C14 bounded part: {len(errs)} evaluation errors, e.g. {errs[0]}")
    rep.extra_parts.append({"name": "intervene-vs-definition", "kind": "bounded-cross-check", "evaluations": len(cases),
                            "scope": "every mixed graph on <= 3 nodes (cyclic included) and sampled 4-node graphs x sets of <= 2 intervention subscripts, shuffled insertion "
                                     "order and edge orientation; nodes, directed and bidirected edges of the result against the definition",
                            "failures": len(fails), "wall_s": round(time.time() - t0, 1)})
    if fails:
        c, why = min(fails, key=lambda f: len(json.dumps(f[0])))
        path = pipeline.write_replay("C14", "bounded.intervene", {"property": "C14", "obligation": f"{QUAL}/bounded.definition", "case": c, "why": why})
        rep.violations.append((f"{QUAL}/bounded.definition", path, ""))


def replay(payload, path):
    why = run_case(payload["case"])
    print(json.dumps({"case": payload["case"], "now": why}, indent=1))
    if why:
        print(f"VIOLATION property=C14 replay={path}")
        return 1
    return 0
