"""C19 bounded parts (the deductive part is the contract of minimize_counterfactual and same_district):
  * minimize_counterfactual / minimize_event and get_ancestors_of_counterfactual against independent re-implementations of
    their published definitions (Correa, Lee & Bareinboim 2022, Section 4 and Def. 2.1) on every ADMG with 2-3 nodes and sampled
    4-node ADMGs x every counterfactual variable with up to two subscripts (reflexive subscripts included);
  * simplify against a functional-SCM oracle: None only for events of probability zero (in the sampled models), otherwise the
    returned event has the same probability.
The ancestral components and the counterfactual-factor factorisation are not covered (stated in the manifest)."""
from __future__ import annotations

import json
import multiprocessing as mp
import random
import time

import networkx as nx

from props import cfcommon
from y0vc import concrete, fscm, oracles, pipeline

QUAL = "y0.algorithm.counterfactual_transport"


def _dg(vs, d, cut_in=(), cut_out=()):
    g = nx.DiGraph()
    g.add_nodes_from(vs)
    g.add_edges_from((a, b) for a, b in d if b not in cut_in and a not in cut_out)
    return g


def ref_minimize(vs, d, name, ivs):
    """ivs: list of (name, star); returns the relevant ones"""
    X = {n for n, _ in ivs}
    g = _dg(vs, d, cut_in=X)
    anc = nx.ancestors(g, name) | {name}
    return sorted((n, s) for n, s in ivs if n in anc)


def ref_ancestors(vs, d, name, ivs):
    """Def. 2.1: set of (name, frozenset of relevant (name, star))"""
    X = {n for n, _ in ivs}
    g_out = _dg(vs, d, cut_out=X)
    g_in = _dg(vs, d, cut_in=X)
    out = set()
    for w in nx.ancestors(g_out, name) | {name}:
        aw = nx.ancestors(g_in, w) | {w}
        out.add((w, frozenset((n, s) for n, s in ivs if n in aw)))
    return out


def cf(name, ivs):
    dsl = concrete.y0mod("y0.dsl")
    if not ivs:
        return dsl.Variable(name)
    return dsl.CounterfactualVariable(name=name, star=None, interventions=frozenset(dsl.Intervention(name=n, star=s) for n, s in ivs))


def sig(v):
    return (v.name, frozenset((i.name, bool(i.star)) for i in getattr(v, "interventions", ())))


def run_def_case(c):
    au = concrete.y0mod(QUAL + ".ancestor_utils")
    vs, d, u = c["nodes"], c["directed"], c["undirected"]
    g = oracles.build(vs, d, u)
    var = cf(c["name"], [tuple(x) for x in c["ivs"]])
    ivs = [tuple(x) for x in c["ivs"]]
    try:
        m = au.minimize_counterfactual(var, g)
    except Exception as e:
        return f"minimize_counterfactual({var}) raised {type(e).__name__}: {e}"
    want = (c["name"], frozenset(ref_minimize(vs, d, c["name"], ivs)))
    dsl = concrete.y0mod("y0.dsl")
    if sig(m) != want or (not want[1] and type(m) is not dsl.Variable):
        return f"minimize_counterfactual({var}) = {m}, definition gives {want}"
    try:
        an = au.get_ancestors_of_counterfactual(var, g)
    except Exception as e:
        return f"get_ancestors_of_counterfactual({var}) raised {type(e).__name__}: {e}"
    if {sig(x) for x in an} != ref_ancestors(vs, d, c["name"], ivs):
        return f"get_ancestors_of_counterfactual({var}) = {sorted(map(str, an))}, Def. 2.1 gives {sorted(map(str, ref_ancestors(vs, d, c['name'], ivs)))}"
    return None


def run_simplify_case(c):
    api = concrete.y0mod(QUAL + ".api")
    vs, d, u = c["nodes"], c["directed"], c["undirected"]
    g = oracles.build(vs, d, u)
    dsl = concrete.y0mod("y0.dsl")
    ev = [(cf(n, [tuple(x) for x in ivs]), dsl.Intervention(name=n, star=star)) for n, ivs, star in c["event"]]
    try:
        out = api.simplify(event=list(ev), graph=g)
    except Exception as e:
        return f"simplify raised {type(e).__name__}: {e}"
    models = [fscm.FSCM(vs, d, u, c["seed"] + i) for i in range(2)]
    trip = lambda e_: [(v.name, {i.name: fscm.sval(i) for i in getattr(v, "interventions", ())}, fscm.sval(val)) for v, val in e_]
    p0 = [m.event_prob(trip(ev)) for m in models]
    if out is None:
        return None if all(p == 0 for p in p0) else f"simplify returned None (impossible) for an event of probability {max(p0)}"
    for v, val in out:
        if isinstance(v, dsl.CounterfactualVariable) and not v.interventions:
            return f"simplify returned the ill-formed variable {v!r}"
    p1 = [m.event_prob(trip(out)) for m in models]
    if p0 != p1:
        return f"simplify changed the probability: {p0[0]} -> {p1[0]} ({ev} -> {out})"
    return None


def gen_cases(tier, rng):
    import itertools as itt
    for vs, d, u in cfcommon.small_graphs(rng, tier, 200 if tier == "quick" else 5000):
        names = list(vs)
        for name in names:
            subs = [[]]
            for k in (1, 2):
                for sub in itt.combinations(names, k):
                    subs.append([[w, rng.random() < 0.5] for w in sub])
            for ivs in (subs if len(vs) <= 3 else rng.sample(subs, 4)):
                yield ("def", {"nodes": vs, "directed": d, "undirected": u, "name": name, "ivs": ivs})
        for _ in range(2):
            # events with a reflexive subscript (Y under do(Y)) are the input class of the open known finding on SIMPLIFY
            ev = cfcommon.random_event(rng, vs, kmax=3, reflexive=rng.random() < 0.6)
            refl = [(v, val) for v, val in ev.items() if any(i.name == v.name for i in getattr(v, "interventions", ()))]
            consistent = [1 for v, val in refl if any(i.name == v.name and bool(i.star) == bool(val.star) for i in v.interventions)]
            inconsistent = [1 for v, val in refl if any(i.name == v.name and bool(i.star) != bool(val.star) for i in v.interventions)]
            if consistent and not inconsistent:
                continue        # class of the open known finding: a consistent reflexive conjunct and no inconsistent one
            yield ("simplify", {"nodes": vs, "directed": d, "undirected": u, "event": cfcommon.event_to_json(ev), "seed": rng.randrange(1 << 30)})


def _eval(job):
    kind, c = job
    try:
        return kind, c, (run_def_case(c) if kind == "def" else run_simplify_case(c)), None
    except Exception as e:
        return kind, c, None, f"{type(e).__name__}: {e}"


def extra(rep, repo, registry, known_open):
    t0 = time.time()
    rng = random.Random(repr((rep.seed, "C19")))
    jobs = list(gen_cases(rep.tier, rng))
    concrete.y0mod("y0.dsl")
    fails, errs = [], []
    with mp.get_context("fork").Pool(16) as pool:
        for kind, c, why, err in pool.imap_unordered(_eval, jobs, chunksize=32):
            if err:
                errs.append(err)
            elif why:
                fails.append((kind, c, why))
    if errs:
        rep.errors.append(f"C19 bounded part: {len(errs)} evaluation errors, e.g. {errs[0]}")
    rep.extra_parts.append({"name": "definitions-and-simplify", "kind": "bounded", "decides": True, "evaluations": len(jobs),
                            "scope": "every ADMG on 2-3 nodes and sampled 3-4 node ADMGs; every counterfactual variable with <= 2 subscripts (minimisation, Def. 2.1 "
                                     "ancestors against re-implemented definitions); sampled events with <= 3 conjuncts (SIMPLIFY against a functional-SCM oracle; reflexive subscripts included except the known-finding class)",
                            "failures": len(fails), "wall_s": round(time.time() - t0, 1)})
    for kf in known_open:
        if kf["obligation"].endswith("/bounded.simplify"):
            why = run_simplify_case(kf["witness"])
            if why:
                rep.known_lines.append(f"KNOWN-FINDING: property=C19 {kf['what']} [{why}]")
            rep.extra_parts.append({"name": "known-finding-replay", "kind": "replay", "witness": kf["witness"], "still_fails": bool(why)})
    if fails:
        kind, c, why = min(fails, key=lambda f: len(json.dumps(f[1])))
        path = pipeline.write_replay("C19", "bounded." + kind, {"property": "C19", "obligation": f"{QUAL}/bounded.{kind}", "kind": kind, "case": c, "why": why})
        rep.violations.append((f"{QUAL}/bounded.{kind}", path, ""))
    rep.samples.append({"bounded_case": jobs[len(jobs) // 2][1]})


def replay(payload, path):
    why = run_def_case(payload["case"]) if payload["kind"] == "def" else run_simplify_case(payload["case"])
    print(json.dumps({"case": payload["case"], "now": why}, indent=1))
    if why:
        print(f"VIOLATION property=C19 replay={path}")
        return 1
    return 0
