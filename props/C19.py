"""C19 bounded parts (the deductive part is the contract of minimize_counterfactual and same_district):
  * minimize_counterfactual / minimize_event and get_ancestors_of_counterfactual against independent re-implementations of
    their published definitions (Correa, Lee & Bareinboim 2022, Section 4 and Def. 2.1) on every ADMG with 2-3 nodes and sampled
    4-node ADMGs x every counterfactual variable with up to two subscripts (reflexive subscripts included);
  * simplify against a functional-SCM oracle: None only for events of probability zero (in the sampled models), otherwise the
    returned event has the same probability.
  * get_ancestral_components against a re-implementation of Def. 4.2 (ancestral sets after cutting the out-edges of X*(W_t),
    merged while they share a vertex or are joined by a bidirected edge), X* a random subset of W*;
  * do_counterfactual_factor_factorization against Eq. 11-15 (ancestors in ctf-factor form, one joint factor per district of
    G[An(Y*)], sum over the non-query ancestors), and the identity itself evaluated on the returned expression with functional SCMs
    (a subscript is literal iff it stems from the query variable's own subscripts, else it takes the value of its variable);
    queries whose ancestor set contains one vertex under two different subscript sets are skipped (the library sums over names,
    the paper over counterfactual variables)."""
from __future__ import annotations

import json
import multiprocessing as mp
import random
import time

import networkx as nx

from props import cfcommon
from y0vc import concrete, fscm, oracles, pipeline

QUAL = "y0.algorithm.counterfactual_transport"


def _dg(vs, d, cut_in=(), cut_out=()):
    g = nx.DiGraph()
    g.add_nodes_from(vs)
    g.add_edges_from((a, b) for a, b in d if b not in cut_in and a not in cut_out)
    return g


def ref_minimize(vs, d, name, ivs):
    """ivs: list of (name, star); returns the relevant ones"""
    X = {n for n, _ in ivs}
    g = _dg(vs, d, cut_in=X)
    anc = nx.ancestors(g, name) | {name}
    return sorted((n, s) for n, s in ivs if n in anc)


def ref_ancestors(vs, d, name, ivs):
    """Def. 2.1: set of (name, frozenset of relevant (name, star))"""
    X = {n for n, _ in ivs}
    g_out = _dg(vs, d, cut_out=X)
    g_in = _dg(vs, d, cut_in=X)
    out = set()
    for w in nx.ancestors(g_out, name) | {name}:
        aw = nx.ancestors(g_in, w) | {w}
        out.add((w, frozenset((n, s) for n, s in ivs if n in aw)))
    return out


def cf(name, ivs):
    dsl = concrete.y0mod("y0.dsl")
    if not ivs:
        return dsl.Variable(name)
    return dsl.CounterfactualVariable(name=name, star=None, interventions=frozenset(dsl.Intervention(name=n, star=s) for n, s in ivs))


def sig(v):
    return (v.name, frozenset((i.name, bool(i.star)) for i in getattr(v, "interventions", ())))


def run_def_case(c):
    au = concrete.y0mod(QUAL + ".ancestor_utils")
    vs, d, u = c["nodes"], c["directed"], c["undirected"]
    g = oracles.build(vs, d, u)
    var = cf(c["name"], [tuple(x) for x in c["ivs"]])
    ivs = [tuple(x) for x in c["ivs"]]
    try:
        m = au.minimize_counterfactual(var, g)
    except Exception as e:
        return f"minimize_counterfactual({var}) raised {type(e).__name__}: {e}"
    want = (c["name"], frozenset(ref_minimize(vs, d, c["name"], ivs)))
    dsl = concrete.y0mod("y0.dsl")
    if sig(m) != want or (not want[1] and type(m) is not dsl.Variable):
        return f"minimize_counterfactual({var}) = {m}, definition gives {want}"
    try:
        an = au.get_ancestors_of_counterfactual(var, g)
    except Exception as e:
        return f"get_ancestors_of_counterfactual({var}) raised {type(e).__name__}: {e}"
    if {sig(x) for x in an} != ref_ancestors(vs, d, c["name"], ivs):
        return f"get_ancestors_of_counterfactual({var}) = {sorted(map(str, an))}, Def. 2.1 gives {sorted(map(str, ref_ancestors(vs, d, c['name'], ivs)))}"
    return None


def run_simplify_case(c):
    api = concrete.y0mod(QUAL + ".api")
    vs, d, u = c["nodes"], c["directed"], c["undirected"]
    g = oracles.build(vs, d, u)
    dsl = concrete.y0mod("y0.dsl")
    ev = [(cf(n, [tuple(x) for x in ivs]), dsl.Intervention(name=n, star=star)) for n, ivs, star in c["event"]]
    try:
        out = api.simplify(event=list(ev), graph=g)
    except Exception as e:
        return f"simplify raised {type(e).__name__}: {e}"
    models = [fscm.FSCM(vs, d, u, c["seed"] + i) for i in range(2)]
    trip = lambda e_: [(v.name, {i.name: fscm.sval(i) for i in getattr(v, "interventions", ())}, fscm.sval(val)) for v, val in e_]
    p0 = [m.event_prob(trip(ev)) for m in models]
    if out is None:
        return None if all(p == 0 for p in p0) else f"simplify returned None (impossible) for an event of probability {max(p0)}"
    for v, val in out:
        if isinstance(v, dsl.CounterfactualVariable) and not v.interventions:
            return f"simplify returned the ill-formed variable {v!r}"
    p1 = [m.event_prob(trip(out)) for m in models]
    if p0 != p1:
        return f"simplify changed the probability: {p0[0]} -> {p1[0]} ({ev} -> {out})"
    return None



def ref_components(vs, d, u, roots, conds):
    """Def. 4.2: roots / conds are lists of (name, ivs); returns a set of frozensets of (name, frozenset ivs)."""
    minimized = {(n, frozenset(ref_minimize(vs, d, n, ivs))) for n, ivs in conds}
    sets = []
    for n, ivs in roots:
        anc = ref_ancestors(vs, d, n, ivs)
        cut = {m for m in minimized if m in anc}
        cut_names = {m[0] for m in cut}
        d2 = [(a, b) for a, b in d if a not in cut_names]
        sets.append(frozenset(ref_ancestors(vs, d2, n, ivs)))
    comps = [set(s) for s in dict.fromkeys(sets)]
    changed = True
    while changed:
        changed = False
        for i in range(len(comps)):
            for j in range(i + 1, len(comps)):
                ni, nj = {x[0] for x in comps[i]}, {x[0] for x in comps[j]}
                if ni & nj or any((a in ni and b in nj) or (a in nj and b in ni) for a, b in u):
                    comps[i] |= comps[j]
                    del comps[j]
                    changed = True
                    break
            if changed:
                break
    return {frozenset(c) for c in comps}


def run_components_case(c):
    au = concrete.y0mod(QUAL + ".ancestor_utils")
    vs, d, u = c["nodes"], c["directed"], c["undirected"]
    g = oracles.build(vs, d, u)
    roots = [(n, [tuple(x) for x in ivs]) for n, ivs in c["roots"]]
    conds = [(n, [tuple(x) for x in ivs]) for n, ivs in c["conds"]]
    try:
        got = au.get_ancestral_components(conditioned_variables={cf(n, ivs) for n, ivs in conds},
                                          root_variables={cf(n, ivs) for n, ivs in roots}, graph=g)
    except Exception as e:
        return f"get_ancestral_components raised {type(e).__name__}: {e}"
    got_sig = {frozenset(sig(v) for v in comp) for comp in got}
    want = {frozenset((n, frozenset(i)) for n, i in comp) for comp in ref_components(vs, d, u, roots, conds)}
    if got_sig != want:
        show = lambda cs: sorted(sorted(f"{n}@{sorted(i)}" for n, i in comp) for comp in cs)
        return f"get_ancestral_components = {show(got_sig)}, Def. 4.2 gives {show(want)}"
    return None


def ref_factorization(vs, d, u, query):
    """Eq. 11-15.  query: list of (name, ivs, value).  Returns (factors, sum_names, literal) with factors a set of frozensets of
    (name, frozenset of (parent, star)); None when two ancestors share a vertex (the sum over names is then not the paper's)."""
    dstar = set()
    for n, ivs, _ in query:
        dstar |= ref_ancestors(vs, d, n, ivs)
    names = [n for n, _ in dstar]
    if len(names) != len(set(names)):
        return None
    literal = {n: dict(t) for n, t in dstar}
    form = {}
    for n, t in dstar:
        lit = dict(t)
        form[n] = frozenset((p, bool(lit[p]) if p in lit else False) for p, c in d if c == n)
    sub_u = [(a, b) for a, b in u if a in form and b in form]
    g = nx.Graph()
    g.add_nodes_from(form)
    g.add_edges_from(sub_u)
    factors = {frozenset((n, form[n]) for n in comp) for comp in nx.connected_components(g)}
    return factors, set(form) - {n for n, _, _ in query}, literal


def _destructure(expr):
    dsl = concrete.y0mod("y0.dsl")
    ranges = set()
    if isinstance(expr, dsl.Sum):
        ranges = {r.name for r in expr.ranges}
        expr = expr.expression
    parts = list(expr.expressions) if isinstance(expr, dsl.Product) else [expr]
    factors = set()
    for part in parts:
        if not isinstance(part, dsl.Probability) or part.parents:
            raise ValueError(f"unexpected factor {part}")
        factors.add(frozenset((v.name, frozenset((i.name, bool(i.star)) for i in getattr(v, "interventions", ()))) for v in part.children))
    return ranges, factors


def run_factor_case(c):
    api = concrete.y0mod(QUAL + ".api")
    dsl = concrete.y0mod("y0.dsl")
    vs, d, u = c["nodes"], c["directed"], c["undirected"]
    g = oracles.build(vs, d, u)
    query = [(n, [tuple(x) for x in ivs], val) for n, ivs, val in c["query"]]
    ref = ref_factorization(vs, d, u, query)
    if ref is None:
        return None
    variables = [(cf(n, ivs), dsl.Intervention(name=n, star=bool(val))) for n, ivs, val in query]
    try:
        expr, event = api.do_counterfactual_factor_factorization(variables=list(variables), graph=g)
    except Exception as e:
        return f"do_counterfactual_factor_factorization raised {type(e).__name__}: {e}"
    factors, sum_names, literal = ref
    try:
        ranges, got = _destructure(expr)
    except ValueError as e:
        return f"factorisation is not a sum over a product of joint ctf-factors: {e}"
    if ranges != sum_names or got != factors:
        return f"factorisation = sum over {sorted(ranges)} of {sorted(map(sorted, got))}; Eq. 15 gives sum over {sorted(sum_names)} of {sorted(map(sorted, factors))}"
    want_event = [((n, frozenset((p, bool(dict(ivs)[p]) if p in dict(ivs) else False) for p, ch in d if ch == n)), bool(val)) for n, ivs, val in query]
    if [(sig(v), bool(val.star)) for v, val in event] != want_event:
        return f"returned event {event} is not the query in ctf-factor form {want_event}"
    # the identity itself (Eq. 15), evaluated on the returned expression with functional SCMs
    for k in range(2):
        m = fscm.FSCM(vs, d, u, c["seed"] + k)
        p0 = m.event_prob([(n, {a: int(b) for a, b in ivs}, int(val)) for n, ivs, val in query])
        fixed = {n: int(val) for n, _, val in query}
        total = 0
        import itertools as itt
        free = sorted(ranges)
        for vals in itt.product((0, 1), repeat=len(free)):
            env = {**fixed, **dict(zip(free, vals))}
            term = 1
            for f in got:
                trip = [(n, {p: (int(s) if p in literal[n] else env[p]) for p, s in subs}, env[n]) for n, subs in f]
                term *= m.event_prob(trip)
                if term == 0:
                    break
            total += term
        if total != p0:
            return f"factorised sum-product = {total}, query probability = {p0}"
    return None


def gen_cases(tier, rng):
    import itertools as itt
    for vs, d, u in cfcommon.small_graphs(rng, tier, 200 if tier == "quick" else 5000):
        names = list(vs)
        for name in names:
            subs = [[]]
            for k in (1, 2):
                for sub in itt.combinations(names, k):
                    subs.append([[w, rng.random() < 0.5] for w in sub])
            for ivs in (subs if len(vs) <= 3 else rng.sample(subs, 4)):
                yield ("def", {"nodes": vs, "directed": d, "undirected": u, "name": name, "ivs": ivs})
        for _ in range(2):
            # events with a reflexive subscript (Y under do(Y)) are the input class of the open known finding on SIMPLIFY
            ev = cfcommon.random_event(rng, vs, kmax=3, reflexive=rng.random() < 0.6)
            refl = [(v, val) for v, val in ev.items() if any(i.name == v.name for i in getattr(v, "interventions", ()))]
            consistent = [1 for v, val in refl if any(i.name == v.name and bool(i.star) == bool(val.star) for i in v.interventions)]
            inconsistent = [1 for v, val in refl if any(i.name == v.name and bool(i.star) != bool(val.star) for i in v.interventions)]
            if consistent and not inconsistent:
                continue        # class of the open known finding: a consistent reflexive conjunct and no inconsistent one
            yield ("simplify", {"nodes": vs, "directed": d, "undirected": u, "event": cfcommon.event_to_json(ev), "seed": rng.randrange(1 << 30)})
        for _ in range(3):
            ev = cfcommon.event_to_json(cfcommon.random_event(rng, vs, kmax=3))
            roots = [[n, ivs] for n, ivs, _ in ev]
            conds = rng.sample(roots, rng.randint(0, len(roots)))      # X* is a subset of W*
            yield ("components", {"nodes": vs, "directed": d, "undirected": u, "roots": roots, "conds": conds})
        for _ in range(2):
            ev = cfcommon.event_to_json(cfcommon.random_event(rng, vs, kmax=2))
            if len({n for n, _, _ in ev}) == len(ev):
                yield ("factor", {"nodes": vs, "directed": d, "undirected": u, "query": ev, "seed": rng.randrange(1 << 30)})


RUNNERS = {"def": run_def_case, "simplify": run_simplify_case, "components": run_components_case, "factor": run_factor_case}


def _eval(job):
    kind, c = job
    try:
        return kind, c, RUNNERS[kind](c), None
    except Exception as e:
        return kind, c, None, f"{type(e).__name__}: {e}"


def extra(rep, repo, registry, known_open):
    t0 = time.time()
    rng = random.Random(repr((rep.seed, "C19")))
    jobs = list(gen_cases(rep.tier, rng))
    concrete.y0mod("y0.dsl")
    fails, errs = [], []
    with mp.get_context("fork").Pool(16) as pool:
        for kind, c, why, err in pool.imap_unordered(_eval, jobs, chunksize=32):
            if err:
                errs.append(err)
            elif why:
                fails.append((kind, c, why))
    if errs:
        rep.errors.append(f"C19 bounded part: {len(errs)} evaluation errors, e.g. {errs[0]}")
    rep.extra_parts.append({"name": "definitions-simplify-components-factorisation", "kind": "bounded", "decides": True, "evaluations": len(jobs),
                            "scope": "every ADMG on 2-3 nodes and sampled 3-4 node ADMGs; every counterfactual variable with <= 2 subscripts (minimisation, Def. 2.1 "
                                     "ancestors against re-implemented definitions); sampled events with <= 3 conjuncts (SIMPLIFY against a functional-SCM oracle; reflexive subscripts included except the known-finding class); "
                                     "sampled root sets with <= 3 variables and conditioned subsets (ancestral components, Def. 4.2); sampled queries with <= 2 conjuncts (ctf-factor factorisation, Eq. 11-15, structurally and numerically)",
                            "failures": len(fails), "wall_s": round(time.time() - t0, 1)})
    for kf in known_open:
        if kf["obligation"].endswith("/bounded.simplify"):
            why = run_simplify_case(kf["witness"])
            if why:
                rep.known_lines.append(f"KNOWN-FINDING: property=C19 {kf['what']} [{why}]")
            rep.extra_parts.append({"name": "known-finding-replay", "kind": "replay", "witness": kf["witness"], "still_fails": bool(why)})
    if fails:
        kind, c, why = min(fails, key=lambda f: len(json.dumps(f[1])))
        path = pipeline.write_replay("C19", "bounded." + kind, {"property": "C19", "obligation": f"{QUAL}/bounded.{kind}", "kind": kind, "case": c, "why": why})
        rep.violations.append((f"{QUAL}/bounded.{kind}", path, ""))
    rep.samples.append({"bounded_case": jobs[len(jobs) // 2][1]})


def replay(payload, path):
    why = RUNNERS[payload["kind"]](payload["case"])
    print(json.dumps({"case": payload["case"], "now": why}, indent=1))
    if why:
        print(f"VIOLATION property=C19 replay={path}")
        return 1
    return 0
