"""C12: printing and parsing.

Part A (exhaustive over a syntactic-class abstraction; DESIGN §5 C12).  Every expression printer (`to_y0` of Product,
Fraction, Sum, One, Zero) is run -- the real method, on real objects -- over *all* expression trees of depth <= 3 whose
leaves are opaque holes, and CPython's own parser reads the text back.  Obligation per tree: the text parses, every name
it uses besides holes is known to parse_y0, and the parsed tree, read with ordinary operator precedence, means what the
object means (products of the factors, numerator over denominator, Sum[ranges] of the body).  Because the syntactic class
of each printer's output (a parenthesised / call atom, or a bare `*` chain) does not depend on what is below depth 1, the
depth-3 enumeration covers every parent / child / grandchild combination: it is an inductive argument, relative to Python's
expression grammar being an operator-precedence grammar.  Part A is finite and exhaustive; it is reported separately from
Part B (bounded): parse_y0(str(e)) on sampled concrete expressions (variables with marks and subscripts, population tags,
Q factors) judged by exact evaluation, plus object equality and text fix-point on the un-nested-division family."""
from __future__ import annotations

import ast
import itertools as itt
import json
import random
import time
from fractions import Fraction as Fr

from y0vc import concrete, exproracle as xo, pipeline


class Hole:
    """an opaque sub-expression that prints as an atom"""
    def __init__(self, i):
        self.i = i

    def to_y0(self, parens=True):
        return f"h{self.i}"

    def __repr__(self):
        return f"h{self.i}"


def trees(depth, counter):
    """all expression objects of the given maximal depth over fresh holes (real y0 classes, hole leaves)"""
    dsl = concrete.y0mod("y0.dsl")
    if depth == 0:
        yield Hole(next(counter))
        return
    subs = list(trees(depth - 1, itt.count(0)))      # structure only; holes are renumbered below
    yield Hole(next(counter))
    yield dsl.One()
    yield dsl.Zero()
    for a, b in itt.product(subs, repeat=2):
        yield dsl.Product((a, b))
        if not isinstance(b, dsl.Zero):
            yield dsl.Fraction(a, b)
    for a in subs:
        if not isinstance(a, dsl.Zero):
            yield dsl.Sum(a, frozenset([dsl.Variable("R")]))


def renumber(e, counter):
    dsl = concrete.y0mod("y0.dsl")
    if isinstance(e, Hole):
        return Hole(next(counter))
    if isinstance(e, dsl.Product):
        return dsl.Product(tuple(renumber(x, counter) for x in e.expressions))
    if isinstance(e, dsl.Fraction):
        return dsl.Fraction(renumber(e.numerator, counter), renumber(e.denominator, counter))
    if isinstance(e, dsl.Sum):
        return dsl.Sum(renumber(e.expression, counter), e.ranges)
    return e


def spec_value(e, env):
    """what the object means (the specification of the printers), on numeric stand-ins for the holes"""
    dsl = concrete.y0mod("y0.dsl")
    if isinstance(e, Hole):
        return env[f"h{e.i}"]
    if isinstance(e, dsl.Product):
        r = Fr(1)
        for x in e.expressions:
            r *= spec_value(x, env)
        return r
    if isinstance(e, dsl.Fraction):
        return spec_value(e.numerator, env) / spec_value(e.denominator, env)
    if isinstance(e, dsl.Sum):
        return SumStub.f(spec_value(e.expression, env))
    if isinstance(e, dsl.One):
        return Fr(1)
    if isinstance(e, dsl.Zero):
        return Fr(0)
    raise TypeError(type(e))


class SumStub:
    """Sum[ranges](x): an injective stand-in for the summation operator"""
    @staticmethod
    def f(x):
        return 3 * x + Fr(1, 7)

    def __class_getitem__(cls, item):
        return cls.f


def check_tree(e, locals_keys):
    text = e.to_y0()
    try:
        tree = ast.parse(text, mode="eval")
    except SyntaxError as ex:
        return f"{text!r} does not parse: {ex}"
    names = {n.id for n in ast.walk(tree) if isinstance(n, ast.Name)}
    unknown = {n for n in names if not n.startswith("h") and n != "R" and n not in locals_keys}
    if unknown:
        return f"{text!r} uses names unknown to parse_y0: {sorted(unknown)}"
    holes = sorted(n for n in names if n.startswith("h"))
    for trial in range(3):
        rng = random.Random(trial * 7919 + len(text))
        env = {h: Fr(rng.randint(2, 97), rng.randint(2, 97)) for h in holes}
        scope = {**env, "Sum": SumStub, "One": lambda: Fr(1), "Zero": lambda: Fr(0), "R": None}
        try:
            want = spec_value(e, env)
        except ZeroDivisionError:
            continue
        try:
            got = eval(compile(tree, "<printed>", "eval"), {}, scope)
        except ZeroDivisionError:
            return f"{text!r} divides by zero when read back, the object does not"
        if got != want:
            return f"{text!r} read with ordinary precedence evaluates to {got}, the object means {want}"
    return None


def part_a(rep):
    parser = concrete.y0mod("y0.parser.internal")
    keys = set(parser.LOCALS)
    n = bad = 0
    first = None
    seen = set()
    for depth in (1, 2, 3):
        for t in trees(depth, itt.count(0)):
            e = renumber(t, itt.count(0))
            key = e.to_y0() if not isinstance(e, Hole) else "h"
            if key in seen:
                continue
            seen.add(key)
            n += 1
            why = check_tree(e, keys)
            if why:
                bad += 1
                first = first or why
    return n, bad, first


# ------------------------------------------------------------------------------------------------ part B
def rich_pool(rng):
    dsl = concrete.y0mod("y0.dsl")
    V = dsl.Variable
    A, B, C = V("A"), V("B"), V("C")
    atoms = []
    P, PP = dsl.P, dsl.PP
    for ch, pa in [((A,), ()), ((A, B), ()), ((A,), (B,)), ((A,), (B, C)), ((A, C), (B,)), ((B,), ()), ((C,), (A,))]:
        d = dsl.Distribution(children=ch, parents=pa)
        atoms.append(dsl.Probability(d))
        atoms.append(dsl.PopulationProbability(population=dsl.Population("Pi1"), distribution=d))
    atoms += [P[B](A), P[B, C](A), P(A @ B), P[-B](A | C), P(+A | B), P(-A, +B), PP[dsl.Population("Pi1")][C](A | B)]
    atoms += [dsl.QFactor(domain=frozenset([A]), codomain=frozenset([B])), dsl.QFactor(domain=frozenset([A, B]), codomain=frozenset([C]))]
    return atoms


leaf_family = xo.leaf_family


LEAF_SNIPPET = r"""
import sys
sys.path.insert(0, sys.argv[2]); sys.path.insert(0, sys.argv[1])
from props import C12
from y0.parser import parse_y0
bad = []
for e in C12.leaf_family():
    t = e.to_y0()
    try:
        b = parse_y0(t)
    except Exception as ex:
        bad.append(f"parse_y0({t!r}) raised {type(ex).__name__}"); continue
    if b != e:
        bad.append(f"parse_y0({t!r}) is not equal to the original object")
    elif b.to_y0() != t:
        bad.append(f"{t!r} parses to an equal object that re-prints as {b.to_y0()!r}")
print(len(bad))
for x in bad[:3]:
    print(x)
"""


def leaf_hash_seed_part():
    """The leaf family again in fresh interpreters under other hash seeds (subscripts are frozensets: printing must not depend on
    their iteration order)."""
    import os
    import subprocess
    import sys
    from pathlib import Path
    from y0vc.extract import SRC
    here = str(Path(__file__).resolve().parent.parent)
    out = []
    for hs in ("0", "3", "12345"):
        p = subprocess.run([sys.executable, "-c", LEAF_SNIPPET, str(SRC), here], capture_output=True, text=True,
                           env={**os.environ, "PYTHONHASHSEED": hs}, timeout=900)
        lines = p.stdout.splitlines()
        if p.returncode != 0 or not lines:
            raise RuntimeError(f"leaf pass under PYTHONHASHSEED={hs} failed: {p.stderr[-400:]}")
        if int(lines[0]):
            out.append((hs, lines[1]))
    return out


def gen_expr(rng, atoms, depth, allow_div=True):
    dsl = concrete.y0mod("y0.dsl")
    if depth == 0 or rng.random() < 0.25:
        return rng.choice(atoms) if rng.random() < 0.93 else rng.choice([dsl.One(), dsl.Zero()])
    k = rng.random()
    if k < 0.4:
        return gen_expr(rng, atoms, depth - 1, allow_div) * gen_expr(rng, atoms, depth - 1, allow_div)
    if k < 0.65 and allow_div:
        d = gen_expr(rng, atoms, depth - 1, True)
        try:
            return gen_expr(rng, atoms, depth - 1, True) / d
        except ZeroDivisionError:
            return d
    e = gen_expr(rng, atoms, depth - 1, allow_div)
    rs = [v for v in "ABC" if rng.random() < 0.5] or ["A"]
    return dsl.Sum.safe(e, [dsl.Variable(v) for v in rs])


def unnested(e):
    """every division has division-free, non-constant operands and is not a factor of a product"""
    dsl = concrete.y0mod("y0.dsl")

    def has_div(x):
        if isinstance(x, dsl.Fraction):
            return True
        if isinstance(x, dsl.Product):
            return any(has_div(y) for y in x.expressions)
        if isinstance(x, dsl.Sum):
            return has_div(x.expression)
        return False

    def const(x):
        return isinstance(x, (dsl.One, dsl.Zero))

    def ok(x, in_product=False):
        if isinstance(x, dsl.Fraction):
            return not in_product and not has_div(x.numerator) and not has_div(x.denominator) and not const(x.numerator) \
                and not const(x.denominator) and ok(x.numerator) and ok(x.denominator)
        if isinstance(x, dsl.Product):
            return all(ok(y, True) for y in x.expressions)
        if isinstance(x, dsl.Sum):
            return ok(x.expression)
        return True
    return ok(e)


def run_b(e_text_pickle):
    import base64
    import pickle
    parser = concrete.y0mod("y0.parser")
    e = pickle.loads(base64.b64decode(e_text_pickle))
    text = e.to_y0()
    try:
        back = parser.parse_y0(text)
    except Exception as ex:
        return f"parse_y0({text!r}) raised {type(ex).__name__}: {ex}"
    models = [xo.Model(xo.NAMES, 5), xo.Model(xo.NAMES, 6)]
    for m in models:
        a, b = xo.values(e, m), xo.values(back, m)
        for i in range(8):
            if a[i] is not None and a[i] != b[i]:
                return f"{text!r} parses to an expression with value {b[i]} at assignment #{i}; the object means {a[i]}"
    if unnested(e):
        if back != e:
            return f"un-nested division family: parse_y0({text!r}) = {back!r} is not equal to the original object"
        if back.to_y0() != text:
            return f"un-nested division family: re-printing gives {back.to_y0()!r}, not {text!r}"
    return None


def extra(rep, repo, registry, known_open):
    import base64
    import pickle
    t0 = time.time()
    n, bad, first = part_a(rep)
    rep.extra_parts.append({"name": "printer-precedence-exhaustive", "kind": "exhaustive-syntactic-classes", "obligations": n, "failed": bad,
                            "scope": "all expression trees of depth <= 3 over Product / Fraction / Sum / One / Zero with opaque atomic leaves; real to_y0, CPython parser",
                            "wall_s": round(time.time() - t0, 1)})
    rep.n_extra_obligations = getattr(rep, "n_extra_obligations", 0) + n
    rep.n_extra_discharged = getattr(rep, "n_extra_discharged", 0) + (n - bad)
    if bad:
        path = pipeline.write_replay("C12", "printer.precedence", {"property": "C12", "obligation": "y0.dsl.to_y0/printer.precedence", "why": first, "kind": "part-a"})
        rep.violations.append(("y0.dsl.to_y0/printer.precedence", path, ""))
    # part B
    rng = random.Random(repr((rep.seed, "C12")))
    leaves = leaf_family()
    atoms = rich_pool(rng) + rng.sample(leaves, 40)
    N = 1500 if rep.tier == "quick" else 40000
    fails, seen, nun = [], set(), 0
    for j in range(N + len(leaves)):
        e = leaves[j] if j < len(leaves) else gen_expr(rng, atoms, rng.randint(0, 3))
        seen.add(str(e))
        nun += unnested(e)
        blob = base64.b64encode(pickle.dumps(e)).decode()
        why = run_b(blob)
        if why:
            fails.append((str(e), why, blob))
            if len(fails) >= 3:
                break
    rep.extra_parts.append({"name": "parse-print-roundtrip", "kind": "bounded", "decides": True, "evaluations": N + len(leaves), "distinct": len(seen), "unnested_family": nun,
                            "scope": f"every probability leaf over A, B, C ({len(leaves)}: 1-2 children, 0-2 parents, +/- marks, 0-2 subscripts carried by all variables or by the "
                                     "first child only, with and without a population) and sampled expressions of depth <= 3 built with the DSL operators over plain / conditional / interventional / population-tagged "
                                     "probabilities, Q factors, One, Zero; exact evaluation; object equality and text fix-point on the un-nested family",
                            "failures": len(fails), "wall_s": round(time.time() - t0, 1)})
    hs_fails = leaf_hash_seed_part()
    rep.extra_parts.append({"name": "leaf-roundtrip-under-hash-seeds", "kind": "bounded", "decides": True, "evaluations": 3 * len(leaves),
                            "scope": "the leaf family in fresh interpreters under PYTHONHASHSEED = 0, 3, 12345: parse succeeds, equal object, same text",
                            "failures": len(hs_fails)})
    if hs_fails and not fails:
        hs, why = hs_fails[0]
        path = pipeline.write_replay("C12", "bounded.roundtrip", {"property": "C12", "obligation": "y0.parser.internal.parse_y0/bounded.roundtrip",
                                                                  "expression": why, "why": f"PYTHONHASHSEED={hs}: {why}", "hash_seed": hs})
        rep.violations.append(("y0.parser.internal.parse_y0/bounded.roundtrip", path, ""))
    if fails:
        s, why, blob = min(fails, key=lambda f: len(f[0]))
        path = pipeline.write_replay("C12", "bounded.roundtrip", {"property": "C12", "obligation": "y0.parser.internal.parse_y0/bounded.roundtrip",
                                                                  "expression": s, "why": why, "pickle_b": blob})
        rep.violations.append(("y0.parser.internal.parse_y0/bounded.roundtrip", path, ""))
    rep.samples.append({"printed": [str(gen_expr(random.Random(3), atoms, 2)) for _ in range(1)]})


def replay(payload, path):
    if payload.get("kind") == "part-a":
        class R:
            tier = "quick"
        n, bad, first = part_a(R)
        print(json.dumps({"obligations": n, "failed": bad, "first": first}))
        if bad:
            print(f"VIOLATION property=C12 replay={path}")
            return 1
        return 0
    if payload.get("hash_seed"):
        now = leaf_hash_seed_part()
        print(json.dumps({"recorded": payload["why"], "now": now}))
        if now:
            print(f"VIOLATION property=C12 replay={path}")
            return 1
        return 0
    why = run_b(payload["pickle_b"])
    print(json.dumps({"expression": payload["expression"], "now": why}))
    if why:
        print(f"VIOLATION property=C12 replay={path}")
        return 1
    return 0
