"""C18 bounded part: make_counterfactual_graph end to end against a functional-SCM oracle (exogenous noise shared across
worlds): the relabelled event has the same probability; 'inconsistent' only for events of probability zero (in the sampled
models); the produced graph is acyclic, consists exactly of the ancestors of the relabelled event and contains every event
variable.  Events with reflexive subscripts (V under do(V)) are excluded: known finding on merge_pw (see known_findings.json)."""
from __future__ import annotations

import json
import multiprocessing as mp
import random
import time

import networkx as nx

from props import cfcommon
from y0vc import concrete, fscm, oracles, pipeline

QUAL = "y0.algorithm.identify.cg.make_counterfactual_graph"


def gen_cases(tier, rng):
    for vs, d, u in cfcommon.small_graphs(rng, tier, 500 if tier == "quick" else 8000):
        for _ in range(3 if len(vs) < 4 else 2):
            ev = cfcommon.random_event(rng, vs, kmax=3)
            yield {"nodes": vs, "directed": d, "undirected": u, "event": cfcommon.event_to_json(ev), "seed": rng.randrange(1 << 30)}


def run_case(c):
    cg = concrete.y0mod("y0.algorithm.identify.cg")
    vs, d, u = c["nodes"], c["directed"], c["undirected"]
    g = oracles.build(vs, d, u)
    ev = cfcommon.event_from_json(c["event"])
    try:
        graph2, new_ev = cg.make_counterfactual_graph(g, dict(ev))
    except Exception as e:
        return f"raised {type(e).__name__}: {e}"
    models = [fscm.FSCM(vs, d, u, c["seed"] + i) for i in range(2)]
    p0 = [m.event_prob(fscm.event_of(ev)) for m in models]
    if new_ev is None:
        if any(p != 0 for p in p0):
            return f"reported inconsistent, but the event has probability {max(p0)} in a compatible model"
        return None
    if not nx.is_directed_acyclic_graph(graph2.directed):
        return "the counterfactual graph has a directed cycle"
    missing = [str(k) for k in new_ev if k not in graph2.nodes()]
    if missing:
        return f"relabelled event variables {missing} are not nodes of the counterfactual graph"
    if set(graph2.nodes()) != graph2.ancestors_inclusive(set(new_ev)):
        return "the counterfactual graph is not exactly the ancestors of the relabelled event"
    p1 = [m.event_prob(fscm.event_of(new_ev)) for m in models]
    if p0 != p1:
        return f"probability changed: {p0[0]} for the event, {p1[0]} for the relabelled event {new_ev}"
    return None


def run_pw_case(c):
    """Run-time contract of make_parallel_worlds_graph (bounded): the result is exactly the parallel-worlds graph of the event's
    worlds -- one copy of every node per world plus the factual copy; U_w -> V_w for every U -> V unless V is fixed in w; a
    bidirected edge between two distinct copies exactly when they share exogenous noise: copies of the same variable in
    different worlds, or copies (in any two worlds, the same one included) of two variables joined by a bidirected edge --
    a copy fixed by its own world's intervention has no noise and no such edge."""
    dsl = concrete.y0mod("y0.dsl")
    cg = concrete.y0mod("y0.algorithm.identify.cg")
    V = dsl.Variable
    vs, d, u = c["nodes"], c["directed"], c["undirected"]
    g = oracles.build(vs, d, u, random.Random(c["seed"]))
    worlds = {frozenset(dsl.Intervention(name=n, star=bool(st)) for n, st in w) for w in c["worlds"]}
    try:
        pw = cg.make_parallel_worlds_graph(g, worlds)
    except Exception as e:
        return f"make_parallel_worlds_graph raised {type(e).__name__}: {e}"
    W = [None] + sorted(worlds, key=lambda w: sorted(map(str, w)))

    def copy(v, w):
        return V(v) if w is None else V(v).intervene(w)

    def fixed(v, w):
        return w is not None and any(i.name == v for i in w)
    want_nodes = {copy(v, w) for v in vs for w in W}
    want_d = {(copy(a, w), copy(b, w)) for a, b in d for w in W if not fixed(b, w)}
    und = {frozenset(e) for e in u}
    want_u = set()
    for v in vs:
        for x in vs:
            for w1 in W:
                for w2 in W:
                    if (v, w1) == (x, w2) or fixed(v, w1) or fixed(x, w2):
                        continue
                    if (v == x and w1 != w2) or frozenset((v, x)) in und:
                        want_u.add(frozenset((copy(v, w1), copy(x, w2))))
    got_u = {frozenset(e) for e in pw.undirected.edges()}
    if set(pw.nodes()) != want_nodes:
        return f"nodes differ: missing {sorted(map(str, want_nodes - set(pw.nodes())))}, extra {sorted(map(str, set(pw.nodes()) - want_nodes))}"
    if set(pw.directed.edges()) != want_d:
        return (f"directed edges differ: missing {sorted(map(str, want_d - set(pw.directed.edges())))}, "
                f"extra {sorted(map(str, set(pw.directed.edges()) - want_d))}")
    if got_u != want_u:
        return (f"bidirected edges differ: missing {sorted(sorted(map(str, e)) for e in want_u - got_u)}, "
                f"extra {sorted(sorted(map(str, e)) for e in got_u - want_u)}")
    return None


def gen_pw_cases(tier, rng):
    for vs, d, u in cfcommon.small_graphs(rng, tier, 300 if tier == "quick" else 4000):
        for _ in range(2):
            nw = rng.choice([1, 2, 3, 3, 4])
            worlds = set()
            for _ in range(nw):
                k = rng.randint(1, min(2, len(vs)))
                worlds.add(tuple(sorted((n, rng.random() < 0.5) for n in rng.sample(vs, k))))
            yield {"pw": True, "nodes": vs, "directed": d, "undirected": u, "worlds": [list(map(list, w)) for w in sorted(worlds)],
                   "seed": rng.randrange(1 << 30)}


def _eval(c):
    try:
        if c.get("pw"):
            return c, run_pw_case(c), None
        return c, run_case(c), None
    except Exception as e:
        return c, None, f"{type(e).__name__}: {e}"


def extra(rep, repo, registry, known_open):
    t0 = time.time()
    rng = random.Random(repr((rep.seed, "C18")))
    cases = list(gen_cases(rep.tier, rng))
    pw_cases = list(gen_pw_cases(rep.tier, random.Random(repr((rep.seed, "C18-pw")))))
    concrete.y0mod("y0.dsl")
    fails, errs = [], []
    pfails = []
    with mp.get_context("fork").Pool(16) as pool:
        for c, why, err in pool.imap_unordered(_eval, pw_cases, chunksize=16):
            if err:
                errs.append(err)
            elif why:
                pfails.append((c, why))
    rep.extra_parts.append({"name": "parallel-worlds-graph-runtime-contract", "kind": "bounded", "decides": True, "evaluations": len(pw_cases),
                            "scope": "make_parallel_worlds_graph against its definition (nodes, directed and bidirected edges exactly) on every ADMG on 2-3 "
                                     "nodes and sampled 3-4 node ADMGs with 1-4 worlds of 1-2 interventions each", "failures": len(pfails)})
    if pfails:
        c, why = min(pfails, key=lambda f: (len(f[0]["nodes"]), len(f[0]["worlds"])))
        oid = "y0.algorithm.identify.cg.make_parallel_worlds_graph/bounded.contract"
        path = pipeline.write_replay("C18", "bounded.pw", {"property": "C18", "obligation": oid, "case": c, "why": why})
        rep.violations.append((oid, path, ""))
    with mp.get_context("fork").Pool(16) as pool:
        for c, why, err in pool.imap_unordered(_eval, cases, chunksize=16):
            if err:
                errs.append(err)
            elif why:
                fails.append((c, why))
    if errs:
        rep.errors.append(f"C18 bounded part: {len(errs)} evaluation errors, e.g. {errs[0]}")
    rep.extra_parts.append({"name": "counterfactual-graph-vs-functional-scm", "kind": "bounded", "decides": True, "evaluations": len(cases),
                            "scope": "every ADMG on 2-3 nodes and sampled 3-4 node ADMGs, sampled conjunctions of up to 3 counterfactual events with up to 2 "
                                     "(non-reflexive) subscripts; two random functional SCMs per case", "failures": len(fails), "wall_s": round(time.time() - t0, 1)})
    # known finding: replay the witness through make_counterfactual_graph
    for kf in known_open:
        if kf["obligation"].endswith("merge_pw/post.other-nodes-kept"):
            w = {"nodes": ["X", "Y"], "directed": [["X", "Y"]], "undirected": [], "event": [["X", [["Y", False]], False], ["X", [["X", False]], False]], "seed": 1}
            why = run_case(w)
            rep.extra_parts.append({"name": "known-finding-replay", "kind": "replay", "witness": w, "still_fails": bool(why), "why": why})
    if fails:
        c, why = min(fails, key=lambda f: (len(f[0]["nodes"]), len(f[0]["event"])))
        path = pipeline.write_replay("C18", "bounded.cg", {"property": "C18", "obligation": QUAL + "/bounded", "case": c, "why": why})
        rep.violations.append((QUAL + "/bounded", path, ""))
    rep.samples.append({"bounded_case": cases[len(cases) // 2]})


def replay(payload, path):
    why = run_pw_case(payload["case"]) if payload["case"].get("pw") else run_case(payload["case"])
    print(json.dumps({"case": payload["case"], "now": why}, indent=1))
    if why:
        print(f"VIOLATION property=C18 replay={path}")
        return 1
    return 0
