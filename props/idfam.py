"""Bounded parts for the ID family (C01, C02, C06-ID): the real identify_outcomes / identify on enumerated and sampled
queries, judged by (a) an exact SCM oracle (value of the estimand = interventional distribution), (b) an independent
identifiability criterion (verdict), (c) a syntactic vocabulary check.  Bounded: never counted as proved."""
from __future__ import annotations

import copy
import itertools as itt
import json
import multiprocessing as mp
import random
import time

from y0vc import concrete, exproracle as xo, oracles, pipeline, scm


def queries(vs):
    for k in range(1, len(vs)):
        for xs in itt.combinations(vs, k):
            rest = [v for v in vs if v not in xs]
            for j in range(1, len(rest) + 1):
                for ys in itt.combinations(rest, j):
                    yield list(xs), list(ys)


def gen_cases(tier, rng, n_random):
    for n in (2, 3):
        for vs, d, u in oracles.all_admgs(n):
            for xs, ys in queries(vs):
                yield {"nodes": vs, "directed": d, "undirected": u, "X": xs, "Y": ys, "seed": rng.randrange(1 << 30)}
    for name, (vs, d, u) in oracles.TEXTBOOK.items():
        for xs, ys in queries(vs):
            if len(xs) <= 2 and len(ys) <= 2:
                yield {"nodes": vs, "directed": d, "undirected": u, "X": xs, "Y": ys, "seed": rng.randrange(1 << 30), "name": name}
    # the full space of 4-node ADMGs x queries is sampled uniformly (exhausted in the thorough tier)
    four = None
    if tier == "thorough":
        for vs, d, u in oracles.all_admgs(4):
            for xs, ys in queries(vs):
                if rng.random() < 0.25:
                    yield {"nodes": vs, "directed": d, "undirected": u, "X": xs, "Y": ys, "seed": rng.randrange(1 << 30)}
    else:
        vs4 = oracles.names(4)
        pairs = [(a, b) for a in vs4 for b in vs4 if a < b]
        for _ in range(n_random):
            order = rng.sample(vs4, 4)
            pos = {v: i for i, v in enumerate(order)}
            d = [(a, b) if pos[a] < pos[b] else (b, a) for a, b in pairs if rng.random() < 0.5]
            u = [(a, b) for a, b in pairs if rng.random() < 0.4]
            xs, ys = rng.choice(list(queries(vs4)))
            yield {"nodes": vs4, "directed": d, "undirected": u, "X": xs, "Y": ys, "seed": rng.randrange(1 << 30)}
    for _ in range(n_random):
        n = rng.choice([4, 4, 5, 5, 6])
        pu = rng.choice([0.15, 0.25, 0.4]) if n < 6 else 0.15
        vs, d, u = oracles.random_admg(rng, n, p_d=rng.choice([0.3, 0.45, 0.6]), p_u=pu)
        if len(u) > 5:
            u = u[:5]
        k = rng.randint(1, max(1, n - 2))
        xs = rng.sample(vs, k)
        rest = [v for v in vs if v not in xs]
        ys = rng.sample(rest, rng.randint(1, min(2, len(rest))))
        yield {"nodes": vs, "directed": d, "undirected": u, "X": xs, "Y": ys, "seed": rng.randrange(1 << 30)}
    # large districts whose other members are all treated: the recursion passes through line 7 more than once only when the outcome's
    # district (four or more nodes) is cut down step by step -- uniform sampling never reaches this (0 of 4,000 in a trial; this
    # family: about 1 in 800 exposes a defect that needs two nested line-7 steps)
    for _ in range(6 * n_random):
        n = rng.choice([5, 5, 6])
        vs = oracles.names(n)
        order = rng.sample(vs, n)
        pos = {v: i for i, v in enumerate(order)}
        d = [(a, b) for a in vs for b in vs if pos[a] < pos[b] and rng.random() < 0.4]
        chain = rng.sample(vs, 4)
        u = [tuple(sorted(e)) for e in zip(chain, chain[1:])]
        y = chain[0]
        xs = [v for v in vs if v != y and (v in chain or rng.random() < 0.7)]
        yield {"nodes": vs, "directed": d, "undirected": u, "X": xs, "Y": [y], "seed": rng.randrange(1 << 30)}


def vocab_obs(e, names):
    """None, or why the expression is not an observational estimand over the user's nodes"""
    dsl = concrete.y0mod("y0.dsl")
    if isinstance(e, dsl.PopulationProbability):
        return f"population-tagged term {e}"
    if isinstance(e, dsl.Probability):
        for v in (*e.children, *e.parents):
            if isinstance(v, (dsl.CounterfactualVariable, dsl.Intervention)) or v.star is not None:
                return f"counterfactual / intervention / starred variable {v} in {e}"
            if v.name not in names:
                return f"variable {v} of {e} is not a node of the graph"
        return None
    if isinstance(e, dsl.Sum):
        for r in e.ranges:
            if r.name not in names or type(r) is not dsl.Variable:
                return f"summation range {r} is not a node of the graph"
        return vocab_obs(e.expression, names)
    if isinstance(e, dsl.Product):
        return next((w for w in (vocab_obs(x, names) for x in e.expressions) if w), None)
    if isinstance(e, dsl.Fraction):
        return vocab_obs(e.numerator, names) or vocab_obs(e.denominator, names)
    if isinstance(e, (dsl.One, dsl.Zero)):
        return None
    return f"term of kind {type(e).__name__}: {e}"


def run_case(c, which=("C01", "C02", "C06")):
    """dict property -> why it is violated on this case (missing = holds)"""
    dsl = concrete.y0mod("y0.dsl")
    api = concrete.y0mod("y0.algorithm.identify")
    V = dsl.Variable
    vs, d, u = c["nodes"], c["directed"], c["undirected"]
    g = oracles.build(vs, d, u, random.Random(c["seed"]))
    if c["seed"] % 4 == 0:
        # the same graph given as an NxMixedGraph wrapped around networkx graphs with plain string nodes
        import networkx as nx
        graphmod = concrete.y0mod("y0.graph")
        dg, ug = nx.DiGraph(), nx.Graph()
        dg.add_nodes_from(vs)
        ug.add_nodes_from(vs)
        dg.add_edges_from(d)
        ug.add_edges_from(u)
        g = graphmod.NxMixedGraph(directed=dg, undirected=ug)
    snap = ([(type(n).__name__, str(n)) for n in g.nodes()], sorted(map(str, g.directed.edges())), sorted(str(sorted(map(str, e))) for e in g.undirected.edges()),
            [(type(n).__name__, str(n)) for n in g.undirected.nodes()])
    X, Y = {V(x) for x in c["X"]}, {V(y) for y in c["Y"]}
    X0, Y0 = set(X), set(Y)
    out = {}
    try:
        est = api.identify_outcomes(g, X, Y)
    except Exception as e:
        out["C02"] = f"identify_outcomes raised {type(e).__name__}: {e}"
        return out
    snap2 = ([(type(n).__name__, str(n)) for n in g.nodes()], sorted(map(str, g.directed.edges())), sorted(str(sorted(map(str, e))) for e in g.undirected.edges()),
             [(type(n).__name__, str(n)) for n in g.undirected.nodes()])
    if snap != snap2 or X != X0 or Y != Y0:
        out["C02"] = "the caller's graph or query sets were modified"
    truth = scm.identifiable(vs, d, u, c["X"], c["Y"])
    if (est is not None) != truth:
        out.setdefault("C02", f"verdict {'estimand' if est is not None else 'unidentifiable'} but the effect is "
                              f"{'identifiable' if truth else 'not identifiable'} (c-component criterion)")
    if est is None:
        return out
    why = vocab_obs(est, set(vs))
    if why:
        out["C06"] = why
    if "C01" in which and not why:
        m = scm.SCM(vs, d, u, c["seed"])
        model = xo.Model.from_scm(m)
        for xv in itt.product(range(2), repeat=len(c["X"])):
            do = dict(zip(c["X"], xv))
            for env in xo.envs(m.order):
                if any(env[k] != v for k, v in do.items()):
                    continue
                want = m.prob({y: env[y] for y in c["Y"]}, do)
                try:
                    got = xo.ev(est, env, model)
                except xo.Undefined:
                    continue
                if got != want:
                    out["C01"] = f"estimand {est} evaluates to {got} at {env}, P(Y|do(X)) is {want}"
                    return out
    return out


def _eval(c):
    try:
        return c, run_case(c)
    except Exception as e:
        return c, {"error": f"{type(e).__name__}: {e}"}


def sweep(rep, pid, n_random):
    t0 = time.time()
    rng = random.Random(repr((rep.seed, "idfam")))
    cases = list(gen_cases(rep.tier, rng, n_random))
    concrete.y0mod("y0.dsl")
    fails, errs, identified = [], [], 0
    with mp.get_context("fork").Pool(16) as pool:
        for c, res in pool.imap_unordered(_eval, cases, chunksize=8):
            if "error" in res:
                errs.append(res["error"])
            elif pid in res:
                fails.append((c, res[pid]))
    if errs:
        rep.errors.append(f"{pid} bounded part: {len(errs)} evaluation errors, e.g. {errs[0]}")
    rep.extra_parts.append({"name": f"identify_outcomes-vs-oracles[{pid}]", "kind": "bounded", "decides": True, "evaluations": len(cases),
                            "scope": "every ADMG on 2-3 nodes x every query (disjoint non-empty X, Y), plus sampled 4-6 node ADMGs and queries; "
                                     "judged by exact SCM evaluation (C01), the c-component identifiability criterion and caller-state comparison (C02), "
                                     "a syntactic vocabulary check (C06)",
                            "failures": len(fails), "wall_s": round(time.time() - t0, 1)})
    if fails:
        c, why = min(fails, key=lambda f: (len(f[0]["nodes"]), len(f[0]["directed"]) + len(f[0]["undirected"])))
        path = pipeline.write_replay(pid, "bounded.identify_outcomes", {"property": pid, "obligation": "y0.algorithm.identify.api.identify_outcomes/bounded." + pid,
                                                                       "case": c, "why": why})
        rep.violations.append(("y0.algorithm.identify.api.identify_outcomes/bounded." + pid, path, ""))
    rep.samples.append({"bounded_case": cases[len(cases) // 2]})


def gen_verdict_cases(tier, rng, n):
    """Verdict-only family (C02): uniformly sampled 4-node ADMGs x every kind of query, and sparse 5-node ADMGs.  A case costs a
    call of identify_outcomes and of the c-component criterion (no SCM evaluation), so tens of thousands fit in the quick tier."""
    vs4 = oracles.names(4)
    pairs = [(a, b) for a in vs4 for b in vs4 if a < b]
    qs4 = list(queries(vs4))
    for _ in range(n):
        order = rng.sample(vs4, 4)
        pos = {v: i for i, v in enumerate(order)}
        d = [(a, b) if pos[a] < pos[b] else (b, a) for a, b in pairs if rng.random() < rng.choice([0.35, 0.6])]
        u = [(a, b) for a, b in pairs if rng.random() < rng.choice([0.15, 0.3, 0.5])]
        xs, ys = rng.choice(qs4)
        yield {"verdict_only": True, "nodes": vs4, "directed": d, "undirected": u, "X": xs, "Y": ys, "seed": 1 + 4 * rng.randrange(1 << 28)}
    for _ in range(n // 3):
        vs, d, u = oracles.random_admg(rng, 5, p_d=rng.choice([0.3, 0.45]), p_u=rng.choice([0.1, 0.2, 0.3]))
        k = rng.randint(1, 3)
        xs = rng.sample(vs, k)
        rest = [v for v in vs if v not in xs]
        ys = rng.sample(rest, rng.randint(1, min(2, len(rest))))
        yield {"verdict_only": True, "nodes": vs, "directed": d, "undirected": u, "X": xs, "Y": ys, "seed": 1 + 4 * rng.randrange(1 << 28)}


def _eval_verdict(c):
    try:
        return c, run_case(c, which=("C02",))
    except Exception as e:
        return c, {"error": f"{type(e).__name__}: {e}"}


def verdict_sweep(rep, n):
    t0 = time.time()
    rng = random.Random(repr((rep.seed, "idfam-verdict")))
    cases = list(gen_verdict_cases(rep.tier, rng, n))
    concrete.y0mod("y0.dsl")
    fails, errs = [], []
    with mp.get_context("fork").Pool(16) as pool:
        for c, res in pool.imap_unordered(_eval_verdict, cases, chunksize=64):
            if "error" in res:
                errs.append(res["error"])
            elif "C02" in res:
                fails.append((c, res["C02"]))
    if errs:
        rep.errors.append(f"C02 verdict family: {len(errs)} evaluation errors, e.g. {errs[0]}")
    rep.extra_parts.append({"name": "identify_outcomes-verdict-family[C02]", "kind": "bounded", "decides": True, "evaluations": len(cases),
                            "scope": f"{n} uniformly sampled 4-node ADMGs x queries and {n // 3} sparse 5-node ADMGs: estimand / refusal against the c-component "
                                     "criterion, no other exception, caller state unchanged (verdict only, no numeric evaluation)",
                            "failures": len(fails), "wall_s": round(time.time() - t0, 1)})
    if fails and not any(v[0].endswith("bounded.C02") for v in rep.violations):
        c, why = min(fails, key=lambda f: (len(f[0]["nodes"]), len(f[0]["directed"]) + len(f[0]["undirected"])))
        path = pipeline.write_replay("C02", "bounded.verdict", {"property": "C02", "obligation": "y0.algorithm.identify.api.identify_outcomes/bounded.C02",
                                                               "case": c, "why": why})
        rep.violations.append(("y0.algorithm.identify.api.identify_outcomes/bounded.C02", path, ""))


def replay(pid, payload, path):
    res = run_case(payload["case"])
    print(json.dumps({"case": payload["case"], "now": res}, indent=1))
    if pid in res:
        print(f"VIOLATION property={pid} replay={path}")
        return 1
    return 0
