"""C13: replay of the open known finding on Expression.conditional (DESIGN §7 #11)."""
from __future__ import annotations

from y0vc import concrete, exproracle as xo
from y0vc.contract import REGISTRY


def extra(rep, repo, registry, known_open):
    dsl = concrete.y0mod("y0.dsl")
    parser = concrete.y0mod("y0.parser")
    con = registry["y0.dsl.Expression.conditional"]
    models = [xo.Model(xo.NAMES, s) for s in (11, 12)]
    for kf in known_open:
        if kf["obligation"] != "y0.dsl.Expression.conditional/bounded.contract":
            continue
        w = kf["witness"]
        recv = parser.parse_y0(w["receiver"])
        args = {"self": recv, "ranges": [dsl.Variable(n) for n in w["ranges"]]}
        try:
            out = ("return", con.call_real(args))
        except Exception as e:
            out = ("raise", type(e).__name__, str(e))
        why = con.judge(args, out, models)
        if why:
            rep.known_lines.append(f"KNOWN-FINDING: property=C13 {kf['what']} [witness {w['receiver']}.conditional({w['ranges']}): {why}]")
        rep.extra_parts.append({"name": "known-finding-replay", "kind": "replay", "witness": w, "still_fails": bool(why)})
