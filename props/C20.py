"""C20 bounded part: are_sigma_separated end to end (path enumeration by networkx.all_simple_paths and triplewise is outside
the generator's subset).  Symmetry and the adjacency rule on every directed mixed graph (cycles allowed) with <= 3 nodes and
sampled 4-node ones; agreement with d-separation in the canonical DAG on every ADMG with <= 3 nodes and sampled 4-5 node ones."""
from __future__ import annotations

import itertools as itt
import json
import multiprocessing as mp
import random
import time

from y0vc import concrete, oracles, pipeline


def gen_cases(tier, rng):
    def qs(vs):
        for a, b in itt.combinations(vs, 2):
            rest = [v for v in vs if v not in (a, b)]
            for k in range(len(rest) + 1):
                for C in itt.combinations(rest, k):
                    yield a, b, list(C)
    for n in (2, 3):
        for vs, d, u in oracles.all_admgs(n, acyclic=False):
            for a, b, C in qs(vs):
                yield {"nodes": vs, "directed": d, "undirected": u, "a": a, "b": b, "C": C}
                # history family (no hidden state): the same query on a graph object that was queried once *before* its last
                # edge was added in place through the public API (add_directed_edge / add_undirected_edge)
                es = [("d", x, y) for x, y in d] + [("u", x, y) for x, y in u]
                if es:
                    yield {"nodes": vs, "directed": d, "undirected": u, "a": a, "b": b, "C": C, "added_late": list(rng.choice(es))}
    # every DAG on 4 nodes (no bidirected edge) x every query: 543 x 24
    for vs, d, u in oracles.all_admgs(4):
        if u:
            continue
        for a, b, C in qs(vs):
            yield {"nodes": vs, "directed": d, "undirected": u, "a": a, "b": b, "C": C}
        u1 = [tuple(rng.sample(vs, 2))]           # the same DAG with one bidirected edge
        for a, b, C in qs(vs):
            yield {"nodes": vs, "directed": d, "undirected": u1, "a": a, "b": b, "C": C}
    for _ in range(2500 if tier == "quick" else 30000):
        n = rng.choice([4, 4, 5])
        acyc = rng.random() < 0.6
        vs, d, u = oracles.random_admg(rng, n, p_d=rng.choice([0.3, 0.5]), p_u=rng.choice([0.2, 0.4]), acyclic=acyc)
        a, b = rng.sample(vs, 2)
        C = [v for v in vs if v not in (a, b) and rng.random() < 0.4]
        c = {"nodes": vs, "directed": d, "undirected": u, "a": a, "b": b, "C": C}
        es = [("d", x, y) for x, y in d] + [("u", x, y) for x, y in u]
        if es and rng.random() < 0.3:
            c["added_late"] = list(rng.choice(es))
        yield c


def run_case(c):
    import networkx as nx
    dsl = concrete.y0mod("y0.dsl")
    ss = concrete.y0mod("y0.algorithm.separation.sigma_separation")
    V = dsl.Variable
    vs, d, u = c["nodes"], c["directed"], c["undirected"]
    C = [V(x) for x in c["C"]]
    late = c.get("added_late")
    if late:
        kind, x, y = late
        g = oracles.build(vs, [e for e in d if not (kind == "d" and tuple(e) == (x, y))],
                          [e for e in u if not (kind == "u" and tuple(e) == (x, y))])
        try:
            ss.are_sigma_separated(g, V(c["a"]), V(c["b"]), conditions=C)      # first query, on the graph without the edge
        except Exception as e:
            return f"raised {type(e).__name__}: {e}"
        (g.add_directed_edge if kind == "d" else g.add_undirected_edge)(V(x), V(y))
    else:
        g = oracles.build(vs, d, u)
    try:
        s1 = ss.are_sigma_separated(g, V(c["a"]), V(c["b"]), conditions=C)
        s2 = ss.are_sigma_separated(g, V(c["b"]), V(c["a"]), conditions=list(reversed(C)))
    except Exception as e:
        return f"raised {type(e).__name__}: {e}"
    if s1 != s2:
        return f"not symmetric: ({c['a']},{c['b']}) -> {s1}, ({c['b']},{c['a']}) -> {s2}"
    adjacent = any({x, y} == {c["a"], c["b"]} for x, y in list(d) + list(u))
    if adjacent and s1:
        return "two nodes joined by an edge are reported separated"
    dg = nx.DiGraph()
    dg.add_nodes_from(vs)
    dg.add_edges_from(d)
    if nx.is_directed_acyclic_graph(dg):
        truth = oracles.d_separated(vs, d, u, c["a"], c["b"], c["C"])
        if bool(s1) != truth:
            return f"acyclic graph: sigma verdict {s1}, d-separation in the canonical DAG is {truth}"
    return None


def _eval(c):
    try:
        return c, run_case(c), None
    except Exception as e:
        return c, None, f"{type(e).__name__}: {e}"


def extra(rep, repo, registry, known_open):
    t0 = time.time()
    rng = random.Random(repr((rep.seed, "C20")))
    cases = list(gen_cases(rep.tier, rng))
    concrete.y0mod("y0.dsl")
    fails, errs = [], []
    with mp.get_context("fork").Pool(16) as pool:
        for c, why, err in pool.imap_unordered(_eval, cases, chunksize=32):
            if err:
                errs.append(err)
            elif why:
                fails.append((c, why))
    if errs:
        rep.errors.append(f"C20 bounded part: {len(errs)} evaluation errors, e.g. {errs[0]}")
    rep.extra_parts.append({"name": "sigma-separation-end-to-end", "kind": "bounded", "decides": True, "evaluations": len(cases),
                            "scope": "every directed mixed graph (cycles allowed) on 2-3 nodes x every query, sampled 4-5 node graphs; symmetry, adjacency, "
                                     "agreement with networkx d-separation on the canonical DAG when acyclic",
                            "failures": len(fails), "wall_s": round(time.time() - t0, 1)})
    if fails:
        c, why = min(fails, key=lambda f: (len(f[0]["nodes"]), len(f[0]["directed"]) + len(f[0]["undirected"])))
        path = pipeline.write_replay("C20", "bounded.sigma", {"property": "C20", "obligation": "y0.algorithm.separation.sigma_separation.are_sigma_separated/bounded",
                                                              "case": c, "why": why})
        rep.violations.append(("y0.algorithm.separation.sigma_separation.are_sigma_separated/bounded", path, ""))
    rep.samples.append({"bounded_case": cases[len(cases) // 2]})


def replay(payload, path):
    why = run_case(payload["case"])
    print(json.dumps({"case": payload["case"], "now": why}, indent=1))
    if why:
        print(f"VIOLATION property=C20 replay={path}")
        return 1
    return 0
