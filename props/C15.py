"""C15 bounded part: the enumeration logic of get_conditional_independencies / d_separations / minimal / powerset (generators
with nested loops, sorted/groupby/min over judgement objects: outside the VC generator's subset) is checked against a
brute-force enumeration over an independent d-separation oracle.  Bounded: never counted as proved.
The deductive part of C15 is the contract of DSeparationJudgement.create (canonical form) and of are_d_separated
(every listed judgement is a true separation), see contracts/ci.py."""
from __future__ import annotations

import itertools
import json
import random
import time

from y0vc import concrete, oracles, pipeline

QUAL = "y0.algorithm.conditional_independencies.get_conditional_independencies"


def expected(vs, d, u, k):
    """pair -> minimum size of a separating set within the limit (sizes <= k; None = no limit)."""
    out = {}
    for a, b in itertools.combinations(sorted(vs), 2):
        rest = [v for v in vs if v not in (a, b)]
        top = len(rest) if k is None else min(k, len(rest))
        for r in range(0, top + 1):
            if any(oracles.d_separated(vs, d, u, a, b, c) for c in itertools.combinations(rest, r)):
                out[(a, b)] = r
                break
    return out


def run_case(c):
    dsl = concrete.y0mod("y0.dsl")
    ci = concrete.y0mod("y0.algorithm.conditional_independencies")
    vs, d, u, k = c["nodes"], c["directed"], c["undirected"], c["k"]
    g = oracles.build(vs, d, u, random.Random(c["shuffle"]))
    kwargs = {"max_conditions": k}
    if c["policy"] == "len_lex":
        kwargs["policy"] = ci._len_lex
    try:
        res = ci.get_conditional_independencies(g, **kwargs)
    except Exception as e:
        return f"raised {type(e).__name__}: {e}"
    exp = expected(vs, d, u, k)
    seen = {}
    for j in res:
        pair = tuple(sorted((j.left.name, j.right.name)))
        if pair in seen:
            return f"two judgements for the pair {pair}"
        seen[pair] = j
        if not j.separated:
            return f"listed judgement is not marked separated: {j}"
        if not j.is_canonical or j.left.name > j.right.name:
            return f"not canonical: {j}"
        conds = [x.name for x in j.conditions]
        if not oracles.d_separated(vs, d, u, j.left.name, j.right.name, conds):
            return f"listed judgement is not a true separation: {j}"
        if pair not in exp:
            return f"pair {pair} listed although no set within the limit separates it"
        if len(conds) != exp[pair]:
            return f"conditioning set of {j} has size {len(conds)}, minimum is {exp[pair]}"
        if k is not None and len(conds) > k:
            return f"conditioning set larger than the limit {k}: {j}"
    missing = sorted(set(exp) - set(seen))
    if missing:
        return f"separable pairs missing from the result: {missing[:3]}"
    return None


def cases(tier, rng):
    pol = ["topological", "len_lex"]
    ks = [None, 0, 1, 2, 3]
    for n in (2, 3):
        for vs, d, u in oracles.all_admgs(n):
            for k in ks:
                yield {"nodes": vs, "directed": d, "undirected": u, "k": k, "policy": pol[(len(d) + len(u) + (k or 0)) % 2],
                       "shuffle": rng.randrange(1 << 30)}
    for _ in range(600 if tier == "quick" else 8000):
        n = rng.choice([4, 4, 5])
        vs, d, u = oracles.random_admg(rng, n, p_d=rng.choice([0.3, 0.5]), p_u=rng.choice([0.15, 0.3]))
        yield {"nodes": vs, "directed": d, "undirected": u, "k": rng.choice(ks), "policy": rng.choice(pol), "shuffle": rng.randrange(1 << 30)}
    # an inclusion-minimal separator that is not a minimum one needs two parallel mediators behind a common cause: 5-6 nodes, sparse
    for _ in range(2500 if tier == "quick" else 20000):
        n = rng.choice([5, 5, 6])
        vs, d, u = oracles.random_admg(rng, n, p_d=rng.choice([0.25, 0.35, 0.45]), p_u=rng.choice([0.0, 0.1]))
        yield {"nodes": vs, "directed": d, "undirected": u, "k": rng.choice([None, None, 1, 2]), "policy": rng.choice(pol), "shuffle": rng.randrange(1 << 30)}


def _eval(c):
    return c, run_case(c)


def extra(rep, repo, registry, known_open):
    import multiprocessing as mp
    t0 = time.time()
    rng = random.Random(repr((rep.seed, "C15")))
    allc = list(cases(rep.tier, rng))
    fails = []
    concrete.y0mod("y0.dsl")
    with mp.get_context("fork").Pool(16) as pool:
        for c, why in pool.imap_unordered(_eval, allc, chunksize=16):
            if why:
                fails.append((c, why))
    rep.extra_parts.append({"name": "enumeration-vs-bruteforce", "kind": "bounded", "decides": True, "evaluations": len(allc),
                            "scope": "every ADMG on 2 and 3 nodes x limits {none,0,1,2,3} (policy alternating), plus sampled 4-5 node ADMGs; "
                                     "judged against brute-force enumeration over networkx d-separation on the canonical DAG",
                            "failures": len(fails), "wall_s": round(time.time() - t0, 1)})
    if fails:
        c, why = min(fails, key=lambda f: (len(f[0]["nodes"]), len(f[0]["directed"]) + len(f[0]["undirected"])))
        path = pipeline.write_replay("C15", "bounded.enumeration", {"property": "C15", "obligation": f"{QUAL}/bounded.enumeration",
                                                                      "case": c, "why": why})
        rep.violations.append((f"{QUAL}/bounded.enumeration", path, ""))
    rep.samples.append({"bounded_case": allc[len(allc) // 2]})


def replay(payload, path):
    why = run_case(payload["case"])
    print(json.dumps({"case": payload["case"], "now": why}, indent=1))
    if why:
        print(f"VIOLATION property=C15 replay={path}")
        return 1
    return 0
