from props import idfam


def extra(rep, repo, registry, known_open):
    idfam.sweep(rep, "C06", 400 if rep.tier == "quick" else 12000)


def replay(payload, path):
    return idfam.replay("C06", payload, path)
