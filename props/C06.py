"""C06 bounded parts: vocabulary of returned estimands.  ID / IDC: only observational probability terms over nodes of the
user's graph (checked on the same enumerated / sampled queries as C01 and C03).  ID* / IDC*: every probability term is
single-world (all its variables carry one common intervention set).  Transport: population-tagged terms of declared domains under declared experiments, no selection nodes, on a restricted family of graphs."""
from __future__ import annotations

import json
import multiprocessing as mp
import random
import time

from props import C03, cfcommon, idfam
from y0vc import concrete, oracles, pipeline


def single_world(e):
    dsl = concrete.y0mod("y0.dsl")
    if isinstance(e, dsl.Probability):
        sets = {frozenset(v.interventions) if isinstance(v, dsl.CounterfactualVariable) else frozenset() for v in (*e.children, *e.parents)}
        return None if len(sets) == 1 else f"term {e} mixes the worlds {sorted(map(lambda s: sorted(map(str, s)), sets))}"
    if isinstance(e, dsl.Sum):
        return single_world(e.expression)
    if isinstance(e, dsl.Product):
        return next((w for w in map(single_world, e.expressions) if w), None)
    if isinstance(e, dsl.Fraction):
        return single_world(e.numerator) or single_world(e.denominator)
    return None


def run_star(c):
    ids = concrete.y0mod("y0.algorithm.identify.id_star")
    idcs = concrete.y0mod("y0.algorithm.identify.idc_star")
    g = oracles.build(c["nodes"], c["directed"], c["undirected"])
    ev = cfcommon.event_from_json(c["event"])
    out = None
    try:
        est = ids.id_star(g, dict(ev))
        out = single_world(est)
    except Exception:
        pass            # refusals and the crashes listed under C07/C18 are not this property's business
    if out is None and len(ev) >= 2:
        items = list(ev.items())
        try:
            est = idcs.idc_star(g, dict(items[:1]), dict(items[1:]))
            out = single_world(est)
        except Exception:
            pass
    return out


def transport_vocab(expr, nodes, experiments):
    """None, or why the transport estimand leaves the available vocabulary"""
    dsl = concrete.y0mod("y0.dsl")
    leaves, ranges = [], []

    def walk(e):
        if isinstance(e, dsl.Probability):
            leaves.append(e)
        elif isinstance(e, dsl.Sum):
            ranges.extend(e.ranges)
            walk(e.expression)
        elif isinstance(e, dsl.Product):
            for x in e.expressions:
                walk(x)
        elif isinstance(e, dsl.Fraction):
            walk(e.numerator)
            walk(e.denominator)
        elif not isinstance(e, (dsl.One, dsl.Zero)):
            raise TypeError(type(e))
    walk(expr)
    for r in ranges:
        if type(r) is not dsl.Variable or r.name not in nodes:
            return f"summation over {r}, which is not a node of the user's graph"
    for leaf in leaves:
        if not isinstance(leaf, dsl.PopulationProbability):
            return f"{leaf} carries no population tag"
        pop = leaf.population
        if pop == dsl.TARGET_DOMAIN:
            allowed = set()
        elif pop.name in experiments:
            allowed = set(experiments[pop.name])
        else:
            return f"{leaf} refers to the undeclared domain {pop}"
        for v in (*leaf.children, *leaf.parents):
            if v.get_base().name not in nodes:
                return f"{leaf} mentions {v}, not a node of the user's graph"
            if isinstance(v, dsl.CounterfactualVariable):
                for i in v.interventions:
                    if i.get_base().name not in allowed:
                        return f"{leaf}: do({i.name}) is not an experiment available in {pop}"
    return None


def run_transport(c):
    dsl = concrete.y0mod("y0.dsl")
    tr = concrete.y0mod("y0.algorithm.transport")
    V = dsl.Variable
    g = oracles.build(c["nodes"], c["directed"], c["undirected"])
    pops = {p: dsl.Population(p) for p in c["experiments"]}
    try:
        est = tr.identify_target_outcomes(g, target_outcomes={V(y) for y in c["Y"]}, target_interventions={V(x) for x in c["X"]},
                                          surrogate_outcomes={pops[p]: {V(w) for w in ws} for p, ws in c["surrogates"].items()},
                                          surrogate_interventions={pops[p]: {V(z) for z in zs} for p, zs in c["experiments"].items()})
    except Exception:
        return None       # failures are C05's business
    if est is None:
        return None
    return transport_vocab(est, set(c["nodes"]), c["experiments"])


def transport_cases(tier, rng):
    """ADMGs on 3-4 nodes (every DAG on 3 nodes, sampled DAGs on 4) with 0-2 bidirected edges anywhere, 1-2 treatments, one or two
    source domains with 1-2 surrogate outcomes; 40% with user variables named X_1, bmi_score, ..."""
    import itertools as itt
    for n in (3, 4):
        vs = oracles.names(n)
        pairs = list(itt.combinations(vs, 2))
        masks = range(1 << len(pairs)) if n == 3 or tier == "thorough" else [rng.randrange(1 << len(pairs)) for _ in range(260)]
        for dm, rep_ in itt.product(masks, range(4 if n == 3 else 3)):
            d = [p for k, p in enumerate(pairs) if dm >> k & 1]
            x, y = rng.sample(vs, 2)
            xs = [x] if rng.random() < 0.5 else sorted({x, rng.choice([v for v in vs if v != y])})
            u = rng.sample(pairs, rng.choice([0, 0, 1, 1, 2]))
            z1, w1 = rng.choice(vs), rng.choice(vs)
            exps, surr = {"pi1": [z1]}, {"pi1": sorted({w1, rng.choice(vs)}) if rng.random() < 0.3 else [w1]}
            if rng.random() < 0.35:
                # an experiment on one of the treatments observed on (almost) every other node: the derivation then enters the source
                # domain (line 6) and continues inside it (lines 10, 9)
                z1 = rng.choice(xs)
                exps, surr = {"pi1": [z1]}, {"pi1": [v for v in vs if v != z1 and rng.random() < 0.85] or [y]}
            if rng.random() < 0.3:
                exps["pi2"], surr["pi2"] = [rng.choice(vs)], [rng.choice(vs)]
            x = xs
            c = {"nodes": vs, "directed": d, "undirected": u, "X": x, "Y": [y], "experiments": exps, "surrogates": surr}
            if rng.random() < 0.4:
                # user variables whose names contain underscores and digits (selection nodes are recognised by a name prefix)
                ren = dict(zip(vs, ["X_1", "bmi_score", "Y_2", "w_0_z"]))
                r = lambda xs: [ren[v] for v in xs]
                c = {"nodes": r(vs), "directed": [r(e) for e in d], "undirected": [r(e) for e in u], "X": r(x), "Y": r([y]),
                     "experiments": {k: r(v) for k, v in exps.items()}, "surrogates": {k: r(v) for k, v in surr.items()}}
            yield c


def transport_cases_two_treatments(tier, rng):
    """4-node ADMGs, two treatments, an experiment on one of them observed on (almost) every other node: the derivation enters the source
    domain (line 6) and continues inside it (lines 10 and 9); about 1 in 200 of these exposes a defect on that path."""
    import itertools as itt
    vs = oracles.names(4)
    pairs = list(itt.combinations(vs, 2))
    for _ in range(900 if tier == "quick" else 12000):
        order = rng.sample(vs, 4)
        pos = {v: i for i, v in enumerate(order)}
        d = [[a, b] if pos[a] < pos[b] else [b, a] for a, b in pairs if rng.random() < 0.5]
        u = [list(e) for e in rng.sample(pairs, rng.choice([1, 1, 2]))]
        y = rng.choice(vs)
        xs = rng.sample([v for v in vs if v != y], 2)
        z = rng.choice(xs)
        W = [v for v in vs if v != z and rng.random() < 0.9] or [y]
        yield {"nodes": vs, "directed": d, "undirected": u, "X": sorted(xs), "Y": [y], "experiments": {"pi1": [z]}, "surrogates": {"pi1": W}}


def transport_cases_two_domains(tier, rng):
    """3-4 node ADMGs with two source domains that are *both* usable at the same step: each has experiments on a (different) non-empty
    subset of the treatments and observes (almost) every other node; both orders of the user's dictionaries.  The loop over usable
    domains in lines 6-7 then has more than one candidate, and what the returned term is tagged with depends on which one
    succeeded -- not on which one the loop visited last."""
    import itertools as itt
    for _ in range(1500 if tier == "quick" else 20000):
        n = rng.choice([3, 4, 4])
        vs = oracles.names(n)
        pairs = list(itt.combinations(vs, 2))
        order = rng.sample(vs, n)
        pos = {v: i for i, v in enumerate(order)}
        d = [[a, b] if pos[a] < pos[b] else [b, a] for a, b in pairs if rng.random() < 0.5]
        u = [list(e) for e in rng.sample(pairs, rng.choice([0, 0, 1, 1, 2]))]
        y = rng.choice(vs)
        xs = rng.sample([v for v in vs if v != y], rng.choice([1, 2, 2]) if n > 2 else 1)
        z1 = sorted(rng.sample(xs, rng.randint(1, len(xs))))
        z2 = sorted(rng.sample(xs, rng.randint(1, len(xs))))
        if rng.random() < 0.3:
            z2 = sorted(set(z2) | {rng.choice(vs)})
        exps = {"pi1": z1, "pi2": z2}
        surr = {p: [v for v in vs if v not in z and rng.random() < 0.9] or [y] for p, z in exps.items()}
        if rng.random() < 0.5:
            exps, surr = dict(reversed(list(exps.items()))), dict(reversed(list(surr.items())))
        yield {"nodes": vs, "directed": d, "undirected": u, "X": sorted(xs), "Y": [y], "experiments": exps, "surrogates": surr}


def _eval_tr(c):
    try:
        return c, run_transport(c), None
    except Exception as e:
        return c, None, f"{type(e).__name__}: {e}"


def _eval_star(c):
    try:
        return c, run_star(c), None
    except Exception as e:
        return c, None, f"{type(e).__name__}: {e}"


def _eval_idc(c):
    try:
        why = C03.run_case(c)
        return c, (why if why and "vocabulary" in why else None), None
    except Exception as e:
        return c, None, f"{type(e).__name__}: {e}"


def extra(rep, repo, registry, known_open):
    idfam.sweep(rep, "C06", 400 if rep.tier == "quick" else 12000)
    t0 = time.time()
    rng = random.Random(repr((rep.seed, "C06")))
    concrete.y0mod("y0.dsl")
    idc_cases = list(C03.gen_cases(rep.tier, rng, 200 if rep.tier == "quick" else 6000))
    star_cases = []
    for vs, d, u in cfcommon.small_graphs(rng, rep.tier, 200 if rep.tier == "quick" else 5000):
        for _ in range(2):
            ev = cfcommon.random_event(rng, vs, kmax=3)
            star_cases.append({"nodes": vs, "directed": d, "undirected": u, "event": cfcommon.event_to_json(ev)})
    fails, errs = [], []
    with mp.get_context("fork").Pool(16) as pool:
        for c, why, err in pool.imap_unordered(_eval_idc, idc_cases, chunksize=16):
            if err:
                errs.append(err)
            elif why:
                fails.append((c, why, "idc"))
        for c, why, err in pool.imap_unordered(_eval_star, star_cases, chunksize=16):
            if err:
                errs.append(err)
            elif why:
                fails.append((c, why, "star"))
        tr_cases = list(transport_cases(rep.tier, rng)) + list(transport_cases_two_treatments(rep.tier, rng)) + list(transport_cases_two_domains(rep.tier, rng))
        for c, why, err in pool.imap_unordered(_eval_tr, tr_cases, chunksize=16):
            if err:
                errs.append(err)
            elif why:
                fails.append((c, why, "transport"))
    if errs:
        rep.errors.append(f"C06 bounded part: {len(errs)} evaluation errors, e.g. {errs[0]}")
    rep.extra_parts.append({"name": "vocabulary-of-idc-and-idstar-estimands", "kind": "bounded", "decides": True, "evaluations": len(idc_cases) + len(star_cases) + len(tr_cases),
                            "scope": "IDC estimands on the C03 query set (observational vocabulary); ID* / IDC* estimands on sampled events over every ADMG with 2-3 nodes and "
                                     "sampled 3-4 node ADMGs (single-world terms); transport estimands on ADMGs with 3-4 nodes and 0-2 bidirected edges, 1-2 treatments, 1-2 source domains, also with user variables named X_1 / bmi_score (population tags, declared experiments, no selection nodes)", "failures": len(fails), "wall_s": round(time.time() - t0, 1)})
    if fails:
        c, why, kind = min(fails, key=lambda f: len(json.dumps(f[0])))
        path = pipeline.write_replay("C06", "bounded.vocab", {"property": "C06", "obligation": f"vocabulary/bounded.{kind}", "case": c, "why": why, "kind": kind})
        rep.violations.append((f"vocabulary/bounded.{kind}", path, ""))


def replay(payload, path):
    if "kind" not in payload:
        return idfam.replay("C06", payload, path)
    why = run_star(payload["case"]) if payload["kind"] == "star" else (run_transport(payload["case"]) if payload["kind"] == "transport" else _eval_idc(payload["case"])[1])
    print(json.dumps({"case": payload["case"], "now": why}, indent=1))
    if why:
        print(f"VIOLATION property=C06 replay={path}")
        return 1
    return 0
