"""Shared generators for the counterfactual properties (C07, C08, C18, C19): small ADMGs and conjunctions of counterfactual
events over them (several worlds, shared and distinct subscripts, factual variables)."""
from __future__ import annotations

import itertools as itt

from y0vc import concrete, oracles


def cf_variables(vs, reflexive=False, max_sub=2):
    dsl = concrete.y0mod("y0.dsl")
    V = [dsl.Variable(n) for n in vs]
    out = list(V)
    for v in V:
        others = [w for w in V if reflexive or w != v]
        for k in range(1, max_sub + 1):
            for sub in itt.combinations(others, k):
                for stars in itt.product([False, True], repeat=k):
                    out.append(dsl.CounterfactualVariable(name=v.name, star=None,
                                                          interventions=frozenset(dsl.Intervention(name=w.name, star=s) for w, s in zip(sub, stars))))
    return out


def random_event(rng, vs, kmax=3, reflexive=False):
    dsl = concrete.y0mod("y0.dsl")
    cands = cf_variables(vs, reflexive=reflexive)
    ks = rng.sample(cands, rng.randint(1, min(kmax, len(cands))))
    return {v: dsl.Intervention(name=v.name, star=rng.random() < 0.5) for v in ks}


def event_to_json(ev):
    return [[v.name, sorted([i.name, bool(i.star)] for i in getattr(v, "interventions", ())), bool(val.star)] for v, val in ev.items()]


def event_from_json(js):
    dsl = concrete.y0mod("y0.dsl")
    out = {}
    for name, ivs, star in js:
        if ivs:
            var = dsl.CounterfactualVariable(name=name, star=None, interventions=frozenset(dsl.Intervention(name=n, star=s) for n, s in ivs))
        else:
            var = dsl.Variable(name)
        out[var] = dsl.Intervention(name=name, star=star)
    return out


def small_graphs(rng, tier, n_random):
    for n in (2, 3):
        for vs, d, u in oracles.all_admgs(n):
            yield vs, d, u
    for _ in range(n_random):
        n = rng.choice([3, 4, 4])
        vs, d, u = oracles.random_admg(rng, n, p_d=rng.choice([0.35, 0.6]), p_u=rng.choice([0.2, 0.4]))
        yield vs, d, u[:4]
