"""C11 -- canonical form as a normal form.  No obligation is discharged for this property: the Canon predicate (sorted
children, flat sorted products, injective sort keys) needs an ordered-sequence / key theory the VC generator does not
have.  The check is the labelled bounded stand-in only:

  idempotence            canon(canon(e, o), o) == canon(e, o)
  permutation invariance canon(pi(e), o) == canon(e, o) for presentations pi(e) of e: factors of products shuffled,
                         products re-nested, variables on either side of a conditioning bar reordered
  hash-seed independence the canonical text is the same under three PYTHONHASHSEED values (fresh interpreters)

on sampled expressions of depth <= 3, *outside* the two input classes of the open known findings (replayed every run):
  K1 (sort-key ties)     some product has two distinct factors with the same intended sort key
  K2 (single pass)       the expression contains a Fraction, or a product with a Sum / Fraction factor
The exclusion predicates are computed from a re-statement of the intended keys, not from the code under test."""
from __future__ import annotations

import itertools as itt
import json
import os
import random
import subprocess
import sys
import time

from y0vc import concrete, exproracle as xo, pipeline

QUAL = "y0.mutate.canonicalize_expr.canonicalize"


def spec_key(e):
    """the intended sort key (as documented by the unchanged _get_key methods), restated"""
    dsl = concrete.y0mod("y0.dsl")
    if isinstance(e, dsl.PopulationProbability):
        return (-1, str(e.population), e.children[0].name)
    if isinstance(e, dsl.Probability):
        return (0, e.children[0].name)
    if isinstance(e, dsl.Sum):
        return (1, *spec_key(e.expression))
    if isinstance(e, dsl.Product):
        return (2, *[spec_key(x) for x in e.expressions])
    if isinstance(e, dsl.Fraction):
        return (3, spec_key(e.numerator), spec_key(e.denominator))
    if isinstance(e, (dsl.One, dsl.Zero)):
        return (4, e.to_text())
    if isinstance(e, dsl.QFactor):
        return (-5, min(v.name for v in e.domain), min(v.name for v in e.codomain))
    raise TypeError(type(e))


def canon_form(e, order):
    """A small normal form of the *canonical form* of e under the ordering, restated independently of the code under test: products
    flattened with One dropped (Zero absorbing, a single factor unwrapped), a sum over an unconditioned joint marginalised (also
    through nested sums), x / 1 = x, x / x = 1.  Used only to decide whether two factors can tie on their sort key (class K1)."""
    dsl = concrete.y0mod("y0.dsl")
    # note: canonicalize() passes a given ordering through _upgrade_ordering, which sorts it by name: the effective ordering is
    # always the alphabetical one (an admissible ordering), whatever the caller supplies
    pos = {n: i for i, n in enumerate(sorted(order))}
    srt = lambda names: tuple(sorted(names, key=lambda n: pos.get(n, 99)))
    if isinstance(e, dsl.Probability):
        pop = str(e.population) if isinstance(e, dsl.PopulationProbability) else None
        return ("P", pop, srt(v.name for v in e.children), srt(v.name for v in e.parents), tuple(sorted(str(v) for v in (*e.children, *e.parents))))
    if isinstance(e, dsl.Sum):
        b = canon_form(e.expression, order)
        ranges = {r.name for r in e.ranges}
        if b[0] == "P" and not b[3]:
            rest = [c for c in b[2] if c not in ranges]
            extra = frozenset(ranges - set(b[2]))
            base = ("1",) if not rest else ("P", b[1], tuple(rest), (), ())
            return ("S", extra, base) if extra else base
        return ("S", frozenset(ranges), b)
    if isinstance(e, dsl.Product):
        fs = [canon_form(x, order) for x in flat_factors(e)]
        if any(f == ("0",) for f in fs):
            return ("0",)
        fs = [f for f in fs if f != ("1",)]
        if not fs:
            return ("1",)
        if len(fs) == 1:
            return fs[0]
        return ("M", tuple(sorted(fs, key=repr)))
    if isinstance(e, dsl.Fraction):
        n, d = canon_form(e.numerator, order), canon_form(e.denominator, order)
        if d == ("1",):
            return n
        if n == d:
            return ("1",)
        return ("F", n, d)
    if isinstance(e, dsl.One):
        return ("1",)
    if isinstance(e, dsl.Zero):
        return ("0",)
    if isinstance(e, dsl.QFactor):
        return ("Q", tuple(sorted(v.name for v in e.domain)), tuple(sorted(v.name for v in e.codomain)))
    raise TypeError(type(e))


def _form_key(f):
    if f[0] == "P":
        return (0, f[2][0]) if f[1] is None else (-1, f[1], f[2][0])
    if f[0] == "S":
        return (1, *_form_key(f[2]))
    if f[0] == "M":
        return (2, *sorted(_form_key(x) for x in f[1]))
    if f[0] == "F":
        return (3, _form_key(f[1]), _form_key(f[2]))
    if f[0] == "Q":
        return (-5, f[1][0] if f[1] else "", f[2][0] if f[2] else "")
    return (4, f[0])


def canon_key(e, order):
    """the intended sort key of the canonical form of e (see canon_form)"""
    return _form_key(canon_form(e, order))


def flat_factors(e):
    dsl = concrete.y0mod("y0.dsl")
    if isinstance(e, dsl.Product):
        for x in e.expressions:
            yield from flat_factors(x)
    else:
        yield e


def has_key_tie(e, order=xo.NAMES):
    dsl = concrete.y0mod("y0.dsl")
    if isinstance(e, dsl.Product):
        fs = list(flat_factors(e))
        for a, b in itt.combinations(fs, 2):
            simple = isinstance(a, dsl.Probability) or isinstance(b, dsl.Probability)
            if a != b and not _same_up_to_order(a, b) and (spec_key(a) == spec_key(b) or canon_key(a, order) == canon_key(b, order)
                                                           or (simple and (_smallest_child(a) == _smallest_child(b) or _leading(a) & _leading(b)))):
                return True
        return any(has_key_tie(x, order) for x in fs)
    if isinstance(e, dsl.Sum):
        return has_key_tie(e.expression, order)
    if isinstance(e, dsl.Fraction):
        return has_key_tie(e.numerator, order) or has_key_tie(e.denominator, order)
    return False


def _leading(e):
    """Candidate leading child names of the canonical form of e (conservative: a sum whose nested sums collapse onto an unconditioned
    joint contributes the smallest child that survives the summation, besides the candidates of its body)."""
    dsl = concrete.y0mod("y0.dsl")
    if isinstance(e, dsl.Probability):
        return {min(v.name for v in e.children)}
    if isinstance(e, dsl.Sum):
        out = set(_leading(e.expression))
        ranges, b = set(), e
        while isinstance(b, dsl.Sum):
            ranges |= {r.name for r in b.ranges}
            b = b.expression
        if isinstance(b, dsl.Probability) and not b.parents:
            rest = [v.name for v in b.children if v.name not in ranges]
            if rest:
                out.add(min(rest))
        return out
    if isinstance(e, dsl.Product):
        return set().union(*[_leading(x) for x in e.expressions]) if e.expressions else set()
    if isinstance(e, dsl.Fraction):
        return _leading(e.numerator) | _leading(e.denominator)
    return set()


def _smallest_child(e):
    """alphabetically smallest child name of any probability term inside e (conservative proxy for the leading sort key)"""
    dsl = concrete.y0mod("y0.dsl")
    if isinstance(e, dsl.Probability):
        return min(v.name for v in e.children)
    if isinstance(e, dsl.Sum):
        return _smallest_child(e.expression)
    if isinstance(e, dsl.Product):
        return min((_smallest_child(x) for x in e.expressions), default=None, key=lambda x: x or "~")
    if isinstance(e, dsl.Fraction):
        return min([_smallest_child(e.numerator), _smallest_child(e.denominator)], key=lambda x: x or "~")
    return None


def _same_up_to_order(a, b):
    dsl = concrete.y0mod("y0.dsl")
    if isinstance(a, dsl.Probability) and isinstance(b, dsl.Probability) and type(a) is type(b):
        return set(a.children) == set(b.children) and set(a.parents) == set(b.parents) and getattr(a, "population", None) == getattr(b, "population", None)
    return False


def single_pass_class(e):
    dsl = concrete.y0mod("y0.dsl")
    if isinstance(e, dsl.Fraction):
        return True
    if isinstance(e, dsl.Product):
        fs = list(flat_factors(e))
        return any(isinstance(x, (dsl.Sum, dsl.Fraction)) for x in fs) or any(single_pass_class(x) for x in fs)
    if isinstance(e, dsl.Sum):
        return single_pass_class(e.expression)
    return False


def presentations(e, rng, n=3):
    """other presentations of the same expression"""
    dsl = concrete.y0mod("y0.dsl")

    def shuffle(x):
        if isinstance(x, dsl.Probability):
            ch, pa = list(x.children), list(x.parents)
            rng.shuffle(ch)
            rng.shuffle(pa)
            return x._new(dsl.Distribution(children=tuple(ch), parents=tuple(pa)))
        if isinstance(x, dsl.Product):
            fs = [shuffle(f) for f in flat_factors(x)]
            rng.shuffle(fs)
            if len(fs) > 2 and rng.random() < 0.5:
                k = rng.randint(1, len(fs) - 2)
                fs = [dsl.Product(tuple(fs[:k + 1]))] + fs[k + 1:] if len(fs[:k + 1]) >= 2 else fs
            return dsl.Product(tuple(fs)) if len(fs) >= 2 else fs[0]
        if isinstance(x, dsl.Sum):
            return dsl.Sum(shuffle(x.expression), x.ranges)
        if isinstance(x, dsl.Fraction):
            return dsl.Fraction(shuffle(x.numerator), shuffle(x.denominator))
        return x
    return [shuffle(e) for _ in range(n)]


def run_case(blob):
    import base64
    import pickle
    canon = concrete.y0mod("y0.mutate.canonicalize_expr")
    dsl = concrete.y0mod("y0.dsl")
    e, order, seed = pickle.loads(base64.b64decode(blob))
    o = [dsl.Variable(n) for n in order]
    try:
        c1 = canon.canonicalize(e, o)
    except Exception as ex:
        return None if isinstance(ex, ZeroDivisionError) else f"canonicalize raised {type(ex).__name__}: {ex}"
    tie = has_key_tie(e, order)
    if not single_pass_class(e) and not tie:
        c2 = canon.canonicalize(c1, o)
        if c2 != c1:
            return f"not idempotent: {c1} -> {c2}"
    if not tie:
        rng = random.Random(seed)
        for p in presentations(e, rng):
            try:
                cp = canon.canonicalize(p, o)
            except ZeroDivisionError:
                continue
            if cp != c1 and not _tied_permutation(cp, c1):
                return f"presentation dependent: {p} -> {cp}, but {e} -> {c1}"
    return None


def _tied_permutation(a, b):
    """The two canonical forms differ only in the relative order of factors whose (documented) sort keys are equal: the class K1 of
    the open known finding (ties are broken by input order), recognised on the outputs -- nested sums, unit factors and nested
    fractions make it impossible to predict every tie from the input."""
    dsl = concrete.y0mod("y0.dsl")
    if a == b:
        return True
    if type(a) is not type(b):
        return False
    if isinstance(a, dsl.Product):
        if len(a.expressions) != len(b.expressions):
            return False
        ka, kb = [spec_key(x) for x in a.expressions], [spec_key(x) for x in b.expressions]
        if ka != kb or any(x > y for x, y in zip(ka, ka[1:])):
            return False            # both must be sorted by key, with the same key sequence
        # within each run of equal keys the factors must match up to order (recursively)
        i = 0
        while i < len(ka):
            j = i
            while j < len(ka) and ka[j] == ka[i]:
                j += 1
            left, right = list(a.expressions[i:j]), list(b.expressions[i:j])
            for x in left:
                m = next((y for y in right if _tied_permutation(x, y)), None)
                if m is None:
                    return False
                right.remove(m)
            i = j
        return True
    if isinstance(a, dsl.Sum):
        return a.ranges == b.ranges and _tied_permutation(a.expression, b.expression)
    if isinstance(a, dsl.Fraction):
        return _tied_permutation(a.numerator, b.numerator) and _tied_permutation(a.denominator, b.denominator)
    return False


def wide_products(rng, n):
    """products of 4-6 factors with pairwise distinct leading variables over A..F, presented with a random bracketing"""
    dsl = concrete.y0mod("y0.dsl")
    V = {k: dsl.Variable(k) for k in "ABCDEF"}
    P = dsl.P
    A, B, C, D, E, F = (V[k] for k in "ABCDEF")
    atoms = [P(A), P(B | A), P(C | A, B), P(D | A), P(E, F), P(F | B, C), dsl.Sum(P(D, A), frozenset([A])), dsl.Sum(P(E | A) * P(A), frozenset([A]))]

    def bracket(fs):
        if len(fs) <= 2 or rng.random() < 0.15:
            return dsl.Product(tuple(fs)) if len(fs) >= 2 else fs[0]
        k = rng.randint(1, len(fs) - 1)
        l, r = bracket(fs[:k]), bracket(fs[k:])
        return dsl.Product((l, r))
    out = []
    for _ in range(n):
        fs, seen = [], set()
        for a in rng.sample(atoms, len(atoms)):
            lead = _smallest_child(a)
            if lead not in seen:
                seen.add(lead)
                fs.append(a)
        fs = fs[: rng.randint(4, 6)]
        if len(fs) >= 3:
            out.append(bracket(fs))
    return out


def twin_products(rng, n):
    """products of compound factors (sums / fractions of products) that share their leading inner factor and differ later"""
    dsl = concrete.y0mod("y0.dsl")
    P = dsl.P
    A, B, C, D = (dsl.Variable(k) for k in "ABCD")
    lead = [P(A | C), P(A | D), P(A, B | C)]
    tails = [P(B | C), P(C), P(D | C), P(B | D), P(D), P(C | D)]
    out = []
    for _ in range(n):
        l = rng.choice(lead)
        t1, t2 = rng.sample(tails, 2)
        kind = rng.choice(["sum", "frac"])
        if kind == "sum":
            f1, f2 = dsl.Sum(dsl.Product((l, t1)), frozenset([C])), dsl.Sum(dsl.Product((l, t2)), frozenset([C]))
        else:
            f1, f2 = dsl.Fraction(dsl.Product((l, t1)), P(C, D)), dsl.Fraction(dsl.Product((l, t2)), P(C, D))
        fs = [f1, f2] + ([P(B)] if rng.random() < 0.5 else [])
        rng.shuffle(fs)
        out.append(dsl.Product(tuple(fs)))
    return out


def leaf_presentations_part():
    """Every probability leaf over A, B, C (value marks, intervention subscripts, population tags: the family of props/C12.py) in every
    order of its children and of its parents, under the explicit ordering A, B, C and under no ordering: one canonical form per leaf,
    and canonicalising it again changes nothing."""
    import itertools as itt
    from props import C12
    canon = concrete.y0mod("y0.mutate.canonicalize_expr")
    dsl = concrete.y0mod("y0.dsl")
    fails, n = [], 0
    orderings = [[dsl.Variable(x) for x in "ABC"], None]
    for leaf in C12.leaf_family():
        if len(leaf.children) < 2 and len(leaf.parents) < 2:
            continue
        for o in orderings:
            outs = set()
            for ch in itt.permutations(leaf.children):
                for pa in itt.permutations(leaf.parents):
                    p = leaf._new(dsl.Distribution(children=tuple(ch), parents=tuple(pa)))
                    n += 1
                    try:
                        c = canon.canonicalize(p, o)
                    except Exception as ex:
                        fails.append(f"canonicalize({p}) raised {type(ex).__name__}: {ex}")
                        continue
                    outs.add(c)
                    if canon.canonicalize(c, o) != c:
                        fails.append(f"not idempotent on a leaf: {p} -> {c} -> {canon.canonicalize(c, o)}")
            if len(outs) > 1:
                fails.append(f"presentation dependent on a leaf (ordering {'A,B,C' if o else 'None'}): " + " vs ".join(sorted(map(str, outs))[:3]))
            if len(fails) > 5:
                return n, fails
    return n, fails


def gen_blobs(tier, rng, n):
    import base64
    import pickle
    pool = xo.Pool(rng.randrange(1 << 30), rich=False)
    out = [base64.b64encode(pickle.dumps((e, list("ABCDEF"), rng.randrange(1 << 30)))).decode() for e in wide_products(rng, n // 5) + twin_products(rng, n // 10)]
    for _ in range(n):
        e = pool.gen(rng.randint(1, 3))
        if not xo.well_scoped(e) or "Q[" in str(e):
            continue
        out.append(base64.b64encode(pickle.dumps((e, rng.sample(xo.NAMES, len(xo.NAMES)), rng.randrange(1 << 30)))).decode())
    return out


HASH_SNIPPET = r"""
import sys, pickle, base64
sys.path.insert(0, sys.argv[1])
from y0.mutate.canonicalize_expr import canonicalize
from y0.dsl import Variable
for line in sys.stdin:
    e, order, seed = pickle.loads(base64.b64decode(line.strip()))
    try:
        print(canonicalize(e, [Variable(n) for n in order]).to_y0())
    except Exception as ex:
        print("EXC", type(ex).__name__)
"""


def hash_seed_part(blobs):
    from y0vc.extract import SRC
    outs = []
    for hs in ("0", "1", "12345"):
        p = subprocess.run([sys.executable, "-c", HASH_SNIPPET, str(SRC)], input="\n".join(blobs), capture_output=True, text=True,
                           env={**os.environ, "PYTHONHASHSEED": hs}, timeout=600)
        outs.append(p.stdout.splitlines())
    diffs = [i for i in range(min(map(len, outs))) if len({o[i] for o in outs}) > 1]
    return diffs, outs


def extra(rep, repo, registry, known_open):
    import base64
    import multiprocessing as mp
    import pickle
    t0 = time.time()
    rng = random.Random(repr((rep.seed, "C11")))
    blobs = gen_blobs(rep.tier, rng, 2500 if rep.tier == "quick" else 60000)
    concrete.y0mod("y0.dsl")
    with mp.get_context("fork").Pool(16) as pool:
        res = pool.map(run_case, blobs, chunksize=32)
    fails = [(b, w) for b, w in zip(blobs, res) if w]
    nt = sum(1 for b in blobs[:400] if not has_key_tie(*pickle.loads(base64.b64decode(b))[:2]))
    rep.extra_parts.append({"name": "normal-form-properties", "kind": "bounded", "decides": True, "evaluations": len(blobs),
                            "scope": "sampled well-scoped expressions of depth <= 3 over A, B, C and random orderings; idempotence outside class K2, permutation "
                                     f"invariance outside class K1 ({nt} of the first 400 samples are outside K1)", "failures": len(fails), "wall_s": round(time.time() - t0, 1)})
    n_leaf, leaf_fails = leaf_presentations_part()
    rep.extra_parts.append({"name": "leaf-presentations", "kind": "bounded", "decides": True, "evaluations": n_leaf,
                            "scope": "every probability leaf over A, B, C with value marks / intervention subscripts / population tag, all orders of children and parents, "
                                     "ordering A,B,C and None: a single canonical form, idempotent", "failures": len(leaf_fails)})
    if leaf_fails and not fails:
        path = pipeline.write_replay("C11", "bounded.normal-form", {"property": "C11", "obligation": "y0.mutate.canonicalize_expr.canonicalize/bounded.normal-form",
                                                                    "why": leaf_fails[0], "leaf_part": True})
        rep.violations.append(("y0.mutate.canonicalize_expr.canonicalize/bounded.normal-form", path, ""))
    if fails:
        b, why = min(fails, key=lambda f: len(f[1]))
        path = pipeline.write_replay("C11", "bounded.normal-form", {"property": "C11", "obligation": QUAL + "/bounded.normal-form", "why": why, "blob": b})
        rep.violations.append((QUAL + "/bounded.normal-form", path, ""))
    # hash seeds: fresh interpreters
    sub = [b for b in blobs if not has_key_tie(*pickle.loads(base64.b64decode(b))[:2])][: (300 if rep.tier == "quick" else 5000)]
    diffs, outs = hash_seed_part(sub)
    rep.extra_parts.append({"name": "hash-seed-independence", "kind": "bounded", "evaluations": len(sub) * 3, "seeds": [0, 1, 12345], "differences": len(diffs)})
    if diffs:
        i = diffs[0]
        path = pipeline.write_replay("C11", "bounded.hash-seed", {"property": "C11", "obligation": QUAL + "/bounded.hash-seed", "blob": sub[i],
                                                                  "why": f"canonical text differs across PYTHONHASHSEED values: {[o[i] for o in outs]}"})
        rep.violations.append((QUAL + "/bounded.hash-seed", path, ""))
    # known findings: replay the witnesses
    parser = concrete.y0mod("y0.parser")
    canon = concrete.y0mod("y0.mutate.canonicalize_expr")
    dsl = concrete.y0mod("y0.dsl")
    for kf in known_open:
        w = kf.get("witness", {})
        if kf["obligation"].endswith("/bounded.permutation"):
            a, b = parser.parse_y0(w["a"]), parser.parse_y0(w["b"])
            o = [dsl.Variable(n) for n in w["ordering"]]
            if canon.canonicalize(a, o) != canon.canonicalize(b, o):
                rep.known_lines.append(f"KNOWN-FINDING: property=C11 {kf['what']}")
        if kf["obligation"].endswith("/bounded.idempotence"):
            a = eval(w["python"], {k: getattr(dsl, k) for k in ("P", "A", "B", "C", "Sum", "Fraction", "Product", "One")})
            o = [dsl.Variable(n) for n in w["ordering"]]
            c1 = canon.canonicalize(a, o)
            if canon.canonicalize(c1, o) != c1:
                rep.known_lines.append(f"KNOWN-FINDING: property=C11 {kf['what']}")
    rep.samples.append({"expression": str(pickle.loads(base64.b64decode(blobs[0]))[0])})


def replay(payload, path):
    if payload.get("leaf_part"):
        n, fails = leaf_presentations_part()
        print(json.dumps({"recorded": payload["why"], "now": fails[:2]}))
        if fails:
            print(f"VIOLATION property=C11 replay={path}")
            return 1
        return 0
    why = run_case(payload["blob"]) if "hash-seed" not in payload["obligation"] else (hash_seed_part([payload["blob"]])[0] and "differs")
    print(json.dumps({"now": why}))
    if why:
        print(f"VIOLATION property=C11 replay={path}")
        return 1
    return 0
